package main

import (
	"fmt"
	"go/types"
	"strings"

	"golang.org/x/tools/go/ssa"
)

func init() {
	register(&PropDef{
		ID:          "C12",
		Level:       "other",
		Explanation: "Retention as decision table plus effect rules: (1) the removal decision touches its inputs only through comparisons; its enumerated paths are evaluated on every order type of definition-exists × (started, completed, canceled) × period{0,+} × (age ? period) × count{0,+} × (rank ? count) and must equal: undefined pipeline → remove (a still running job: either); waiting or running → keep; else remove ⇔ (period>0 ∧ age>period) ∨ (count>0 ∧ rank≥count); (2) the rank passed is the index in a fresh copy of the pipeline's list sorted newest-first (comparator orientation checked through the sorter's Less); (3) on the remove edge every path deletes the job from the id index and removes its logs with the job's own id, logs are removed nowhere else, and the file store removes exactly <base>/<jobID>; (4) the persisted snapshot ranges over the id index after the removal loop with no unlock in between and is what is handed to the store; (5) the load loop builds every stored job (a job skipped at start-up would leave the API and the store while its logs stay forever). Decides these shapes, not wall-clock ages or that sort.Sort sorts. (6) the helper that takes the job out of its pipeline's list drops exactly the elements equal to the job (identity comparison, orientation checked on the paths of the loop body). (7) the reload installs exactly the definitions it was given, so \"no longer defined\" means what the last reload said. A job that is still running when its pipeline is removed may be kept until it ended (required by C01) or purged at once — both satisfy this statement.",
		Trusted:     []string{"sort.Sort sorts", "time.Since", "os.RemoveAll removes the tree", "C13", "C09 (a save that returns nil has replaced the snapshot: the stored set is the snapshot taken after the removal)"},
		NotDecided:  []string{"wall-clock ages", "content of the log directories"},
		Check:       checkC12,
	})
}

// retentionTable evaluates the retention decision on every order type of its inputs (shared by C12 and C03).
type retInfo struct {
	jobArg, idxArg int    // positions of the job and of its rank in the decision call's arguments
	removeRet      string // the rendered first result that means "remove"
	region         []*ssa.Function
}

func retentionTable(w *World, r *Report) (ro *Roles, dec *ssa.Function, decCall *ssa.Call, info *retInfo) {
	ro = resolveRoles(w)
	ro.record(r)
	if ro.la == nil || ro.Save == nil {
		r.Undecided("anchors", "roles", "-", "save function unresolved: "+strings.Join(ro.Errs, "; "))
		return ro, nil, nil, nil
	}
	// anchor: the retention decision = a function called on the save path (the save function, the helpers
	// spliced into it, or the module functions it calls, depth ≤ 3) whose first result is a bool or a small
	// enum of the module and whose parameters (receiver included) are a job and its rank (an int)
	region := saveRegion(w, ro)
	rd := findRetentionDecision(w, ro, region)
	dec, decCall = rd.dec, rd.call
	jobPrm, idxPrm, defPrm, existsPrm := rd.job, rd.idx, rd.def, rd.exists
	if dec == nil {
		r.Undecided("table.anchors", "retention decision", w.Pos(ro.Save.Pos()), "the save function calls no (index, job) → (bool, …) decision function")
		return ro, nil, nil, nil
	}
	r.Anchor("retention decision", FuncName(dec))
	fname := FuncName(dec)
	res := w.EnumPaths(dec, EnumOpts{Inline: true, MaxPaths: 20000})
	r.Count("paths", len(res.Paths))
	J, idxAP := w.AP(jobPrm), w.AP(idxPrm)
	d := "recv.defs.Pipelines[" + J + ".Pipeline]"
	existsAP := "has(" + d + ")"
	if defPrm != nil {
		// the definition (and whether it exists) is handed in: at the call it is the comma-ok lookup of the
		// job's own pipeline in the current definitions
		d = w.AP(defPrm)
		existsAP = "has(" + d + ")"
		if existsPrm != nil {
			existsAP = w.AP(existsPrm)
		}
		jobArg := w.AP(decCall.Call.Args[paramIdxOf(jobPrm)])
		okDef := w.AP(decCall.Call.Args[paramIdxOf(defPrm)]) == "recv.defs.Pipelines["+jobArg+".Pipeline]"
		if existsPrm != nil {
			okDef = okDef && w.AP(decCall.Call.Args[paramIdxOf(existsPrm)]) == "has(recv.defs.Pipelines["+jobArg+".Pipeline])"
		}
		if !okDef {
			r.Undecided("table.retention", fname+": decision table", w.InstrPos(decCall), "the retention decision is handed a definition that is not the comma-ok lookup of the job's own pipeline in the current definitions")
			return ro, nil, nil, nil
		}
	}
	vars := map[string]string{
		existsAP: "defexists", J + ".Start": "startptr", J + ".Completed": "completed", J + ".Canceled": "canceled",
		d + ".RetentionPeriod": "period", "time.Since(" + J + ".Created)": "age", d + ".RetentionCount": "count", idxAP: "index",
	}
	// what the first result means: true, or — for an enum — the constant on whose edge the caller removes the job
	removeRet := "true"
	if f := dec.Signature.Results().At(0).Type().String(); f != "bool" {
		removeRet = ""
		host := decCall.Parent()
		for _, fct := range w.ifFacts(host) {
			if fct.Atom.Op != "==" || !strings.HasPrefix(fct.Atom.L, FuncName(dec)+"(") || !strings.HasSuffix(fct.Atom.L, "#0") {
				continue
			}
			tb := fct.If.Block().Succs[fct.SuccTrue]
			deletes := false
			for _, b := range host.Blocks {
				if !tb.Dominates(b) {
					continue
				}
				for _, in := range b.Instrs {
					if c := callCommonOf(in); c != nil {
						if bi, isB := c.Value.(*ssa.Builtin); isB && bi.Name() == "delete" && strings.HasSuffix(w.AP(c.Args[0]), ".jobsByID") {
							deletes = true
						}
						if g := c.StaticCallee(); g != nil && g.Blocks != nil && w.InModule(g) {
							allInstrs(g, func(x ssa.Instruction) {
								if cc := callCommonOf(x); cc != nil {
									if bi, isB := cc.Value.(*ssa.Builtin); isB && bi.Name() == "delete" && strings.HasSuffix(w.AP(cc.Args[0]), ".jobsByID") {
										deletes = true
									}
								}
							})
						}
					}
				}
			}
			if deletes {
				removeRet = fct.Atom.R
			}
		}
		if removeRet == "" {
			r.Undecided("table.retention", fname+": decision table", w.InstrPos(decCall), "the caller does not branch on the decision's result with a removal on one edge: which result means 'remove' is not recognised")
			return ro, nil, nil, nil
		}
	}
	// a decision that asks the job's running predicate is evaluated with that predicate's own table
	runTable, _ := runTableOf(w, ro.RunPred)
	if runTable != nil {
		vars[FuncName(ro.RunPred)+"("+J+")"] = "isrunning"
	}
	bad, n := 0, 0
	first := ""
	for _, de := range []int64{0, 1} {
		for _, s := range []int64{0, 1} {
			for _, c := range []int64{0, 1} {
				for _, x := range []int64{0, 1} {
					for _, period := range []int64{0, 5} {
						for _, age := range []int64{3, 5, 7} {
							for _, count := range []int64{0, 2} {
								for _, index := range []int64{0, 1, 2, 3} {
									n++
									env := map[string]int64{"defexists": de, "startptr": s, "completed": c, "canceled": x, "period": period, "age": age, "count": count, "index": index}
									if runTable != nil {
										env["isrunning"] = runTable[[3]int64{s, c, x}]
									}
									p, why := selectPath(res.Paths, vars, env)
									if p == nil || len(p.Ret) < 1 {
										r.Undecided("table.retention", fname+": decision table", w.Pos(dec.Pos()), "cannot evaluate the retention decision: "+why)
										return ro, nil, nil, nil
									}
									got := p.Ret[0] == removeRet
									var want bool
									switch {
									case de == 0 && s == 1 && c == 0 && x == 0:
										// a running job of a pipeline that is no longer defined: C12 only says such jobs are purged (at once
										// or once they ended — either is accepted there); C01 needs it kept while it runs — the pipeline can
										// be defined again by the next reload, and the admission count ranges over this list (finding D10)
										if r.Prop != "C01" {
											continue
										}
										want = false
									case de == 0:
										want = true
									case s == 0 && x == 0:
										want = false
									case c == 0 && x == 0:
										want = false
									default:
										want = (period > 0 && age > period) || (count > 0 && index >= count)
									}
									if got != want {
										bad++
										if first == "" {
											first = fmt.Sprintf("defined=%v started=%v completed=%v canceled=%v period=%d age=%d count=%d rank=%d → code %s, stated table %s (path %s)", de == 1, s == 1, c == 1, x == 1, period, age, count, index, keepStr(got), keepStr(want), p.LitString())
										}
									}
								}
							}
						}
					}
				}
			}
		}
	}
	r.Count("valuations", n)
	r.Check(bad == 0, "table.retention", fname+": decision table", w.Pos(dec.Pos()),
		fmt.Sprintf("%d valuations agree with: undefined pipeline → remove (a still running job: kept, required for C01, either way elsewhere); waiting/running → keep; else remove ⇔ (period>0 ∧ age>period) ∨ (count>0 ∧ rank≥count)", n),
		fmt.Sprintf("%d of %d valuations disagree with the stated retention table; first: %s", bad, n, first))

	return ro, dec, decCall, &retInfo{jobArg: paramIdxOf(jobPrm), idxArg: paramIdxOf(idxPrm), removeRet: removeRet, region: region}
}

func checkC12(w *World, r *Report) {
	ro, dec, decCall, info := retentionTable(w, r)
	// (7) "no longer defined" is judged against the definitions of the last reload: the reload installs exactly what it was
	// given (a definition carried over from the old set keeps a removed pipeline listed and its jobs and logs for ever)
	if ro != nil && ro.la != nil {
		ro.reloadModset(r, "reload-effects")
	}
	// (5) every stored job is registered at start-up: only a registered job can later be removed with its logs
	if lf, mc := loadAnchors(w); lf != nil {
		loadEveryJob(w, r, "load.every-stored-job", lf, mc)
	} else {
		r.Undecided("load.every-stored-job", "load loop", "-", "load function not found")
	}
	if dec == nil {
		return
	}
	// ---- rank: index and job of the call are the position/element of a sorted fresh copy
	// host: the function that holds the retention loop (the save function or a helper spliced into it)
	save := decCall.Parent()
	sname := FuncName(save)
	idxAP, jobAP := w.AP(decCall.Call.Args[info.idxArg]), w.AP(decCall.Call.Args[info.jobArg])
	var list ssa.Value
	if ld, ok := w.Resolve(decCall.Call.Args[info.jobArg]).(*ssa.UnOp); ok {
		if ia, ok := w.resolveAddr(ld.X).(*ssa.IndexAddr); ok && w.AP(ia.Index) == idxAP {
			list = w.Resolve(ia.X)
		}
	}
	// the sorted copy may be produced by a helper (a method of a named list type) that returns a fresh slice:
	// the copy and the sort are then looked for in that helper, with its parameters read as the call's arguments
	rankFn := save
	var rankEnd ssa.Instruction = decCall
	if hc, ok := list.(*ssa.Call); ok {
		if g := hc.Call.StaticCallee(); g != nil && g.Blocks != nil && w.InModule(g) {
			var ret *ssa.Return
			nret := 0
			allInstrs(g, func(in ssa.Instruction) {
				if rt, ok := in.(*ssa.Return); ok && len(rt.Results) == 1 && rt.Block() != g.Recover {
					nret++
					ret = rt
				}
			})
			if nret == 1 {
				if ms, ok := w.Resolve(ret.Results[0]).(*ssa.MakeSlice); ok {
					penv := map[*ssa.Parameter]ssa.Value{}
					for i, prm := range g.Params {
						if i < len(hc.Call.Args) {
							penv[prm] = w.Resolve(hc.Call.Args[i])
						}
					}
					saved := w.paramEnv
					w.paramEnv = penv
					defer func() { w.paramEnv = saved }()
					list, rankFn, rankEnd = ms, g, ret
				}
			}
		}
	}
	_, fresh := list.(*ssa.MakeSlice)
	r.Check(list != nil && fresh, "rank.position-in-copy", sname+": rank argument", w.InstrPos(decCall), "the decision receives (i, sorted[i]) for a freshly allocated slice", "the rank passed to the retention decision ("+idxAP+") is not the index of the job ("+jobAP+") in a fresh sorted copy of the pipeline's jobs")
	if list != nil && fresh {
		// copy from the pipeline's list, and a sort with a newest-first comparator dominating the loop
		copied, sorted := false, false
		var cmp *ssa.Function
		allInstrs(rankFn, func(in ssa.Instruction) {
			c, ok := in.(*ssa.Call)
			if !ok {
				return
			}
			if b, ok := c.Call.Value.(*ssa.Builtin); ok && b.Name() == "copy" && w.Resolve(c.Call.Args[0]) == list && strings.HasPrefix(w.AP(c.Call.Args[1]), "rangeval(recv.jobsByPipeline") {
				copied = true
			}
			if _, isB := c.Call.Value.(*ssa.Builtin); isB {
				return
			}
			hasList := false
			for _, a := range c.Call.Args {
				if w.Resolve(a) == list {
					hasList = true
				}
			}
			if !hasList || !instrDominates(c, rankEnd) {
				return
			}
			for _, a := range c.Call.Args {
				if f := funcValue(w.Resolve(a)); f != nil {
					cmp = f
				}
			}
			callee := c.Call.StaticCallee()
			if callee != nil && (strings.HasPrefix(calleeName(&c.Call), "sort.") || w.reachesSort(callee)) {
				sorted = true
			}
		})
		r.Check(copied, "rank.copy-of-pipeline-list", sname+": sorted list is a copy of the pipeline's jobs", w.Pos(save.Pos()), "copy(sorted, jobs of the pipeline)", "the ranked list is not a copy of the pipeline's job list")
		okCmp := false
		cmpDesc := "no comparator function passed to the sort"
		if cmp != nil {
			pr := w.EnumPaths(cmp, EnumOpts{})
			for _, p := range pr.Paths {
				if len(p.Ret) == 1 {
					cmpDesc = p.Ret[0]
					if strings.HasPrefix(p.Ret[0], "(time.Time).Before(") && argOrder(p.Ret[0], "arg1.Created", "arg0.Created") || strings.HasPrefix(p.Ret[0], "(time.Time).After(") && argOrder(p.Ret[0], "arg0.Created", "arg1.Created") {
						okCmp = true
					}
				}
			}
		}
		r.Check(sorted && okCmp, "rank.newest-first", sname+": ranking order", w.Pos(save.Pos()), "sorted before the loop with less(a,b) = "+cmpDesc+" (newest first)", fmt.Sprintf("the ranked list is not sorted newest-first before ranking (sorted=%v, comparator %s): retention_count keeps the oldest instead of the newest jobs", sorted, cmpDesc))
		// the sorter's Less applies the comparator to (i, j) in order
		for _, fn := range w.ModFuncs {
			if fn.Name() == "Less" && fn.Signature.Recv() != nil && fn.Package() == ro.Root && fn.Synthetic == "" {
				pr := w.EnumPaths(fn, EnumOpts{})
				okL := false
				for _, p := range pr.Paths {
					if len(p.Ret) == 1 && argOrder(p.Ret[0], "[arg0]", "[arg1]") && strings.Count(p.Ret[0], "[arg") == 2 {
						okL = true
					}
				}
				r.Check(okL, "rank.less-orientation", FuncName(fn)+": Less(i,j) = by(elem i, elem j)", w.Pos(fn.Pos()), "the comparator is applied to (i, j) in this order", "Less applies the comparator with swapped or wrong elements: the ranking is reversed")
			}
		}
	}

	// ---- every job of every pipeline with jobs is put to the decision: the per-pipeline
	// iteration cannot go on to the next pipeline without entering the ranking loop
	{
		var outerNext ssa.Instruction
		allInstrs(save, func(in ssa.Instruction) {
			if nx, ok := in.(*ssa.Next); ok {
				if rg, ok := nx.Iter.(*ssa.Range); ok && w.AP(rg.X) == "recv.jobsByPipeline" {
					outerNext = in
				}
			}
		})
		// inner loop header: the innermost block with a back edge that dominates the decision call
		var innerHdr *ssa.BasicBlock
		for b := decCall.Block(); b != nil; b = b.Idom() {
			back := false
			for _, p := range b.Preds {
				if b.Dominates(p) {
					back = true
				}
			}
			if back {
				innerHdr = b
				break
			}
		}
		if outerNext == nil || innerHdr == nil || innerHdr == outerNext.Block() {
			r.Viol("rank.every-job-decided", sname+": retention loop", w.Pos(save.Pos()), "the save function does not iterate the per-pipeline job lists with an inner ranking loop around the decision")
		} else {
			// (skipping a pipeline whose list is empty skips nothing: the edge of a `len(list) == 0` test is not a way around the loop)
			emptyEdge := map[*ssa.BasicBlock]int{}
			for _, f := range w.ifFacts(save) {
				if f.Atom.Op == "==" && f.Atom.R == "0" && strings.HasPrefix(f.Atom.L, "len(rangeval(recv.jobsByPipeline)") {
					emptyEdge[f.If.Block()] = f.SuccTrue
				}
			}
			res := PathQuery{Fn: save, Start: []ssa.Instruction{outerNext}, Target: func(x ssa.Instruction) bool { return x == outerNext },
				BlockInstr: func(x ssa.Instruction) bool { return x.Block() == innerHdr },
				BlockEdge:  func(b *ssa.BasicBlock, s int) bool { e, ok := emptyEdge[b]; return ok && e == s }}.Find()
			r.Check(!res.Found, "rank.every-job-decided", sname+": every pipeline's jobs reach the decision", w.InstrPos(outerNext), "from one pipeline to the next the ranking loop over its jobs is always entered", "the per-pipeline iteration can skip the ranking loop ("+res.String()+"): jobs of such pipelines (e.g. pipelines that are no longer defined, whose lookup yields the zero definition) are never put to the retention decision")
		}
	}

	// ---- removal effects on the remove edge
	var removeIf *ifFact
	facts := w.ifFacts(save)
	for i, f := range facts {
		if strings.HasPrefix(f.Atom.L, FuncName(dec)+"(") && strings.HasSuffix(f.Atom.L, "#0") &&
			(f.Atom.Op == "true" && info.removeRet == "true" || f.Atom.Op == "==" && f.Atom.R == info.removeRet) {
			removeIf = &facts[i]
		}
	}
	if removeIf == nil {
		r.Viol("removal.effects", sname+": remove edge", w.InstrPos(decCall), "the decision's result is not branched on")
	} else {
		rb := removeIf.If.Block().Succs[removeIf.SuccTrue]
		pr := w.EnumPaths(save, EnumOpts{Inline: true, Start: rb, StopBlock: func(b *ssa.BasicBlock) bool { return b == removeIf.If.Block() || b.Index < rb.Index && b.Dominates(rb) }})
		okDel, okLog := len(pr.Paths) > 0, len(pr.Paths) > 0
		// the job also leaves its pipeline's list: wherever that list is written back changed, the path has
		// found the element that IS the removed job (same id, or the same pointer)
		listAP := "recv.jobsByPipeline[" + jobAP + ".Pipeline]"
		nShrink, okList, badList := 0, true, ""
		for _, p := range pr.Paths {
			for _, e := range p.Effects {
				if e.Kind != "mapupdate" || e.Target != listAP || e.Val == listAP {
					continue
				}
				nShrink++
				found := false
				for _, l := range p.Lits {
					if l.Atom.Op != "==" || !l.Val {
						continue
					}
					a, b := l.Atom.L, l.Atom.R
					if strings.HasPrefix(a, listAP+"[") {
						a, b = b, a
					}
					if a == jobAP+".ID" && strings.HasPrefix(b, listAP+"[") && strings.HasSuffix(b, "].ID") || a == jobAP && strings.HasPrefix(b, listAP+"[") && strings.HasSuffix(b, "]") {
						found = true
					}
				}
				if !found {
					okList = false
					badList = p.LitString()
				}
			}
		}
		r.Check(okList && nShrink > 0, "removal.from-pipeline-list", sname+": removed job leaves its pipeline's list", w.InstrPos(removeIf.If), "the pipeline's list is written back changed only on a path that compared an element with the removed job and found it equal", "on the remove branch the pipeline's job list is changed without having found the removed job in it ("+badList+"): another job is dropped from the list the API and the admission count range over, and the removed one stays")
		for _, p := range pr.Paths {
			del, lg := false, false
			for _, e := range p.Effects {
				if e.Kind == "delete" && e.Val == "recv.jobsByID,"+jobAP+".ID" {
					del = true
				}
				if e.Kind == "call" && e.Target == "recv.outputStore.Remove" && e.Val == "(github.com/gofrs/uuid.UUID).String("+jobAP+".ID)" {
					lg = true
				}
			}
			okDel = okDel && del
			okLog = okLog && lg
		}
		r.Count("paths", len(pr.Paths))
		r.Check(okDel, "removal.delete-from-index", sname+": removed job leaves the id index", w.InstrPos(removeIf.If), "every path of the remove branch deletes jobsByID[job.ID]", "on the remove branch the job is not (always) deleted from the id index with its own id: the API keeps reporting a job whose logs are gone, or the store and the API disagree")
		r.Check(okLog, "removal.remove-logs", sname+": removed job's logs are removed", w.InstrPos(removeIf.If), "every path of the remove branch calls outputStore.Remove(job.ID.String())", "on the remove branch the logs of the job are not (always) removed with the job's own id: logs of removed jobs stay, or logs of a kept job are deleted")
	}
	// logs are removed nowhere else
	nRem := 0
	for _, fn := range w.ModFuncs {
		for _, ci := range findCalls(fn, func(n string, c *ssa.CallCommon) bool {
			return c.IsInvoke() && c.Method.Name() == "Remove" && strings.HasSuffix(c.Value.Type().String(), "taskctl.OutputStore")
		}) {
			nRem++
			inSave := fn == ro.Save
			for _, h := range ro.helpersOf(ro.Save) {
				inSave = inSave || fn == h
			}
			r.Check(inSave, "removal.who-removes-logs", FuncName(fn)+": outputStore.Remove", w.InstrPos(ci), "logs are removed only on the retention path", "logs are removed outside the retention path: the logs of a kept job can disappear")
		}
	}
	// the file store removes exactly <base>/<jobID>
	if fr := w.FuncByName("taskctl", "(*FileOutputStore).Remove"); fr != nil {
		pr := w.EnumPaths(fr, EnumOpts{})
		okF := false
		n := 0
		seenOS := map[ssa.Instruction]bool{}
		for _, p := range pr.Paths {
			for _, e := range p.Effects {
				if e.Kind == "call" && strings.HasPrefix(e.Target, "os.") {
					if !seenOS[e.In] { // (one call site, however many paths pass it)
						seenOS[e.In] = true
						n++
					}
					if e.Target == "os.RemoveAll" && (e.Val == "path.Join([recv.path,arg0])" || len(callCommonOf(e.In).Args) == 1 && w.APThrough(callCommonOf(e.In).Args[0]) == "path.Join([recv.path,arg0])") {
						okF = true
					}
				}
			}
		}
		r.Check(okF && n == 1, "removal.file-store", FuncName(fr)+": what is removed", w.Pos(fr.Pos()), "os.RemoveAll(path.Join(base, jobID)) and nothing else", "the file output store does not remove exactly <base>/<jobID>")
	}

	// ---- snapshot after removal, same region (either part may sit in a helper of the save
	// function: it is then represented by the helper's call, and helpers must not touch the lock)
	top := ro.Save
	tname := FuncName(top)
	var rangeID ssa.Instruction
	var snapFn *ssa.Function
	helperLocks := false
	inRegion := map[*ssa.Function]bool{}
	for _, f := range info.region {
		inRegion[f] = true
	}
	// liftTop: the instruction of the save function that stands for in — in itself, or the one call of the
	// save function through which in's function is reached inside the region
	var reachesFn func(f, target *ssa.Function, d int) bool
	reachesFn = func(f, target *ssa.Function, d int) bool {
		if f == target {
			return true
		}
		if d > 3 {
			return false
		}
		found := false
		allInstrs(f, func(x ssa.Instruction) {
			if c := callCommonOf(x); c != nil {
				if g := c.StaticCallee(); g != nil && inRegion[g] && g != f && reachesFn(g, target, d+1) {
					found = true
				}
			}
		})
		return found
	}
	liftTop := func(in ssa.Instruction) ssa.Instruction {
		if in == nil || in.Parent() == top {
			return in
		}
		var out ssa.Instruction
		n := 0
		allInstrs(top, func(x ssa.Instruction) {
			if c := callCommonOf(x); c != nil {
				if g := c.StaticCallee(); g != nil && inRegion[g] && reachesFn(g, in.Parent(), 1) {
					out = x
					n++
				}
			}
		})
		if n == 1 {
			return out
		}
		return nil
	}
	for _, f := range info.region {
		allInstrs(f, func(in ssa.Instruction) {
			if rg, ok := in.(*ssa.Range); ok && w.AP(rg.X) == "recv.jobsByID" {
				rangeID, snapFn = in, f
			}
			if c := callCommonOf(in); c != nil && f != top && strings.Contains(calleeName(c), "sync.RWMutex)") {
				helperLocks = true
			}
		})
	}
	if rangeID == nil || removeIf == nil {
		r.Viol("snapshot.after-removal", tname+": snapshot of the id index", w.Pos(top.Pos()), "the snapshot does not range over the id index")
	} else {
		isUnlock := func(x ssa.Instruction) bool {
			c := callCommonOf(x)
			return c != nil && (strings.HasSuffix(calleeName(c), "RWMutex).Unlock") || strings.HasSuffix(calleeName(c), "RWMutex).RUnlock"))
		}
		remAt, snapAt := liftTop(removeIf.If), liftTop(rangeID)
		okOrder := false
		detail := ""
		switch {
		case remAt == nil || snapAt == nil:
			detail = "the removal loop or the snapshot loop is not reachable from the save function through its helpers"
		case remAt == snapAt && remAt.Parent() != rangeID.Parent():
			// both in one helper: order inside the helper
			res1 := PathQuery{Fn: snapFn, Start: []ssa.Instruction{removeIf.If}, Target: isUnlock, BlockInstr: func(x ssa.Instruction) bool { return x == rangeID }}.Find()
			okOrder = !res1.Found && !rangeID.Block().Dominates(removeIf.If.Block())
		default:
			res1 := PathQuery{Fn: top, Start: []ssa.Instruction{remAt}, Target: isUnlock, BlockInstr: func(x ssa.Instruction) bool { return x == snapAt }}.Find()
			after := remAt.Block().Index != snapAt.Block().Index && !snapAt.Block().Dominates(remAt.Block())
			if remAt.Block() == snapAt.Block() {
				after = instrIndex(remAt) < instrIndex(snapAt)
			}
			okOrder = !res1.Found && after
		}
		r.Check(okOrder && !helperLocks, "snapshot.after-removal", tname+": snapshot built after the removal, in the same lock region", w.InstrPos(rangeID), "from the removal loop the lock is not released before the snapshot ranges over the id index", "the lock can be released between the removal and the snapshot (or the snapshot precedes the removal): the set of jobs in the store differs from the set the API reports"+detail)
		// what is saved is the snapshot
		okSave := false
		for _, ci := range findCalls(top, func(_ string, c *ssa.CallCommon) bool { return c.IsInvoke() && c.Method.Name() == "Save" }) {
			arg := w.Resolve(ci.Common().Args[0])
			_, isAlloc := arg.(*ssa.Alloc)
			if c, ok := arg.(*ssa.Call); ok && snapFn != top && c.Call.StaticCallee() == snapFn {
				// the helper returns the snapshot it filled
				isAlloc = true
				allInstrs(snapFn, func(in ssa.Instruction) {
					if rt, ok := in.(*ssa.Return); ok && len(rt.Results) == 1 {
						if _, ok := w.Resolve(rt.Results[0]).(*ssa.Alloc); !ok {
							isAlloc = false
						}
					}
				})
			}
			if isAlloc && snapAt != nil && instrDominates(snapAt, ci) {
				okSave = true
			}
		}
		r.Check(okSave, "snapshot.saved", tname+": the snapshot is what is saved", w.Pos(top.Pos()), "store.Save receives the snapshot built in this call, after it was filled", "store.Save does not receive the snapshot built from the id index")
	}
	r.Floor("table.", 1)
	r.Floor("rank.", 4)
	r.Floor("removal.", 5)
	r.Floor("snapshot.", 2)
	if nRem == 0 {
		r.Viol("floor", "outputStore.Remove call sites", "-", "no call of OutputStore.Remove found")
	}
}

func keepStr(remove bool) string {
	if remove {
		return "removes"
	}
	return "keeps"
}

// reachesSort: fn (or a module callee, depth ≤ 2) calls sort.Sort/Stable/Slice.
func (w *World) reachesSort(fn *ssa.Function) bool {
	found := false
	var visit func(f *ssa.Function, d int)
	visit = func(f *ssa.Function, d int) {
		if f == nil || f.Blocks == nil || d > 2 {
			return
		}
		allInstrs(f, func(in ssa.Instruction) {
			if c, ok := in.(*ssa.Call); ok {
				if strings.HasPrefix(calleeName(&c.Call), "sort.") || strings.HasPrefix(calleeName(&c.Call), "slices.Sort") {
					found = true
				} else if cf := c.Call.StaticCallee(); cf != nil && w.InModule(cf) {
					visit(cf, d+1)
				}
			}
		})
	}
	visit(fn, 0)
	return found
}

// saveRegion: the save function, the helpers spliced into it and the functions of the root package it
// calls statically (depth ≤ 3): where the retention loop, the removal and the snapshot may live.
func saveRegion(w *World, ro *Roles) []*ssa.Function {
	seen := map[*ssa.Function]bool{ro.Save: true}
	out := []*ssa.Function{ro.Save}
	for _, h := range ro.helpersOf(ro.Save) {
		if !seen[h] {
			seen[h] = true
			out = append(out, h)
		}
	}
	var rec func(f *ssa.Function, d int)
	rec = func(f *ssa.Function, d int) {
		if d >= 3 {
			return
		}
		allInstrs(f, func(in ssa.Instruction) {
			if c := callCommonOf(in); c != nil {
				if g := c.StaticCallee(); g != nil && g.Blocks != nil && g.Package() == ro.Root && !seen[g] && g.Synthetic == "" {
					seen[g] = true
					out = append(out, g)
					rec(g, d+1)
				}
			}
		})
	}
	rec(ro.Save, 0)
	return out
}

type retentionDecision struct {
	dec                   *ssa.Function
	call                  *ssa.Call
	job, idx, def, exists *ssa.Parameter
}

// findRetentionDecision: the function called on the save path whose first result is a bool or a small enum of
// the module and whose parameters (receiver included) are one job and one int (its rank).
func findRetentionDecision(w *World, ro *Roles, region []*ssa.Function) retentionDecision {
	var dec *ssa.Function
	var decCall *ssa.Call
	var jobPrm, idxPrm, defPrm, existsPrm *ssa.Parameter
	roleParams := func(f *ssa.Function) (job, idx, def, exists *ssa.Parameter, ok bool) {
		nJob, nIdx := 0, 0
		for _, prm := range f.Params {
			t := prm.Type()
			switch {
			case typeShort(t) == "PipelineJob":
				job = prm
				nJob++
			case strings.HasSuffix(t.String(), "definition.PipelineDef"):
				def = prm
			default:
				if b, isB := t.Underlying().(*types.Basic); isB {
					if b.Kind() == types.Bool {
						exists = prm
					} else if b.Info()&types.IsInteger != 0 && t == types.Typ[types.Int] {
						idx = prm
						nIdx++
					}
				}
			}
		}
		return job, idx, def, exists, nJob == 1 && nIdx == 1
	}
	for _, host := range region {
		allInstrs(host, func(in ssa.Instruction) {
			c, ok := in.(*ssa.Call)
			if !ok {
				return
			}
			f := c.Call.StaticCallee()
			if f == nil || f.Blocks == nil || !w.InModule(f) || f.Signature.Results().Len() < 1 {
				return
			}
			rt := f.Signature.Results().At(0).Type()
			isBool := rt.String() == "bool"
			isEnum := false
			if n, isN := rt.(*types.Named); isN && n.Obj().Pkg() == ro.Root.Pkg {
				if b, isB := n.Underlying().(*types.Basic); isB && b.Info()&types.IsInteger != 0 {
					isEnum = true
				}
			}
			if !isBool && !isEnum {
				return
			}
			if j, i, d, e, okR := roleParams(f); okR {
				dec, decCall = f, c
				jobPrm, idxPrm, defPrm, existsPrm = j, i, d, e
			}
		})
	}
	return retentionDecision{dec, decCall, jobPrm, idxPrm, defPrm, existsPrm}
}
