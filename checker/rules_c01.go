package main

func init() {
	register(&PropDef{
		ID:          "C01",
		Level:       "other",
		Explanation: "The concurrency bound is decided as a set of inductive lemmas over single operations, each a shape of the code (their conjunction over histories is argued in DESIGN.md, not mechanised): ADMIT-GUARD — the start function is called only where the admission decision's value set is {Start}, and in the dequeue loop only over a decision taken in the same iteration; START-ONLY-IF-FREE — on every order type of its inputs the admission table yields Start only if running < concurrency; NO UNDERCOUNT — the counting function ranges over the pipeline's whole list and increments whenever started ∧ ¬completed ∧ ¬canceled (8-row table, implication); SLOT-END — only the completion handler marks a job completed, it is called only by the job's scheduling goroutine after Scheduler.Schedule returned, whose stage goroutines are WaitGroup-paired and waited for before every return; the cancel request marks only unstarted jobs canceled directly; REGISTERED-BEFORE-STARTED; decision and start lie in one lock region; NO LOST UPDATE on the wait list (a popped job cannot reappear and be started twice); NEVER UNLISTED — the retention decision table never removes a waiting or unfinished job from the list the count ranges over; RELOAD APPLIES — in package app every path of the reload function that finds the freshly loaded definitions unequal passes them to ReplaceDefinitions, and the baseline of that comparison is a variable that outlives the invocation and is set to the applied definitions (a changed limit is not silently ignored). RELOAD INSTALLS WHAT IT WAS GIVEN — the runner's reload has no effect but `defs = the argument` (nothing of the old definitions is carried over). UNDEFINED BUT RUNNING — the retention table keeps a job that is still running also when its pipeline is no longer defined (the pipeline can be defined again while it runs: finding D10, fixed).",
		Trusted:     []string{"C13 (operations are atomic under the runner mutex)", "upstream taskctl runner executes a stage only inside Runner.Run"},
		NotDecided:  []string{"joint sufficiency of the lemmas over arbitrary histories (paper argument)", "effects of lowering the limit on already running jobs (allowed by the statement)"},
		Check: func(w *World, r *Report) {
			ro := resolveRoles(w)
			ro.record(r)
			if ro.la == nil {
				r.Undecided("anchors", "roles", "-", "roles unresolved")
				return
			}
			ro.admissionTable(r, "table.start-only-if-free", "start-implies-free")
			ro.runPredTable(r, "table.no-undercount", false)
			ro.countShape(r, "table.count-shape")
			ro.acceptEffects(r, map[string]bool{"admit-guard": true, "ignore-false": true, "start-arg": true})
			ro.dequeueLoop(r, map[string]bool{"admit-guard": true, "pop-on-start": true})
			ro.dequeueIndependent(r, "dequeue.decision-is-current-admission")
			ro.slotEnd(r, "slot-end")
			ro.canceledSites(r, "canceled-site")
			ro.noLostUpdate(r, "no-lost-update")
			// a changed limit governs the jobs started after the change: the reload path applies every detected edit
			checkReloadUsesEquals(w, r)
			// … and the runner's reload installs exactly the definitions it was given (nothing of the old ones is carried over)
			ro.reloadModset(r, "reload-effects")
			// the count ranges over the pipeline's job list: a job that still counts as executing is never taken off it
			retentionTable(w, r)
			r.Floor("table.", 4)
			r.Floor("accept.", 4)
			r.Floor("dequeue.", 3)
			r.Floor("slot-end", 6)
			r.Floor("no-lost-update", 2)
		},
	})
	register(&PropDef{
		ID:          "C07",
		Level:       "other",
		Explanation: "The numeric lower bound trusts time.AfterFunc; decided is what is armed and what is gated on it: a delayed job is never started by the request itself (admission table: delay>0 ∧ ¬ignore ⇒ ≠ Start on all order types; the accept function passes ignore=false); the timer is armed iff the job's own delay > 0, with the job's own StartDelay (taken from the definition at accept time) and a callback that addresses the job's own id; in the dequeue function every path to the start call takes the `head.startTimer == nil` edge; the timer is cleared only by the expiry handler or where the job leaves the list for good; the expiry handler clears and re-runs the dequeue (no second delay); under replace the previous job is marked canceled (hence refused by the start function), its slot is overwritten by the newest job at the last index; the retention decision keeps every waiting job on all order types of its inputs (the expiry handler finds the job by id, so a delayed job removed from the index would never start). SLOT ACCOUNTING — the running predicate is exactly started ∧ ¬completed ∧ ¬canceled (8-row table): a slot is taken neither longer nor shorter than the job runs, so an expired delay is honoured as soon as a slot is really free. TIMER USE — every Stop/Reset on a job's start timer read from the field lies behind the `startTimer != nil` edge of a test of the same job (the field is nil for jobs without delay: an inverted guard panics under the lock when such a job is replaced). DEQUEUE IGNORES THE CURRENT DELAY — for a queued job whose timer is not pending the dequeue asks the admission question with the delay ignored, whatever delay the job or the current definition states.",
		Trusted:     []string{"time.AfterFunc does not fire early", "C13"},
		NotDecided:  []string{"the numeric bound ≥ d", "that the newest job eventually runs (liveness)"},
		Check: func(w *World, r *Report) {
			ro := resolveRoles(w)
			ro.record(r)
			if ro.la == nil {
				r.Undecided("anchors", "roles", "-", "roles unresolved")
				return
			}
			ro.admissionTable(r, "table.delayed-jobs-are-queued", "delay-queues")
			ro.acceptEffects(r, map[string]bool{"ignore-false": true, "timer": true, "per-action": true, "snapshot": true})
			ro.dequeueLoop(r, map[string]bool{"timer-gate": true})
			ro.expiryHandler(r, "expiry")
			ro.timerUseGuarded(r, "timer-use")
			// a queued job whose timer is not pending (expired, or never armed) starts as soon as a slot is free — whatever delay the
			// current definition states: the dequeue asks the admission question with the delay ignored for exactly those jobs
			ro.dequeueIndependent(r, "dequeue-independent-of-new-definition")
			ro.canceledSites(r, "canceled-site")
			ro.slotEnd(r, "slot-end")
			// a waiting (delayed) job is never removed by retention: the expiry handler looks the job up by id
			retentionTable(w, r)
			// "starts as soon as a slot is free": a slot counts as taken exactly while a job is started ∧ ¬completed ∧ ¬canceled
			ro.runPredTable(r, "running.predicate-table", true)
			r.Floor("running.predicate-table", 1)
			r.Floor("table.", 1)
			r.Floor("accept.", 6)
			r.Floor("dequeue.timer-gate", 1)
			r.Floor("expiry", 4)
		},
	})
	register(&PropDef{
		ID:          "C15",
		Level:       "other",
		Explanation: "Agreement of sibling code paths, decided from the source: SCHEDULABLE — for every action constant the admission function can return, the schedulable predicate answers true exactly when the accept function does not reject that action, and both ask the same admission question (pipeline, ignore=false); RUNNING — the reported flag is ∃ job in the pipeline's list with the running predicate, whose 8-row table equals started ∧ ¬completed ∧ ¬canceled, and the admission count uses the same predicate; REGISTERED — every success return of the accept function passes the stores into both indexes, and jobs are deleted from the id index only on the retention path; ORDER — the job list comparator is newest-first, and every slice filled while ranging over a map in an API-reported order is sorted before its first use (no map-order leak); the job's task list is built by a plain function of the definition's tasks looked up in the accept function (not a method of the runner: the order cannot depend on the runner's history). NEVER UNLISTED — the retention decision table (the only path that deletes from the indexes) never removes a waiting or running job: what is reported running stays reported. TIMES — every store to Created/Start/End of a job is the clock read at that transition (time.Now(), possibly rounded) or the same field of the stored job: nothing else is ordered with the other two.",
		Trusted:     []string{"C13", "sort.* sorts"},
		NotDecided:  []string{"numeric order of timestamps (created ≤ start ≤ end)", "that the dependency sort is topological"},
		Check: func(w *World, r *Report) {
			ro := resolveRoles(w)
			ro.record(r)
			if ro.la == nil {
				r.Undecided("anchors", "roles", "-", "roles unresolved")
				return
			}
			ro.schedulableAgreement(r, "schedulable")
			ro.runningAgreement(r, "running")
			ro.runPredTable(r, "running.predicate-table", true)
			// "snapshot": the task list of a job is a function of the definition looked up at accept time only (no runner state, no cache)
			ro.acceptEffects(r, map[string]bool{"registered": true, "snapshot": true})
			ro.whoDeletesJobs(r, "registered.who-deletes")
			// … and that path never takes a job that is waiting or still running out of the indexes
			retentionTable(w, r)
			r.Floor("table.retention", 1)
			ro.orderRules(r, "order")
			checkJobTimesFromClock(w, r)
			r.Floor("schedulable", 5)
			r.Floor("running", 4)
			r.Floor("accept.registered", 1)
			r.Floor("order", 4)
		},
	})
	register(&PropDef{
		ID:          "C16",
		Level:       "other",
		Explanation: "Reload isolation as who-reads/who-writes facts: the job literal takes Tasks (through the snapshot constructor), Env, StartDelay and Pipeline from the definition looked up in the accept function's lock region; the live definitions (r.defs) are read only by the functions listed with a reason (admission, accept-time lookup, fail-fast at failure time, retention at save time, pipeline listing) — in particular not by the start function, the graph builder or the scheduler callbacks; the graph is built from fields of the job itself; the task-runner factory reads the job's Env and captures no definitions; the reload's only effect is `defs = new`; no definition struct or map is mutated in place outside the loader (jobs share them by reference); the dequeue decision for a head whose timer is not pending ignores the current definition's delay (a reload cannot strand queued jobs); slices held in definition structs (script, depends_on) are never written through — element store, in-place filter append, sort, copy, directly or in a module callee; the reload function of package app replaces on every unequal comparison and keeps its comparison baseline up to date (reload.baseline).",
		Trusted:     []string{"C13", "definitions handed to ReplaceDefinitions are not mutated by the embedder afterwards"},
		NotDecided:  []string{"what an embedder does with definition values it still holds"},
		Check: func(w *World, r *Report) {
			ro := resolveRoles(w)
			ro.record(r)
			if ro.la == nil {
				r.Undecided("anchors", "roles", "-", "roles unresolved")
				return
			}
			ro.acceptEffects(r, map[string]bool{"snapshot": true, "timer": true})
			ro.defsReads(r, "live-definition-reads")
			ro.reloadModset(r, "reload-effects")
			ro.defsImmutable(r, "definitions-immutable")
			ro.dequeueIndependent(r, "dequeue-independent-of-new-definition")
			checkEqualsCoverage(w, r)
			checkReloadUsesEquals(w, r)
			r.Floor("accept.snapshot", 4)
			r.Floor("live-definition-reads", 6)
			r.Floor("reload-effects", 1)
		},
	})
}
