package main

import (
	"fmt"
	"go/types"
	"strings"

	"golang.org/x/tools/go/ssa"
)

func init() {
	register(&PropDef{
		ID:          "C18",
		Level:       "other",
		Explanation: "Byte fidelity and shell semantics are trusted; decided are merge order, wiring, isolation and the reserved name: ORDER — the environment handed to CompileTask is runnerEnv.Merge(contextEnv).With(\"TASK_NAME\", task name).Merge(taskEnv) and the variables are runnerVars.Merge(taskVars); in the loaded upstream source Merge applies the argument after the receiver (argument wins) and With merges then sets; in the executor the process environment (os.Environ at construction) precedes the job environment in the list given to expand.ListEnviron (later entries win) and the script is rendered with the job's own variables; WIRING — runner env ← the job's Env (task-runner factory), task env ← the task definition's Env, executor base ← os.Environ(); PER JOB — initScheduler creates one task runner and one scheduler per call, the per-stage variable container is created inside the stage loop, and the module has no package-level variable holding a container, runner or scheduler; RESERVED NAME — every Set of a job-supplied variable name is reachable only over the `name != reserved` edge whose other edge returns an error, and the reserved variable is set from the job's own id. EXEC ENV — the environment list handed to started processes appends name=value exactly for exported string variables and always continues the iteration. STAGE VARIABLES WIN — where the scheduler merges a stage's variables (which hold the job-identity variable) into Task.Variables they are the argument of Merge (the argument wins): an env entry of the task definition cannot replace the job id.",
		Trusted:     []string{"mvdan/sh expand.ListEnviron: later entries override earlier ones", "upstream utils.ConvertEnv / RenderString", "exec passes the environment byte-for-byte"},
		NotDecided:  []string{"byte fidelity of values", "shell quoting semantics"},
		Check:       checkC18,
	})
}

func checkC18(w *World, r *Report) {
	ro := resolveRoles(w)
	ro.record(r)
	run := w.FuncByName("taskctl", "(*TaskRunner).Run")
	if run == nil || ro.la == nil {
		r.Undecided("anchors", "taskctl.TaskRunner.Run", "-", "not found")
		return
	}
	// ---- ORDER in Run
	for _, ci := range findCalls(run, func(n string, _ *ssa.CallCommon) bool { return strings.HasSuffix(n, "TaskCompiler).CompileTask") }) {
		cf := ci.Common().StaticCallee()
		a := ci.Common().Args
		// (a helper with one return statement that merges the layers is seen through)
		env := w.APThrough(a[paramIndex(cf, "env")])
		vars := w.APThrough(a[paramIndex(cf, "vars")])
		okEnv := strings.HasPrefix(env, "recv.env.Merge(") && strings.HasSuffix(env, ".Env).With(\"TASK_NAME\",arg0.Name).Merge(arg0.Env)") && strings.Contains(env, "contextForTask(recv,arg0)#0.Env")
		r.Check(okEnv, "order.task-env", FuncName(run)+": environment of the compiled task", w.InstrPos(ci), "runner env ← context env ← TASK_NAME ← task env (each later layer wins)", "the task environment is "+env+": expected runnerEnv.Merge(contextEnv).With(\"TASK_NAME\", name).Merge(taskEnv) — the precedence task > pipeline is broken or TASK_NAME can be overridden the wrong way")
		r.Check(vars == "recv.variables.Merge(arg0.Variables)", "order.task-vars", FuncName(run)+": variables of the compiled task", w.InstrPos(ci), "runner variables merged with the task's (the job's) variables", "the task variables are "+vars+", expected recv.variables.Merge(arg0.Variables): a script is not rendered with exactly the variables of its own job")
	}
	// before/after commands get the same env/vars
	for _, name := range []string{"before", "after"} {
		for _, ci := range findCalls(run, func(n string, _ *ssa.CallCommon) bool { return strings.HasSuffix(n, "TaskRunner)."+name) }) {
			a := ci.Common().Args
			env := w.APThrough(a[len(a)-2])
			r.Check(strings.HasSuffix(env, ".Merge(arg0.Env)") && strings.Contains(env, "TASK_NAME"), "order.before-after-env", FuncName(run)+": environment of "+name+" commands", w.InstrPos(ci), "the same merged environment", "the "+name+" commands get "+env)
		}
	}
	// upstream Merge / With
	checkUpstreamMerge(w, r)
	// ---- executor: process env first, job env later; script rendered with job vars
	if ex := w.FuncByName("taskctl", "(*PgidExecutor).Execute"); ex != nil {
		okList, okRender := false, false
		desc := ""
		// (the calls of Execute and of the module helpers it delegates to, rendered in Execute's terms)
		w.deepCalls(ex, 2, func(c *ssa.Call) {
			switch {
			case strings.HasSuffix(calleeName(&c.Call), "expand.ListEnviron"):
				desc = w.APThrough(c.Call.Args[0])
				// (the base may first be copied into a fresh slice: append(make(…), base...) stands for the base)
				flat := desc
				if strings.HasPrefix(flat, "append(append(make@") {
					if i := strings.Index(flat, ",recv.env),"); i > 0 && !strings.Contains(flat[len("append(append("):i], ",") {
						flat = "append(recv.env," + flat[i+len(",recv.env),"):]
					}
				}
				okList = strings.HasPrefix(flat, "append(recv.env,") && strings.Contains(flat, "arg1.Env.Map()") && !strings.Contains(flat[len("append(recv.env,"):], "recv.env")
			case strings.HasSuffix(calleeName(&c.Call), "utils.RenderString"):
				okRender = w.AP(c.Call.Args[0]) == "arg1.Command" && w.AP(c.Call.Args[1]) == "arg1.Vars.Map()"
			}
		})
		r.Check(okList, "order.executor-env", FuncName(ex)+": process env then job env", w.Pos(ex.Pos()), "ListEnviron(append(process env, job env...)): the job's values override the process's", "the interpreter environment is "+desc+": expected the executor's base (process) environment first and the job's environment appended after it")
		r.Check(okRender, "order.script-render", FuncName(ex)+": script rendered with the job's own variables", w.Pos(ex.Pos()), "RenderString(job.Command, job.Vars.Map())", "the command is not rendered with its own job's variables")
		// the interpreter env is assigned from that list on the executor's interpreter
	}
	// ---- the environment handed to the started process: every exported string variable of the
	// interpreter's environment, as name=value (and nothing is filtered out on another condition)
	// (the builder is whatever function of package taskctl hands a func(name, expand.Variable) bool closure to Environ.Each)
	var eachClosures []*ssa.Function
	for _, fn := range w.ModFuncs {
		if fn.Package() != w.Pkg("taskctl") && (fn.Parent() == nil || fn.Parent().Package() != w.Pkg("taskctl")) {
			continue
		}
		if fn.Parent() == nil || fn.Signature.Params().Len() != 2 || fn.Signature.Results().Len() != 1 {
			continue
		}
		if fn.Signature.Params().At(0).Type().String() == "string" && strings.HasSuffix(fn.Signature.Params().At(1).Type().String(), "expand.Variable") && fn.Signature.Results().At(0).Type().String() == "bool" {
			eachClosures = append(eachClosures, fn)
		}
	}
	if len(eachClosures) > 0 {
		fe := eachClosures[0].Parent()
		strKind := "1"
		for _, p := range w.Prog.AllPackages() {
			if p.Pkg.Path() == "mvdan.cc/sh/v3/expand" {
				if c, ok := p.Pkg.Scope().Lookup("String").(*types.Const); ok {
					strKind = c.Val().ExactString()
				}
			}
		}
		okF, nApp, nPaths := len(eachClosures) == 1, 0, 0
		detail := ""
		for _, cl := range eachClosures {
			nameAP, varAP := w.AP(cl.Params[0]), w.AP(cl.Params[1])
			for _, p := range w.EnumPaths(cl, EnumOpts{MaxPaths: 200}).Paths {
				if p.End != "return" {
					continue
				}
				nPaths++
				exported, isString := false, false
				for _, l := range p.Lits {
					if l.Atom.Op == "true" && strings.HasSuffix(l.Atom.L, ".Exported") {
						exported = l.Val
					}
					if l.Atom.Op == "==" && strings.HasSuffix(l.Atom.L, ".Kind") && l.Atom.R == strKind {
						isString = l.Val
					}
				}
				appended := false
				for _, e := range p.Effects {
					if e.Kind == "call" && e.Target == "append" && strings.Contains(e.Val, "[(("+nameAP+" + \"=\") + (mvdan.cc/sh/v3/expand.Variable).String("+varAP+"))]") {
						appended = true
					}
				}
				if appended {
					nApp++
				}
				if appended != (exported && isString) || len(p.Ret) != 1 || p.Ret[0] != "true" {
					okF = false
					detail = fmt.Sprintf("exported=%v string=%v → appended=%v, continues=%v", exported, isString, appended, len(p.Ret) == 1 && p.Ret[0] == "true")
				}
			}
		}
		r.Check(okF && nApp > 0 && nPaths > 1, "order.exec-env-filter", FuncName(fe)+": environment of the started process", w.Pos(fe.Pos()), "name=value is appended exactly for the exported string variables, and the iteration always continues", "the environment handed to started processes is not 'every exported string variable as name=value' ("+detail+"): commands started by a task do not see the job's variables (the shell still expands them, so scripts that only echo them look fine)")
	} else {
		r.Undecided("order.exec-env-filter", "taskctl: process environment builder", "-", "no closure of package taskctl iterates the interpreter's environment")
	}
	// the executor constructor: the function of package taskctl that builds the interpreter
	if np := w.FuncByRole("taskctl", "NewPgidExecutor", func(f *ssa.Function) bool { return f.Parent() == nil && callsNamed(f, "interp.New") }); np != nil {
		okBase := false
		allInstrs(np, func(in ssa.Instruction) {
			st, ok := in.(*ssa.Store)
			if !ok || !strings.HasSuffix(w.apAddr(st.Addr), ".env") {
				return
			}
			if w.AP(st.Val) == "os.Environ()" {
				okBase = true
			}
			// a base environment parameter: every construction passes os.Environ()
			if p, ok := w.Resolve(st.Val).(*ssa.Parameter); ok && p.Parent() == np {
				leaves := w.argOrigins(np, paramIdxOf(p), 0)
				okBase = len(leaves) > 0
				for _, l := range leaves {
					if w.AP(l.v) != "os.Environ()" {
						okBase = false
					}
				}
			}
		})
		r.Check(okBase, "wiring.executor-base", FuncName(np)+": base environment", w.Pos(np.Pos()), "executor base ← os.Environ()", "the executor's base environment is not the process environment")
	}
	// who may write the runner's env: only its initialisation and the WithEnv option
	for _, fn := range w.ModFuncs {
		allInstrs(fn, func(in ssa.Instruction) {
			st, ok := in.(*ssa.Store)
			if !ok {
				return
			}
			fa, ok := w.resolveAddr(st.Addr).(*ssa.FieldAddr)
			if !ok || fieldOfAddr(fa).String() != "TaskRunner.env" {
				return
			}
			val := w.AP(st.Val)
			okV := strings.HasSuffix(val, "variables.NewVariables()") || (fn.Parent() != nil && strings.HasPrefix(fn.Parent().Name(), "With") && val == "arg0")
			r.Check(okV, "wiring.runner-env-writers", FuncName(fn)+": TaskRunner.env := "+val, w.InstrPos(in), "initialised empty or set from the WithEnv option (the job's Env)", "the runner's environment is overwritten with "+val+": values of the job's pipeline-level env (or of the process) are masked for every task of the job")
		})
	}
	// ---- WIRING: runner env ← job.Env (factory), task env ← taskDef.Env (graph builder)
	ro.defsReads(r, "wiring")
	stageWiring(w, r, ro, "wiring.stage")

	// ---- PER JOB
	if is := w.FuncByRole("", "(*PipelineRunner).initScheduler", func(f *ssa.Function) bool { return callsNamed(f, "taskctl.NewScheduler") }); is != nil {
		// on every path that creates a scheduler: one task runner made by the factory for the job,
		// the scheduler built on that runner, both stored on that job (the function may be the
		// start function itself when the initialiser was inlined)
		pr := w.EnumPaths(is, EnumOpts{})
		n := 0
		ok := !pr.Truncated
		for _, p := range pr.Paths {
			newRunner, newSched, stored := 0, 0, 0
			jobAP := ""
			schedOK := true
			for _, e := range p.Effects {
				if e.Kind == "call" && e.Target == "dyn:recv.createTaskRunner" {
					newRunner++
					jobAP = e.Val
				}
				if e.Kind == "call" && strings.HasSuffix(e.Target, "taskctl.NewScheduler") {
					newSched++
					if !strings.Contains(e.Val, "createTaskRunner("+jobAP+")") {
						schedOK = false
					}
				}
				if e.Kind == "store" && jobAP != "" && (e.Target == jobAP+".taskRunner" || e.Target == jobAP+".sched") {
					stored++
				}
			}
			if newSched == 0 {
				continue
			}
			n++
			if !(schedOK && newRunner == 1 && newSched == 1 && stored == 2 && strings.HasPrefix(jobAP, "arg")) {
				ok = false
			}
		}
		r.Check(ok && n > 0, "per-job.runner-and-scheduler", FuncName(is)+": one runner and scheduler per job", w.Pos(is.Pos()), "creates a task runner for this job, a scheduler on that runner, and stores both on the job", "initScheduler does not create exactly one task runner and one scheduler per job: jobs would share environment, variables or cancellation")
	}
	// no package-level mutable containers / runners
	for _, p := range w.Prog.AllPackages() {
		if !strings.HasPrefix(p.Pkg.Path(), modPath) {
			continue
		}
		for _, mem := range p.Members {
			g, ok := mem.(*ssa.Global)
			if !ok {
				continue
			}
			ts := g.Type().String()
			if strings.Contains(ts, "variables.") || strings.Contains(ts, "TaskRunner") || strings.HasSuffix(ts, "taskctl.Runner") || strings.HasSuffix(ts, "runner.Runner") || strings.Contains(ts, "Scheduler") || strings.Contains(ts, "PgidExecutor") {
				r.Viol("per-job.no-globals", "package-level variable "+globalName(g), w.Pos(g.Pos()), "a package-level "+ts+" is shared by all jobs: what one job sets is visible to another")
			}
		}
	}
	r.OK("per-job.no-globals", "module: package-level state", "-", "no package-level variable holds a variable container, task runner, scheduler or executor")
	// ---- RESERVED NAME
	checkReservedVariable(w, r, ro)
	// ---- STAGE VARIABLES WIN: the variables a task runs with (script rendering, job identity)
	// are the stage's, i.e. the job's: wherever the stage runner composes Task.Variables, the
	// stage's container is the argument of the merge (the argument wins, order.upstream-merge) —
	// unless nothing in the module ever gives a task variables of its own.
	if rs := runStageFn(w); rs == nil {
		r.Undecided("order.stage-variables", "taskctl: stage runner", "-", "the function that runs one stage is not found")
	} else {
		isTaskVars := func(addr ssa.Value) bool {
			fa, ok := w.resolveAddr(addr).(*ssa.FieldAddr)
			return ok && fieldOfAddr(fa).String() == "Task.Variables"
		}
		var otherWriters []string
		for _, fn := range w.ModFuncs {
			if fn == rs {
				continue
			}
			allInstrs(fn, func(in ssa.Instruction) {
				if st, ok := in.(*ssa.Store); ok && isTaskVars(st.Addr) {
					otherWriters = append(otherWriters, FuncName(fn)+" ("+w.InstrPos(in)+": "+w.AP(st.Val)+")")
				}
			})
		}
		n := 0
		allInstrs(rs, func(in ssa.Instruction) {
			st, ok := in.(*ssa.Store)
			if !ok || !isTaskVars(st.Addr) {
				return
			}
			n++
			val := w.AP(st.Val)
			stageWins := val == "arg0.Variables"
			if c, ok := w.Resolve(st.Val).(*ssa.Call); ok && strings.HasSuffix(calleeName(&c.Call), "variables.Merge") && len(c.Call.Args) == 2 {
				stageWins = w.AP(c.Call.Args[1]) == "arg0.Variables"
			}
			r.Check(stageWins || len(otherWriters) == 0, "order.stage-variables", FuncName(rs)+": Task.Variables := "+strings.TrimPrefix(val, "github.com/taskctl/taskctl/pkg/"), w.InstrPos(in),
				"the stage's variables (the job's variables and its identity) are what the task runs with", "the task's variables are composed as "+val+" — the stage's container is not the winning argument — while "+strings.Join(otherWriters, ", ")+" gives tasks variables of their own: a task-level name replaces the job's variable of the same name in the rendered script, and a task-level __jobID attributes the task's logs and state to another job")
		})
		if n == 0 {
			r.Viol("order.stage-variables", FuncName(rs)+": Task.Variables", w.Pos(rs.Pos()), "the stage runner never hands the stage's variables to the task: scripts are rendered without the job's variables")
		}
	}
	// TaskRunner reads the job id from the task's own variables
	r.Floor("order.", 6)
	r.Floor("wiring", 8)
	r.Floor("per-job.", 3)
	r.Floor("reserved.", 2)
}

func checkUpstreamMerge(w *World, r *Report) {
	var vp *ssa.Package
	for _, p := range w.Prog.AllPackages() {
		if strings.HasSuffix(p.Pkg.Path(), "taskctl/pkg/variables") {
			vp = p
		}
	}
	if vp == nil {
		r.Undecided("order.upstream-merge", "upstream variables package", "-", "not loaded")
		return
	}
	m := w.FuncByNameIn(vp, "Variables).Merge")
	if m == nil {
		r.Undecided("order.upstream-merge", "upstream Variables.Merge", "-", "not found")
		return
	}
	var rRecv, rArg ssa.Instruction
	allInstrs(m, func(in ssa.Instruction) {
		if rg, ok := in.(*ssa.Range); ok {
			ap := w.AP(rg.X)
			if strings.HasSuffix(ap, "Variables).Map(recv)") {
				rRecv = in
			}
			if ap == "arg0.Map()" {
				rArg = in
			}
		}
	})
	// the argument's range is after the receiver's: not reachable back from the argument loop
	ok := rRecv != nil && rArg != nil && !(PathQuery{Fn: m, Start: []ssa.Instruction{rArg}, Target: func(x ssa.Instruction) bool { return x == rRecv }}).Find().Found &&
		(PathQuery{Fn: m, Start: []ssa.Instruction{rRecv}, Target: func(x ssa.Instruction) bool { return x == rArg }}).Find().Found
	// every return passes the argument loop
	esc := PathQuery{Fn: m, Target: isReturn, BlockInstr: func(x ssa.Instruction) bool { return x == rArg }}.Find()
	r.Check(ok && !esc.Found, "order.upstream-merge", "upstream variables.Merge: argument applied after the receiver", w.Pos(m.Pos()), "entries of the receiver are set first, then the argument's (the argument wins)", "upstream Merge no longer applies the argument after the receiver: the modelled precedence is wrong")
	wi := w.FuncByNameIn(vp, "Variables).With")
	if wi != nil {
		pr := w.EnumPaths(wi, EnumOpts{})
		okW := false
		for _, p := range pr.Paths {
			mi, si := -1, -1
			for i, e := range p.Effects {
				if e.Kind == "call" && strings.HasSuffix(e.Target, "Variables).Merge") {
					mi = i
				}
				if e.Kind == "call" && strings.HasSuffix(e.Target, "Variables).Set") && strings.HasSuffix(e.Val, ",arg0,arg1") {
					si = i
				}
			}
			okW = mi >= 0 && si > mi
		}
		r.Check(okW, "order.upstream-with", "upstream variables.With: copy then set", w.Pos(wi.Pos()), "With copies the receiver and then sets the key (the new value wins)", "upstream With no longer sets the key after copying")
	}
}

// FuncByNameIn finds a function or method by name in an arbitrary SSA package.
func (w *World) FuncByNameIn(p *ssa.Package, name string) *ssa.Function {
	for fn := range w.allFuncs() {
		if fn.Package() == p && strings.HasSuffix(FuncName(fn), name) && fn.Synthetic == "" {
			return fn
		}
	}
	return nil
}

var _ = fmt.Sprint

// deepCalls visits the calls of fn and of the module functions fn calls statically (depth ≤ max);
// during a visit inside a helper its parameters are bound to what the call site passes, so access
// paths are rendered in fn's terms.
func (w *World) deepCalls(fn *ssa.Function, max int, visit func(c *ssa.Call)) {
	saved := w.paramEnv
	defer func() { w.paramEnv = saved }()
	var rec func(f *ssa.Function, env map[*ssa.Parameter]ssa.Value, d int)
	rec = func(f *ssa.Function, env map[*ssa.Parameter]ssa.Value, d int) {
		allInstrs(f, func(in ssa.Instruction) {
			c, ok := in.(*ssa.Call)
			if !ok {
				return
			}
			w.paramEnv = env
			visit(c)
			g := c.Call.StaticCallee()
			if g == nil || g.Blocks == nil || !w.InModule(g) || g == f || d >= max {
				return
			}
			sub := map[*ssa.Parameter]ssa.Value{}
			for k, v := range env {
				sub[k] = v
			}
			for i, p := range g.Params {
				if i < len(c.Call.Args) {
					sub[p] = w.Resolve(c.Call.Args[i])
				}
			}
			rec(g, sub, d+1)
			w.paramEnv = env
		})
	}
	rec(fn, saved, 0)
}

// checkReservedVariable: the job-identity variable of a stage is the job's own id and cannot be
// overwritten by a job-supplied variable (shared by C18 and C19: output is attributed through it).
func checkReservedVariable(w *World, r *Report, ro *Roles) {
	checkStageVariablesWin(w, r)
	gb := ro.GraphBuild
	if gb == nil {
		r.Undecided("reserved", "graph builder", "-", "not resolved")
	} else {
		// the variables of a stage are built in the graph builder itself, or in a helper it calls
		// once per stage: vfn is that function, hc its call in the graph builder (nil if vfn == gb)
		isSet := func(n string, c *ssa.CallCommon) bool { return c.IsInvoke() && c.Method.Name() == "Set" }
		vfn := gb
		var hc *ssa.Call
		// chain: the calls that lead from the graph builder to vfn (chain[i] lies in chainFn[i]; chainFn[0] = gb)
		var chain []*ssa.Call
		chainFn := []*ssa.Function{gb}
		if len(findCalls(gb, isSet)) == 0 {
			var search func(f *ssa.Function, d int) bool
			search = func(f *ssa.Function, d int) bool {
				found := false
				allInstrs(f, func(in ssa.Instruction) {
					if found {
						return
					}
					c, ok := in.(*ssa.Call)
					if !ok {
						return
					}
					g := c.Call.StaticCallee()
					if g == nil || g.Blocks == nil || !w.InModule(g) || g == f {
						return
					}
					if len(findCalls(g, isSet)) > 0 {
						chain = append(chain, c)
						chainFn = append(chainFn, g)
						vfn = g
						found = true
						return
					}
					if d < 2 {
						chain = append(chain, c)
						chainFn = append(chainFn, g)
						if search(g, d+1) {
							found = true
							return
						}
						chain = chain[:len(chain)-1]
						chainFn = chainFn[:len(chainFn)-1]
					}
				})
				return found
			}
			search(gb, 0)
			if len(chain) > 0 {
				hc = chain[0]
			}
		}
		vname := FuncName(vfn)
		sets := findCalls(vfn, isSet)
		facts := w.ifFacts(vfn)
		var guard *ifFact
		for i, f := range facts {
			if f.Atom.Op == "==" && f.Atom.R == "\"__jobID\"" && strings.HasPrefix(f.Atom.L, "rangekey(") {
				guard = &facts[i]
			}
		}
		for _, sc := range sets {
			call := sc.(*ssa.Call)
			name := w.AP(call.Call.Args[0])
			okG := false
			// the guard may also be one presence test of the reserved name in the ranged map, before the loop
			if strings.HasPrefix(name, "rangekey(") && (guard == nil || guard.Atom.L != name) {
				m := strings.TrimSuffix(strings.TrimPrefix(name, "rangekey("), ")")
				for i, f := range facts {
					if f.Atom.Op == "true" && f.Atom.L == "has("+m+"[\"__jobID\"])" {
						g := facts[i]
						res := PathQuery{Fn: vfn, Target: func(x ssa.Instruction) bool { return x == ssa.Instruction(call) }, BlockEdge: func(b *ssa.BasicBlock, s int) bool { return b == g.If.Block() && s == g.SuccFalse }}.Find()
						errRet := blockReturns(g.If.Block().Succs[g.SuccTrue], func(rt *ssa.Return) bool { return len(rt.Results) == 2 && !isNilConst(rt.Results[1]) })
						okG = !res.Found && errRet
					}
				}
			}
			if guard != nil && guard.Atom.L == name {
				res := PathQuery{Fn: vfn, Target: func(x ssa.Instruction) bool { return x == ssa.Instruction(call) }, BlockEdge: func(b *ssa.BasicBlock, s int) bool { return b == guard.If.Block() && s == guard.SuccFalse }}.Find()
				errRet := blockReturns(guard.If.Block().Succs[guard.SuccTrue], func(rt *ssa.Return) bool { return len(rt.Results) == 2 && !isNilConst(rt.Results[1]) })
				okG = !res.Found && errRet
				// the helper's error makes the graph builder fail
				// (at every level of the call chain)
				for i, c := range chain {
					if !okG {
						break
					}
					tests := w.nilTests(chainFn[i], c)
					okG = len(tests) > 0
					for _, t := range tests {
						if !blockReturns(t.If.Block().Succs[1-t.OkSucc], func(rt *ssa.Return) bool { return len(rt.Results) == 2 && !isNilConst(rt.Results[1]) }) {
							okG = false
						}
					}
				}
			}
			r.Check(okG, "reserved.guard", vname+": Set("+name+", …) of a job-supplied variable", w.InstrPos(call), "reachable only over the `name != reserved` edge; the reserved name returns an error", "a job-supplied variable name reaches Set without the reserved-name test: a job can overwrite the job-identity variable and attribute its state and logs to another job")
		}
		if len(sets) == 0 {
			r.Viol("reserved.guard", FuncName(gb)+": job variables", w.Pos(gb.Pos()), "job variables are never set on the stage")
		}
		// the reserved variable is the job's own id
		okID, idFromJob := false, false
		allInstrs(vfn, func(in ssa.Instruction) {
			mu, ok := in.(*ssa.MapUpdate)
			if !ok || w.AP(mu.Key) != "\"__jobID\"" {
				return
			}
			sc, ok := w.Resolve(mu.Value).(*ssa.Call)
			if !ok || !strings.HasSuffix(calleeName(&sc.Call), "uuid.(UUID).String") || len(sc.Call.Args) != 1 {
				return
			}
			idv := w.Resolve(sc.Call.Args[0])
			// the helper's id parameter is what the level above passes, up to the graph builder
			for k := len(chain) - 1; k >= 0; k-- {
				if p, ok := idv.(*ssa.Parameter); ok && p.Parent() == chainFn[k+1] && paramIdxOf(p) < len(chain[k].Call.Args) {
					idv = w.Resolve(chain[k].Call.Args[paramIdxOf(p)])
				}
			}
			if p, ok := idv.(*ssa.Parameter); ok && p.Parent() == gb && paramIdxOf(p) == 0 && !strings.HasSuffix(shapeString(p.Type()), "PipelineJob") {
				okID = true
			}
			// … or the ID field of the builder's job parameter (or receiver)
			if ap := w.AP(idv); strings.HasSuffix(ap, ".ID") {
				for _, prm := range gb.Params {
					if ap == w.AP(prm)+".ID" && strings.HasSuffix(shapeString(prm.Type()), "PipelineJob") {
						okID, idFromJob = true, true
					}
				}
			}
		})
		var call *ssa.Call
		if ro.Start != nil {
			allInstrs(ro.Start, func(in ssa.Instruction) {
				if c, ok := in.(*ssa.Call); ok && c.Call.StaticCallee() == gb {
					call = c
				}
			})
		}
		okArg := call != nil && (w.AP(call.Call.Args[0]) == "arg0.ID" || idFromJob && w.AP(call.Call.Args[0]) == "arg0")
		r.Check(okID && okArg, "reserved.own-id", vname+": reserved variable = the job's own id", w.Pos(vfn.Pos()), "__jobID ← id.String() with id = job.ID at the call", "the job-identity variable is not set from the job's own id")
		// a fresh container per stage: the FromMap call (or the call of the helper that makes it) lies in the stage loop
		inLoop := false
		allInstrs(vfn, func(in ssa.Instruction) {
			if c, ok := in.(*ssa.Call); ok && strings.HasSuffix(calleeName(&c.Call), "variables.FromMap") && strings.HasPrefix(w.AP(c.Call.Args[0]), "makemap") {
				var at ssa.Instruction = c
				if hc != nil {
					at = hc
				}
				if (PathQuery{Fn: gb, Start: []ssa.Instruction{at}, Target: func(x ssa.Instruction) bool { return x == at }}).Find().Found {
					inLoop = true
				}
			}
		})
		r.Check(inLoop, "per-job.stage-variables", vname+": one variable container per stage", w.Pos(vfn.Pos()), "the container is created inside the stage loop", "stages share one variable container")
	}
}

// checkStageVariablesWin: the task runner keys the log writers by the job-identity variable of the *task's* variables, which the
// scheduler builds from the stage's variables (where the runner package put the job's own id, behind the reserved-name test)
// and the task's env (taken from the pipeline definition, not tested for the reserved name). In upstream Container.Merge the
// argument wins; so wherever a stage's variables are merged into what becomes Task.Variables they must be the argument.
func checkStageVariablesWin(w *World, r *Report) {
	n := 0
	for _, fn := range w.ModFuncs {
		if fn.Pkg == nil || fn.Pkg != w.Pkg("taskctl") {
			continue
		}
		allInstrs(fn, func(in ssa.Instruction) {
			st, ok := in.(*ssa.Store)
			if !ok {
				return
			}
			fa, ok := st.Addr.(*ssa.FieldAddr)
			if !ok || fieldNameOf(fa) != "Variables" || !strings.HasSuffix(shapeString(fa.X.Type()), "task.Task") {
				return
			}
			c, ok := w.Resolve(st.Val).(*ssa.Call)
			if !ok || !c.Call.IsInvoke() || c.Call.Method.Name() != "Merge" || len(c.Call.Args) != 1 {
				return
			}
			isStageVars := func(v ssa.Value) bool {
				u, ok := w.Resolve(v).(*ssa.UnOp)
				if !ok {
					return false
				}
				fa, ok := u.X.(*ssa.FieldAddr)
				return ok && fieldNameOf(fa) == "Variables" && strings.HasSuffix(shapeString(fa.X.Type()), "Stage")
			}
			recvStage, argStage := isStageVars(c.Call.Value), isStageVars(c.Call.Args[0])
			if !recvStage && !argStage {
				return
			}
			n++
			r.Check(argStage && !recvStage, "reserved.stage-variables-win", FuncName(fn)+": stage variables merged into the task's variables", w.InstrPos(in),
				"the stage's variables are the argument of Merge (the argument wins): a task env entry cannot replace the job-identity variable",
				"the stage's variables are the receiver of Merge, the other container wins: an env entry of the task definition named like the job-identity variable replaces it, the task's log files are opened under another job's id")
		})
	}
	if n == 0 {
		r.Undecided("reserved.stage-variables-win", "taskctl: stage variables → task variables", "-", "no Merge of a stage's variables into Task.Variables found")
	}
}
