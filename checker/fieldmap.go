package main

import (
	"go/ast"
	"go/token"
	"go/types"
	"reflect"
	"sort"
	"strings"

	"golang.org/x/tools/go/packages"
)

// K5 FIELDMAP — record correspondence extracted from composite literals (AST + types).

type FMEntry struct {
	Field    string // target field
	SrcType  string // named type of the value the source field is selected from ("" if not a field selection)
	SrcField string
	Conv     string // converter function applied ("" if none)
	Expr     string
	Pos      token.Pos
}

type FieldMap struct {
	Target  string // named type of the literal
	Func    string // enclosing function
	Pkg     *packages.Package
	Pos     token.Pos
	Entries []FMEntry
}

func (m *FieldMap) Get(field string) *FMEntry {
	for i := range m.Entries {
		if m.Entries[i].Field == field {
			return &m.Entries[i]
		}
	}
	return nil
}

func typeShort(t types.Type) string {
	if p, ok := t.(*types.Pointer); ok {
		t = p.Elem()
	}
	if n, ok := t.(*types.Named); ok {
		return n.Obj().Name()
	}
	return t.String()
}

// modulePackages returns the loaded module packages in a stable order.
func (w *World) modulePackages() []*packages.Package {
	var out []*packages.Package
	for path, p := range w.All {
		if strings.HasPrefix(path, modPath) {
			out = append(out, p)
		}
	}
	sort.Slice(out, func(i, j int) bool { return out[i].PkgPath < out[j].PkgPath })
	return out
}

// FieldMaps collects every composite literal of the named type (pkgRel.typeName) in the module.
func (w *World) FieldMaps(pkgRel, typeName string) []*FieldMap {
	T := w.NamedType(pkgRel, typeName)
	if T == nil {
		return nil
	}
	var out []*FieldMap
	for _, p := range w.modulePackages() {
		for _, f := range p.Syntax {
			var stack []ast.Node
			ast.Inspect(f, func(n ast.Node) bool {
				if n == nil {
					stack = stack[:len(stack)-1]
					return true
				}
				stack = append(stack, n)
				cl, ok := n.(*ast.CompositeLit)
				if !ok {
					return true
				}
				tv, ok := p.TypesInfo.Types[cl]
				if !ok {
					return true
				}
				t := tv.Type
				if pt, ok := t.(*types.Pointer); ok {
					t = pt.Elem()
				}
				if nt, ok := t.(*types.Named); !ok || nt.Obj() != T.Obj() {
					return true
				}
				fm := &FieldMap{Target: typeName, Pkg: p, Pos: cl.Pos(), Func: enclosingFunc(stack)}
				for _, el := range cl.Elts {
					kv, ok := el.(*ast.KeyValueExpr)
					if !ok {
						continue
					}
					k, ok := kv.Key.(*ast.Ident)
					if !ok {
						continue
					}
					e := w.classifyExpr(p, kv.Value)
					e.Field = k.Name
					e.Pos = kv.Pos()
					fm.Entries = append(fm.Entries, e)
				}
				out = append(out, fm)
				return true
			})
		}
	}
	return out
}

func enclosingFunc(stack []ast.Node) string {
	for i := len(stack) - 1; i >= 0; i-- {
		if fd, ok := stack[i].(*ast.FuncDecl); ok {
			return fd.Name.Name
		}
	}
	return ""
}

func (w *World) classifyExpr(p *packages.Package, e ast.Expr) FMEntry {
	var out FMEntry
	out.Expr = types.ExprString(e)
	for {
		if pe, ok := e.(*ast.ParenExpr); ok {
			e = pe.X
			continue
		}
		break
	}
	if ce, ok := e.(*ast.CallExpr); ok && len(ce.Args) == 1 {
		var id *ast.Ident
		switch f := ce.Fun.(type) {
		case *ast.SelectorExpr:
			id = f.Sel
		case *ast.Ident:
			id = f
		}
		if id != nil {
			if fn, ok := p.TypesInfo.Uses[id].(*types.Func); ok && fn.Pkg() != nil {
				out.Conv = strings.TrimPrefix(strings.TrimPrefix(fn.Pkg().Path(), modPath), "/") + "." + fn.Name()
				e = ce.Args[0]
			}
		}
	}
	if se, ok := e.(*ast.SelectorExpr); ok {
		if sel, ok := p.TypesInfo.Selections[se]; ok && sel.Kind() == types.FieldVal {
			out.SrcField = sel.Obj().Name()
			out.SrcType = typeShort(sel.Recv())
		}
	}
	return out
}

// FieldReads lists the fields of the named types (by short name) that are selected anywhere
// in the given module package, with one position each.
func (w *World) FieldReads(pkgRel string, typeNames ...string) map[string]token.Pos {
	out := map[string]token.Pos{}
	want := map[string]bool{}
	for _, t := range typeNames {
		want[t] = true
	}
	path := modPath
	if pkgRel != "" {
		path += "/" + pkgRel
	}
	p := w.All[path]
	if p == nil {
		return out
	}
	for _, f := range p.Syntax {
		ast.Inspect(f, func(n ast.Node) bool {
			se, ok := n.(*ast.SelectorExpr)
			if !ok {
				return true
			}
			sel, ok := p.TypesInfo.Selections[se]
			if !ok || sel.Kind() != types.FieldVal {
				return true
			}
			// the struct that declares the field (promoted fields are attributed to the outer type too)
			recv := typeShort(sel.Recv())
			if want[recv] {
				k := recv + "." + sel.Obj().Name()
				if _, seen := out[k]; !seen {
					out[k] = se.Pos()
				}
			}
			return true
		})
	}
	return out
}

// jsonTag returns the JSON name and options of a struct field.
func jsonTag(f *types.Var, tag string) (name string, opts string) {
	v := reflect.StructTag(tag).Get("json")
	name = f.Name()
	if v == "" {
		return name, ""
	}
	parts := strings.SplitN(v, ",", 2)
	if parts[0] != "" {
		name = parts[0]
	}
	if len(parts) > 1 {
		opts = parts[1]
	}
	return name, opts
}
