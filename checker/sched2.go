package main

import (
	"fmt"
	"go/token"
	"strings"

	"golang.org/x/tools/go/callgraph"
	"golang.org/x/tools/go/ssa"
)

// ---------------------------------------------------------------------------------
// K11 SLICEFORM: classification of wait-list mutations; K9 MODSTALE: lost updates.

const waitListField = "waitListByPipeline"

func (ro *Roles) isWaitListMap(v ssa.Value) bool {
	return strings.HasSuffix(ro.w.AP(v), "."+waitListField)
}

// wlLookup: v is (a load of) the wait list of some pipeline; returns the Lookup.
func (ro *Roles) wlLookup(v ssa.Value) *ssa.Lookup {
	v = ro.w.Resolve(v)
	if ex, ok := v.(*ssa.Extract); ok {
		v = ro.w.Resolve(ex.Tuple)
	}
	if lk, ok := v.(*ssa.Lookup); ok && ro.isWaitListMap(lk.X) {
		return lk
	}
	return nil
}

// derivesFromWL reports whether v is computed from a wait-list lookup (through slicing, phi, append).
func (ro *Roles) derivedLookups(v ssa.Value, seen map[ssa.Value]bool, out *[]*ssa.Lookup) {
	v = ro.w.Resolve(v)
	if seen[v] {
		return
	}
	seen[v] = true
	if lk := ro.wlLookup(v); lk != nil {
		*out = append(*out, lk)
		return
	}
	switch x := v.(type) {
	case *ssa.Slice:
		ro.derivedLookups(x.X, seen, out)
	case *ssa.Phi:
		for _, e := range x.Edges {
			ro.derivedLookups(e, seen, out)
		}
	case *ssa.Call:
		if b, ok := x.Call.Value.(*ssa.Builtin); ok && b.Name() == "append" {
			for _, a := range x.Call.Args {
				ro.derivedLookups(a, seen, out)
			}
		}
	}
}

// formOf classifies the new value of the wait list of key relative to the old one.
func (ro *Roles) formOf(v ssa.Value, keyAP string, depth int) string {
	w := ro.w
	v = w.Resolve(v)
	if depth > 6 {
		return "unknown(deep)"
	}
	sameKey := func(x ssa.Value) bool {
		lk := ro.wlLookup(x)
		return lk != nil && w.AP(lk.Index) == keyAP
	}
	switch x := v.(type) {
	case *ssa.Lookup, *ssa.Extract:
		if sameKey(v) {
			return "identity"
		}
	case *ssa.Slice:
		if sameKey(x.X) && x.Low != nil && isConstInt(x.Low, 1) && x.High == nil {
			return "pop-front"
		}
		if sameKey(x.X) && x.Low == nil && x.High != nil {
			return "truncate(pop-back)"
		}
		if ph, ok := w.Resolve(x.X).(*ssa.Phi); ok && x.Low != nil && isConstInt(x.Low, 1) && x.High == nil {
			return "pop-front(of " + ro.formOf(ph, keyAP, depth+1) + ")"
		}
	case *ssa.Phi:
		forms := map[string]bool{}
		for _, e := range x.Edges {
			if e == ssa.Value(x) {
				continue
			}
			if sl, ok := w.Resolve(e).(*ssa.Slice); ok && w.Resolve(sl.X) == ssa.Value(x) && sl.Low != nil && isConstInt(sl.Low, 1) && sl.High == nil {
				forms["pop-front"] = true
				continue
			}
			forms[ro.formOf(e, keyAP, depth+1)] = true
		}
		var fs []string
		for f := range forms {
			fs = append(fs, f)
		}
		if len(fs) == 1 {
			return fs[0]
		}
		delete(forms, "identity")
		if len(forms) == 1 {
			for f := range forms {
				return f + "*"
			}
		}
		return "unknown(phi " + strings.Join(fs, "|") + ")"
	case *ssa.Call:
		b, ok := x.Call.Value.(*ssa.Builtin)
		if !ok || b.Name() != "append" {
			return "unknown(call " + calleeName(&x.Call) + ")"
		}
		first, rest := w.Resolve(x.Call.Args[0]), x.Call.Args[1]
		if sameKey(first) {
			if els := w.variadicElems(rest); len(els) == 1 {
				return "push-back"
			}
			return "unknown(append of several)"
		}
		// append(old[:i(:i)], old[i+1:]...)
		if s1, ok := first.(*ssa.Slice); ok && sameKey(s1.X) && s1.Low == nil && s1.High != nil {
			if s2, ok := w.Resolve(rest).(*ssa.Slice); ok && sameKey(s2.X) && s2.High == nil && s2.Low != nil {
				if w.AP(s2.Low) == "("+w.AP(s1.High)+" + 1)" {
					return "delete-at-i"
				}
			}
		}
		// append([]T{j}, old...) = push-front
		if els := w.variadicElems(first); els != nil {
			return "push-front"
		}
		return "unknown(append)"
	case *ssa.Const:
		if x.Value == nil {
			return "clear"
		}
	case *ssa.MakeSlice:
		return "clear"
	}
	return "unknown(" + w.AP(v) + ")"
}

var allowedForms = map[string]string{
	"push-back": "enqueue at the back", "pop-front": "dequeue from the front", "pop-front*": "dequeue from the front (loop-carried)",
	"delete-at-i": "order-preserving removal", "clear": "wait list dropped", "identity": "written back unchanged",
}

// waitListForms classifies every mutation of the wait list in the module (K11).
func (ro *Roles) waitListForms(r *Report, rule string) {
	w := ro.w
	n := 0
	for _, fn := range w.ModFuncs {
		fname := FuncName(fn)
		allInstrs(fn, func(in ssa.Instruction) {
			switch x := in.(type) {
			case *ssa.MapUpdate:
				if !ro.isWaitListMap(x.Map) {
					return
				}
				n++
				form := ro.formOf(x.Value, w.AP(x.Key), 0)
				desc, ok := allowedForms[form]
				key := fname + ": wait-list update"
				if ok {
					r.OK(rule, key+" ("+form+")", w.InstrPos(in), "form "+form+": "+desc)
				} else if strings.HasPrefix(form, "unknown") {
					r.Undecided(rule, key, w.InstrPos(in), "wait-list mutation of unrecognised form "+form+": FIFO order cannot be decided for it")
				} else {
					r.Viol(rule, key+" ("+form+")", w.InstrPos(in), "wait-list mutation of form "+form+" reorders the queue or drops the wrong end: queued jobs no longer start in acceptance order")
				}
			case *ssa.Store:
				ia, ok := w.resolveAddr(x.Addr).(*ssa.IndexAddr)
				if !ok {
					return
				}
				var lks []*ssa.Lookup
				ro.derivedLookups(ia.X, map[ssa.Value]bool{}, &lks)
				if len(lks) == 0 {
					return
				}
				n++
				idx := w.AP(ia.Index)
				base := w.AP(ia.X)
				key := fname + ": wait-list element store"
				if idx == "(len("+base+") - 1)" {
					r.OK(rule, key+" (replace-last)", w.InstrPos(in), "overwrites the last entry (replace strategy)")
				} else {
					r.Viol(rule, key+" (index "+idx+")", w.InstrPos(in), "stores into the wait list at index "+idx+": only the last entry may be overwritten (replace); anything else reorders or clobbers queued jobs")
				}
			case *ssa.Call:
				c := &x.Call
				if b, ok := c.Value.(*ssa.Builtin); ok {
					if b.Name() == "delete" && ro.isWaitListMap(c.Args[0]) {
						n++
						r.OK(rule, fname+": wait-list delete (clear)", w.InstrPos(in), "the pipeline's whole wait list is dropped")
					}
					return
				}
				// a wait-list slice handed to another function
				for _, a := range c.Args {
					var lks []*ssa.Lookup
					a = w.Resolve(a)
					ro.derivedLookups(a, map[ssa.Value]bool{}, &lks)
					if len(lks) > 0 && ro.la.isGuardedSlice(a.Type()) {
						n++
						// a module helper that only reads the slice it gets (a search, a count) cannot reorder the queue
						if callee := c.StaticCallee(); callee != nil && callee.Blocks != nil && w.InModule(callee) {
							idx := -1
							for i, a2 := range c.Args {
								if w.Resolve(a2) == a {
									idx = i
								}
							}
							if idx >= 0 && idx < len(callee.Params) {
								sf := &sliceFlow{w: w, memo: map[[2]interface{}][]sliceWrite{}, returnCounts: true}
								if ws := sf.summary(callee, idx, 1); len(ws) == 0 {
									r.OK(rule, fname+": wait list passed to "+calleeName(c)+" (read-only)", w.InstrPos(in), "the callee neither writes through the slice nor returns it")
									continue
								}
							}
						}
						r.Undecided(rule, fname+": wait list passed to "+nameOr(calleeName(c), "a dynamic call"), w.InstrPos(in), "a wait-list slice is handed to another function (e.g. a swap-remove or a sort): its effect on the queue order is not classified")
					}
				}
			}
		})
	}
	r.Count("waitlist_mutations", n)
}

// modifiesWaitList: functions that (transitively, synchronously) may write the wait-list map.
func (ro *Roles) waitListWriters() map[*ssa.Function]bool {
	w := ro.w
	direct := map[*ssa.Function]bool{}
	for _, fn := range w.ModFuncs {
		allInstrs(fn, func(in ssa.Instruction) {
			switch x := in.(type) {
			case *ssa.MapUpdate:
				if ro.isWaitListMap(x.Map) {
					direct[fn] = true
				}
			case *ssa.Call:
				if b, ok := x.Call.Value.(*ssa.Builtin); ok && b.Name() == "delete" && ro.isWaitListMap(x.Call.Args[0]) {
					direct[fn] = true
				}
			}
		})
	}
	// transitive callers through synchronous calls
	writers := map[*ssa.Function]bool{}
	for f := range direct {
		writers[f] = true
	}
	cg := w.CallGraph()
	changed := true
	for changed {
		changed = false
		for f := range writers {
			node := cg.Nodes[f]
			if node == nil {
				continue
			}
			for _, e := range node.In {
				if !isSyncEdge(e) {
					continue
				}
				c := e.Caller.Func
				if w.InModule(c) && !writers[c] {
					writers[c] = true
					changed = true
				}
			}
		}
	}
	return writers
}

func isSyncEdge(e *callgraph.Edge) bool {
	if e.Site == nil {
		return false
	}
	_, isGo := e.Site.(*ssa.Go)
	return !isGo
}

// noLostUpdate (K9): a wait list loaded into a local and written back later must not have
// been modified in between by a callee.
func (ro *Roles) noLostUpdate(r *Report, rule string) {
	w := ro.w
	writers := ro.waitListWriters()
	n := 0
	for _, fn := range w.ModFuncs {
		fname := FuncName(fn)
		allInstrs(fn, func(in ssa.Instruction) {
			mu, ok := in.(*ssa.MapUpdate)
			if !ok || !ro.isWaitListMap(mu.Map) {
				return
			}
			var lks []*ssa.Lookup
			ro.derivedLookups(mu.Value, map[ssa.Value]bool{}, &lks)
			for _, lk := range lks {
				n++
				key := fname + ": write-back of the wait list loaded at " + w.AP(lk)
				if lk.Parent() != fn {
					r.Viol(rule, key, w.InstrPos(mu), fmt.Sprintf("a wait list loaded in %s (%s) is captured by a closure and written back here when the closure runs: whatever changed the wait list in between is lost", FuncName(lk.Parent()), w.InstrPos(lk)))
					continue
				}
				// a call between the load and the write-back whose callee may write the wait list
				res := PathQuery{Fn: fn, Start: []ssa.Instruction{lk},
					Target: func(x ssa.Instruction) bool {
						c, ok := x.(*ssa.Call)
						if !ok {
							return false
						}
						for _, callee := range w.Callees(c) {
							if writers[callee] {
								// only relevant if the write-back is reachable afterwards
								// ... without the list being loaded afresh in between
								back := PathQuery{Fn: fn, Start: []ssa.Instruction{c}, Target: func(y ssa.Instruction) bool { return y == ssa.Instruction(mu) },
									BlockInstr: func(y ssa.Instruction) bool { return y == ssa.Instruction(lk) }}.Find()
								if back.Found {
									return true
								}
							}
						}
						return false
					}}.Find()
				if res.Found {
					c := res.Target.(*ssa.Call)
					r.Viol(rule, key, w.InstrPos(mu), fmt.Sprintf("the wait list is loaded at %s, then %s is called (it can modify the wait list: %s), and the stale copy is written back here: entries popped or removed in between reappear — a job is started twice or a removed job returns", w.InstrPos(lk), nameOr(calleeName(&c.Call), "a callback"), w.InstrPos(c)))
				} else {
					r.OK(rule, key, w.InstrPos(mu), "no call that can modify the wait list lies between the load and the write-back")
				}
			}
		})
	}
	r.Count("writebacks", n)
}

// ---------------------------------------------------------------------------------
// dequeue loop rules

func (ro *Roles) dequeueLoopOld(r *Report, which map[string]bool) {
	w := ro.w
	if !ro.need(r, "dequeue", map[string]*ssa.Function{"start function": ro.Start, "dequeue decision": ro.DequeueDecision}) {
		return
	}
	startAct := fmt.Sprint(ro.Actions["Start"])
	for _, fn := range ro.Dequeue {
		if fn == ro.Start {
			continue
		}
		fname := FuncName(fn)
		for _, ci := range findCalls(fn, func(_ string, c *ssa.CallCommon) bool { return c.StaticCallee() == ro.Start }) {
			call, ok := ci.(*ssa.Call)
			if !ok {
				continue
			}
			pos := w.InstrPos(call)
			job := call.Call.Args[len(call.Call.Args)-1]
			// head only: the job is element 0 of a wait-list value
			if which["head-only"] {
				okHead := false
				var headList ssa.Value
				if ld, ok := w.Resolve(job).(*ssa.UnOp); ok && ld.Op == token.MUL {
					if ia, ok := w.resolveAddr(ld.X).(*ssa.IndexAddr); ok && isConstInt(ia.Index, 0) {
						var lks []*ssa.Lookup
						ro.derivedLookups(ia.X, map[ssa.Value]bool{}, &lks)
						okHead = len(lks) > 0
						headList = ia.X
					}
				}
				r.Check(okHead, "dequeue.head-only", fname+": job started from the wait list", pos, "the started job is element 0 of the pipeline's wait list", "the started job is "+w.AP(job)+", not the head (element 0) of the wait list: a job overtakes jobs accepted before it")
				// the list is popped at the front on every path from the head load to the start (or right after it)
				_ = headList
			}
			// admission guard, timer gate: on every path from the loop header to the call
			facts := w.ifFacts(fn)
			var admitIf, timerIf *ifFact
			for i, f := range facts {
				if f.Atom.Op == "==" && strings.HasPrefix(f.Atom.L, FuncName(ro.DequeueDecision)+"(") && f.Atom.R == startAct {
					admitIf = &facts[i]
				}
				if f.Atom.Op == "==" && strings.HasSuffix(f.Atom.L, ".startTimer") && f.Atom.R == "nil" {
					timerIf = &facts[i]
				}
			}
			mustPassEdge := func(f *ifFact, wantTrue bool) PathResult {
				// every cycle/path reaching the call must take the wanted edge of f: block the wanted
				// edge and ask whether the call is still reachable from the function entry.
				return PathQuery{Fn: fn, Target: func(x ssa.Instruction) bool { return x == ssa.Instruction(call) },
					BlockEdge: func(b *ssa.BasicBlock, s int) bool {
						if b != f.If.Block() {
							return false
						}
						if wantTrue {
							return s == f.SuccTrue
						}
						return s == f.SuccFalse
					}}.Find()
			}
			if which["admit-guard"] {
				if admitIf == nil {
					r.Viol("dequeue.admit-guard", fname+": start only on Start", pos, "the dequeue function starts a job without testing the dequeue decision against Start")
				} else {
					res := mustPassEdge(admitIf, true)
					// fresh: the decision is re-taken before every start — the test lies on the cycle
					fresh := !(PathQuery{Fn: fn, Start: []ssa.Instruction{call}, Target: func(x ssa.Instruction) bool { return x == ssa.Instruction(call) },
						BlockEdge: func(b *ssa.BasicBlock, s int) bool { return b == admitIf.If.Block() && s == admitIf.SuccTrue }}.Find().Found)
					r.Check(!res.Found && fresh, "dequeue.admit-guard", fname+": start only on a fresh Start decision", pos,
						"every path to the start call (and around the loop to the next one) takes the `decision == Start` edge of a decision taken in that iteration",
						"the start call is reachable without a fresh `decision == Start` edge ("+res.String()+"): a queued job is started although no slot is free")
					// the decision is asked for the same job that is started
					okSame := strings.Contains(admitIf.Atom.L, ","+w.AP(job)+")")
					r.Check(okSame, "dequeue.decision-for-head", fname+": decision is about the started job", pos, "the decision is computed for the job that is started", "the decision is computed for "+admitIf.Atom.L+" but "+w.AP(job)+" is started")
				}
			}
			if which["timer-gate"] {
				if timerIf == nil {
					r.Viol("dequeue.timer-gate", fname+": no start while the delay timer is pending", pos, "the dequeue function never tests the head's start timer: a delayed job can start before its delay expired")
				} else {
					res := mustPassEdge(timerIf, true)
					okJob := strings.HasPrefix(timerIf.Atom.L, w.AP(job)+".")
					r.Check(!res.Found && okJob, "dequeue.timer-gate", fname+": no start while the delay timer is pending", pos,
						"every path to the start call takes the `head.startTimer == nil` edge", "the start call is reachable without the `startTimer == nil` edge of the started job ("+res.String()+"): a delayed job starts before its delay has passed")
				}
			}
			// the popped job leaves the list before/when it is started: a pop-front of the same list on every path from call to loop back edge or before the call
			if which["pop-on-start"] {
				popped := false
				allInstrs(fn, func(in ssa.Instruction) {
					if sl, ok := in.(*ssa.Slice); ok && sl.Low != nil && isConstInt(sl.Low, 1) && sl.High == nil {
						var lks []*ssa.Lookup
						ro.derivedLookups(sl.X, map[ssa.Value]bool{}, &lks)
						if len(lks) > 0 && (instrDominates(sl, call) || instrDominates(call, sl)) {
							popped = true
						}
					}
				})
				r.Check(popped, "dequeue.pop-on-start", fname+": started job leaves the wait list", pos, "the list is popped at the front in the same iteration as the start", "the started job is not popped from the front of the wait list: it stays queued and is started again")
			}
		}
		// stop reasons: the loop exits only on an empty list, decision ≠ Start, or head timer pending
		if which["stop-reasons"] {
			okStop := true
			why := ""
			for _, f := range w.ifFacts(fn) {
				a := f.Atom
				switch {
				case a.Op == "<=" && strings.HasPrefix(a.L, "len(") && a.R == "0", a.Op == "<" && a.L == "0" && strings.HasPrefix(a.R, "len("):
				case a.Op == "==" && strings.HasPrefix(a.L, "len(") && a.R == "0":
				case a.Op == "==" && strings.HasPrefix(a.L, FuncName(ro.DequeueDecision)+"(") && a.R == startAct:
				case a.Op == "==" && strings.HasSuffix(a.L, ".startTimer") && a.R == "nil":
				default:
					okStop = false
					why = a.String()
				}
			}
			r.Check(okStop, "dequeue.stop-reasons", fname+": why the loop stops", w.Pos(fn.Pos()), "the dequeue loop stops only on: empty list, decision ≠ Start, head timer pending", "the dequeue loop has another branch ("+why+"): a stop reason that no event re-triggers can strand the queue")
		}
	}
}
