package main

import (
	"fmt"
	"go/types"
	"sort"
	"strings"

	"golang.org/x/tools/go/callgraph"
	"golang.org/x/tools/go/ssa"
)

// ---------------------------------------------------------------------------------
// K11 SLICEFORM: classification of wait-list mutations; K9 MODSTALE: lost updates.

const waitListField = "waitListByPipeline"

func (ro *Roles) isWaitListMap(v ssa.Value) bool {
	return strings.HasSuffix(ro.w.AP(v), "."+waitListField)
}

// wlLookup: v is (a load of) the wait list of some pipeline; returns the Lookup.
func (ro *Roles) wlLookup(v ssa.Value) *ssa.Lookup {
	v = ro.w.Resolve(v)
	if ex, ok := v.(*ssa.Extract); ok {
		v = ro.w.Resolve(ex.Tuple)
	}
	if lk, ok := v.(*ssa.Lookup); ok && ro.isWaitListMap(lk.X) {
		return lk
	}
	return nil
}

// derivesFromWL reports whether v is computed from a wait-list lookup (through slicing, phi, append).
func (ro *Roles) derivedLookups(v ssa.Value, seen map[ssa.Value]bool, out *[]*ssa.Lookup) {
	v = ro.w.Resolve(v)
	if seen[v] {
		return
	}
	seen[v] = true
	if lk := ro.wlLookup(v); lk != nil {
		*out = append(*out, lk)
		return
	}
	switch x := v.(type) {
	case *ssa.Slice:
		ro.derivedLookups(x.X, seen, out)
	case *ssa.Phi:
		for _, e := range x.Edges {
			ro.derivedLookups(e, seen, out)
		}
	case *ssa.Call:
		if b, ok := x.Call.Value.(*ssa.Builtin); ok && b.Name() == "append" {
			for _, a := range x.Call.Args {
				ro.derivedLookups(a, seen, out)
			}
		} else if g := x.Call.StaticCallee(); g != nil && g.Blocks != nil && ro.w.InModule(g) {
			// a list helper: what it returns may be computed from the list it is given
			for _, a := range x.Call.Args {
				if _, isSlice := a.Type().Underlying().(*types.Slice); isSlice {
					ro.derivedLookups(a, seen, out)
				}
			}
		}
	case *ssa.Extract:
		if c, ok := ro.w.Resolve(x.Tuple).(*ssa.Call); ok {
			if _, isB := c.Call.Value.(*ssa.Builtin); !isB {
				ro.derivedLookups(c, seen, out)
			}
		}
	}
}

// formOf classifies the new value of the wait list of key relative to the old one.
func (ro *Roles) formOf(v ssa.Value, keyAP string, depth int) string {
	return ro.formOfRel(v, func(x ssa.Value) bool {
		lk := ro.wlLookup(x)
		if lk != nil {
			return ro.w.AP(lk.Index) == keyAP
		}
		// a helper that is handed the list together with its key: every caller passes wl[k] and k
		if p, ok := ro.w.Resolve(x).(*ssa.Parameter); ok {
			return ro.paramIsWaitListOfKey(p, keyAP)
		}
		return false
	}, depth)
}

func (ro *Roles) paramIsWaitListOfKey(p *ssa.Parameter, keyAP string) bool {
	w := ro.w
	fn := p.Parent()
	pi, ki := paramIdxOf(p), -1
	for i, q := range fn.Params {
		if w.AP(q) == keyAP {
			ki = i
		}
	}
	if pi < 0 || ki < 0 || fn.Parent() != nil {
		return false
	}
	n, ok := 0, true
	for _, f := range w.ModFuncs {
		allInstrs(f, func(in ssa.Instruction) {
			if mc, isMC := in.(*ssa.MakeClosure); isMC && mc.Fn == ssa.Value(fn) {
				ok = false
			}
			c := callCommonOf(in)
			if c == nil {
				return
			}
			for _, a := range c.Args {
				if funcValue(a) == fn {
					ok = false
				}
			}
			if c.StaticCallee() != fn {
				return
			}
			n++
			if pi >= len(c.Args) || ki >= len(c.Args) {
				ok = false
				return
			}
			lk := ro.wlLookup(c.Args[pi])
			if lk == nil || w.AP(lk.Index) != w.AP(c.Args[ki]) {
				ok = false
			}
		})
	}
	return ok && n > 0
}

// formOfRel classifies v relative to "the old list", which sameKey recognises.
func (ro *Roles) formOfRel(v ssa.Value, sameKey func(ssa.Value) bool, depth int) string {
	w := ro.w
	v = w.Resolve(v)
	if depth > 6 {
		return "unknown(deep)"
	}
	if sameKey(v) {
		return "identity"
	}
	// one result of a helper that returns several (the list and a found flag)
	if ex, ok := v.(*ssa.Extract); ok {
		if c, ok := w.Resolve(ex.Tuple).(*ssa.Call); ok {
			if _, isB := c.Call.Value.(*ssa.Builtin); !isB {
				v = c
			}
		}
	}
	switch x := v.(type) {
	case *ssa.Lookup, *ssa.Extract:
		if sameKey(v) {
			return "identity"
		}
	case *ssa.Slice:
		if sameKey(x.X) && x.Low != nil && isConstInt(x.Low, 1) && x.High == nil {
			return "pop-front"
		}
		if sameKey(x.X) && x.Low == nil && x.High != nil {
			return "truncate(pop-back)"
		}
		if ph, ok := w.Resolve(x.X).(*ssa.Phi); ok && x.Low != nil && isConstInt(x.Low, 1) && x.High == nil {
			return "pop-front(of " + ro.formOfRel(ph, sameKey, depth+1) + ")"
		}
	case *ssa.Phi:
		forms := map[string]bool{}
		for _, e := range x.Edges {
			if e == ssa.Value(x) {
				continue
			}
			if sl, ok := w.Resolve(e).(*ssa.Slice); ok && w.Resolve(sl.X) == ssa.Value(x) && sl.Low != nil && isConstInt(sl.Low, 1) && sl.High == nil {
				forms["pop-front"] = true
				continue
			}
			forms[ro.formOfRel(e, sameKey, depth+1)] = true
		}
		var fs []string
		for f := range forms {
			fs = append(fs, f)
		}
		if len(fs) == 1 {
			return fs[0]
		}
		delete(forms, "identity")
		if len(forms) == 1 {
			for f := range forms {
				return f + "*"
			}
		}
		return "unknown(phi " + strings.Join(fs, "|") + ")"
	case *ssa.Call:
		b, ok := x.Call.Value.(*ssa.Builtin)
		if !ok || b.Name() != "append" {
			// a module helper over the list (a method of a named list type, say): the form of what it returns
			if g := x.Call.StaticCallee(); g != nil && g.Blocks != nil && w.InModule(g) {
				k := -1
				for i, a := range x.Call.Args {
					if sameKey(a) {
						if k >= 0 {
							return "unknown(call " + calleeName(&x.Call) + " with the list twice)"
						}
						k = i
					}
				}
				if k >= 0 && k < len(g.Params) {
					return ro.helperReturnForm(g, k, depth+1)
				}
			}
			return "unknown(call " + calleeName(&x.Call) + ")"
		}
		first, rest := w.Resolve(x.Call.Args[0]), x.Call.Args[1]
		if sameKey(first) {
			if els := w.variadicElems(rest); len(els) == 1 {
				return "push-back"
			}
			return "unknown(append of several)"
		}
		// append(old[:i(:i)], old[i+1:]...)
		if s1, ok := first.(*ssa.Slice); ok && sameKey(s1.X) && s1.Low == nil && s1.High != nil {
			if s2, ok := w.Resolve(rest).(*ssa.Slice); ok && sameKey(s2.X) && s2.High == nil && s2.Low != nil {
				if w.AP(s2.Low) == "("+w.AP(s1.High)+" + 1)" {
					return "delete-at-i"
				}
			}
		}
		// append([]T{j}, old...) = push-front
		if els := w.variadicElems(first); els != nil {
			return "push-front"
		}
		return "unknown(append)"
	case *ssa.Const:
		if x.Value == nil {
			return "clear"
		}
	case *ssa.MakeSlice:
		return "clear"
	}
	return "unknown(" + w.AP(v) + ")"
}

var allowedForms = map[string]string{
	"push-back": "enqueue at the back", "pop-front": "dequeue from the front", "pop-front*": "dequeue from the front (loop-carried)",
	"delete-at-i": "order-preserving removal", "clear": "wait list dropped", "identity": "written back unchanged",
	"delete-at-i*": "order-preserving removal, or unchanged when the job is not listed",
}

// helperReturnForm: the form of the slice a list helper returns, relative to its parameter k
// (all its returns must agree, "identity" aside).
func (ro *Roles) helperReturnForm(g *ssa.Function, k int, depth int) string {
	w := ro.w
	prm := g.Params[k]
	same := func(x ssa.Value) bool {
		x = w.Resolve(x)
		for {
			switch y := x.(type) {
			case *ssa.ChangeType:
				x = w.Resolve(y.X)
				continue
			case *ssa.Convert:
				x = w.Resolve(y.X)
				continue
			}
			break
		}
		return x == ssa.Value(prm)
	}
	forms := map[string]bool{}
	allInstrs(g, func(in ssa.Instruction) {
		rt, ok := in.(*ssa.Return)
		if !ok || (g.Recover != nil && rt.Block() == g.Recover) {
			return
		}
		for _, rv := range rt.Results {
			if _, isSlice := rv.Type().Underlying().(*types.Slice); isSlice {
				v := w.Resolve(rv)
				for {
					if ct, ok := v.(*ssa.ChangeType); ok {
						v = w.Resolve(ct.X)
						continue
					}
					break
				}
				forms[ro.formOfRel(v, same, depth+1)] = true
			}
		}
	})
	if len(forms) == 0 {
		return "unknown(" + FuncName(g) + " returns no list)"
	}
	var fs []string
	for f := range forms {
		fs = append(fs, f)
	}
	sort.Strings(fs)
	if len(fs) == 1 {
		return fs[0]
	}
	delete(forms, "identity")
	if len(forms) == 1 {
		for f := range forms {
			return strings.TrimSuffix(f, "*") + "*"
		}
	}
	return "unknown(" + FuncName(g) + " returns " + strings.Join(fs, "|") + ")"
}

// helperListWrites: the element stores a list helper performs through its parameter k; ok is false
// when one of them is not "overwrite the last entry".
func (ro *Roles) helperListWrites(g *ssa.Function, k int) (n int, ok bool) {
	w := ro.w
	prm := g.Params[k]
	ok = true
	allInstrs(g, func(in ssa.Instruction) {
		st, isSt := in.(*ssa.Store)
		if !isSt {
			return
		}
		ia, isIA := w.resolveAddr(st.Addr).(*ssa.IndexAddr)
		if !isIA {
			return
		}
		base := w.Resolve(ia.X)
		if ct, isCT := base.(*ssa.ChangeType); isCT {
			base = w.Resolve(ct.X)
		}
		if base != ssa.Value(prm) {
			return
		}
		n++
		if w.AP(ia.Index) != "(len("+w.AP(ia.X)+") - 1)" {
			ok = false
		}
	})
	return n, ok
}

// waitListForms classifies every mutation of the wait list in the module (K11).
func (ro *Roles) waitListForms(r *Report, rule string) {
	w := ro.w
	n := 0
	for _, fn := range w.ModFuncs {
		fname := FuncName(fn)
		allInstrs(fn, func(in ssa.Instruction) {
			switch x := in.(type) {
			case *ssa.MapUpdate:
				if !ro.isWaitListMap(x.Map) {
					return
				}
				n++
				form := ro.formOf(x.Value, w.AP(x.Key), 0)
				desc, ok := allowedForms[form]
				key := fname + ": wait-list update"
				if ok {
					r.OK(rule, key+" ("+form+")", w.InstrPos(in), "form "+form+": "+desc)
				} else if strings.HasPrefix(form, "unknown") {
					r.Undecided(rule, key, w.InstrPos(in), "wait-list mutation of unrecognised form "+form+": FIFO order cannot be decided for it")
				} else {
					r.Viol(rule, key+" ("+form+")", w.InstrPos(in), "wait-list mutation of form "+form+" reorders the queue or drops the wrong end: queued jobs no longer start in acceptance order")
				}
			case *ssa.Store:
				ia, ok := w.resolveAddr(x.Addr).(*ssa.IndexAddr)
				if !ok {
					return
				}
				var lks []*ssa.Lookup
				ro.derivedLookups(ia.X, map[ssa.Value]bool{}, &lks)
				if len(lks) == 0 {
					return
				}
				n++
				idx := w.AP(ia.Index)
				base := w.AP(ia.X)
				key := fname + ": wait-list element store"
				if idx == "(len("+base+") - 1)" {
					r.OK(rule, key+" (replace-last)", w.InstrPos(in), "overwrites the last entry (replace strategy)")
				} else {
					r.Viol(rule, key+" (index "+idx+")", w.InstrPos(in), "stores into the wait list at index "+idx+": only the last entry may be overwritten (replace); anything else reorders or clobbers queued jobs")
				}
			case *ssa.Call:
				c := &x.Call
				if b, ok := c.Value.(*ssa.Builtin); ok {
					if b.Name() == "delete" && ro.isWaitListMap(c.Args[0]) {
						n++
						r.OK(rule, fname+": wait-list delete (clear)", w.InstrPos(in), "the pipeline's whole wait list is dropped")
					}
					return
				}
				// a wait-list slice handed to another function
				for _, a := range c.Args {
					var lks []*ssa.Lookup
					a = w.Resolve(a)
					ro.derivedLookups(a, map[ssa.Value]bool{}, &lks)
					if len(lks) > 0 && ro.la.isGuardedSlice(a.Type()) {
						n++
						// a module helper that only reads the slice it gets (a search, a count) cannot reorder the queue
						if callee := c.StaticCallee(); callee != nil && callee.Blocks != nil && w.InModule(callee) {
							idx := -1
							for i, a2 := range c.Args {
								if w.Resolve(a2) == a {
									idx = i
								}
							}
							if idx >= 0 && idx < len(callee.Params) {
								sf := &sliceFlow{w: w, memo: map[[2]interface{}][]sliceWrite{}, returnCounts: true}
								ws := sf.summary(callee, idx, 1)
								if len(ws) == 0 {
									r.OK(rule, fname+": wait list passed to "+calleeName(c)+" (read-only)", w.InstrPos(in), "the callee neither writes through the slice nor returns it")
									continue
								}
								// a list helper whose own effect is classified: what it returns has an allowed form
								// (the caller's write-back is judged as a wait-list update) and what it stores is the last entry
								retOK, nRet, nApp, onlyKnown := true, 0, 0, true
								for _, wr := range ws {
									switch wr.what {
									case "element store":
									case "returns (a reslice of) it, which the caller may store":
										nRet++
									case "append onto a shortened reslice (in-place filter)":
										nApp++ // accepted below only as part of the order-preserving removal idiom
									default:
										onlyKnown = false
									}
								}
								form := ""
								if nRet > 0 {
									form = ro.helperReturnForm(callee, idx, 0)
									_, retOK = allowedForms[form]
								}
								nSt, stOK := ro.helperListWrites(callee, idx)
								if nApp > 0 && !strings.HasPrefix(form, "delete-at-i") {
									onlyKnown = false
								}
								if onlyKnown && retOK && stOK && nSt+nRet+nApp == len(ws) {
									what := "list helper"
									if form != "" {
										what += " returning form " + form
									}
									if nSt > 0 {
										what += " overwriting the last entry"
									}
									r.OK(rule, fname+": wait list passed to "+calleeName(c)+" ("+strings.TrimPrefix(what, "list helper ")+")", w.InstrPos(in), what+": order-preserving")
									continue
								}
							}
						}
						r.Undecided(rule, fname+": wait list passed to "+nameOr(calleeName(c), "a dynamic call"), w.InstrPos(in), "a wait-list slice is handed to another function (e.g. a swap-remove or a sort): its effect on the queue order is not classified")
					}
				}
			}
		})
	}
	r.Count("waitlist_mutations", n)
}

// modifiesWaitList: functions that (transitively, synchronously) may write the wait-list map.
func (ro *Roles) waitListWriters() map[*ssa.Function]bool {
	w := ro.w
	direct := map[*ssa.Function]bool{}
	for _, fn := range w.ModFuncs {
		allInstrs(fn, func(in ssa.Instruction) {
			switch x := in.(type) {
			case *ssa.MapUpdate:
				if ro.isWaitListMap(x.Map) {
					direct[fn] = true
				}
			case *ssa.Call:
				if b, ok := x.Call.Value.(*ssa.Builtin); ok && b.Name() == "delete" && ro.isWaitListMap(x.Call.Args[0]) {
					direct[fn] = true
				}
			}
		})
	}
	// transitive callers through synchronous calls
	writers := map[*ssa.Function]bool{}
	for f := range direct {
		writers[f] = true
	}
	cg := w.CallGraph()
	changed := true
	for changed {
		changed = false
		for f := range writers {
			node := cg.Nodes[f]
			if node == nil {
				continue
			}
			for _, e := range node.In {
				if !isSyncEdge(e) {
					continue
				}
				c := e.Caller.Func
				if w.InModule(c) && !writers[c] {
					writers[c] = true
					changed = true
				}
			}
		}
	}
	return writers
}

func isSyncEdge(e *callgraph.Edge) bool {
	if e.Site == nil {
		return false
	}
	_, isGo := e.Site.(*ssa.Go)
	return !isGo
}

// noLostUpdate (K9): a wait list loaded into a local and written back later must not have
// been modified in between by a callee.
func (ro *Roles) noLostUpdate(r *Report, rule string) {
	w := ro.w
	writers := ro.waitListWriters()
	n := 0
	for _, fn := range w.ModFuncs {
		fname := FuncName(fn)
		allInstrs(fn, func(in ssa.Instruction) {
			mu, ok := in.(*ssa.MapUpdate)
			if !ok || !ro.isWaitListMap(mu.Map) {
				return
			}
			var lks []*ssa.Lookup
			ro.derivedLookups(mu.Value, map[ssa.Value]bool{}, &lks)
			// the list may have been loaded by the caller and handed in as a parameter: then the window is
			// from the caller's load to its call of this function
			if prm := ro.sliceRootParam(mu.Value); prm != nil && len(lks) == 0 {
				pi := paramIdxOf(prm)
				for _, caller := range w.ModFuncs {
					for _, ci := range findCalls(caller, func(_ string, c *ssa.CallCommon) bool { return c.StaticCallee() == fn }) {
						if pi >= len(ci.Common().Args) {
							continue
						}
						var clks []*ssa.Lookup
						ro.derivedLookups(ci.Common().Args[pi], map[ssa.Value]bool{}, &clks)
						for _, lk := range clks {
							n++
							key := FuncName(caller) + ": wait list loaded at " + w.AP(lk) + " and written back by " + fname
							if lk.Parent() != caller {
								r.Viol(rule, key, w.InstrPos(ci), "a wait list loaded in an enclosing function is written back by a helper when a closure runs: whatever changed the wait list in between is lost")
								continue
							}
							res := PathQuery{Fn: caller, Start: []ssa.Instruction{lk},
								Target: func(x ssa.Instruction) bool {
									c, ok := x.(*ssa.Call)
									if !ok || ssa.Instruction(c) == ssa.Instruction(ci) {
										return false
									}
									for _, callee := range w.Callees(c) {
										if writers[callee] {
											back := PathQuery{Fn: caller, Start: []ssa.Instruction{c}, Target: func(y ssa.Instruction) bool { return y == ssa.Instruction(ci) },
												BlockInstr: func(y ssa.Instruction) bool { return y == ssa.Instruction(lk) }}.Find()
											if back.Found {
												return true
											}
										}
									}
									return false
								}}.Find()
							if res.Found {
								c := res.Target.(*ssa.Call)
								r.Viol(rule, key, w.InstrPos(ci), fmt.Sprintf("the wait list is loaded at %s, then %s is called (it can modify the wait list: %s), and the stale copy is handed to %s, which writes it back: entries popped or removed in between reappear", w.InstrPos(lk), nameOr(calleeName(&c.Call), "a callback"), w.InstrPos(c), fname))
							} else {
								r.OK(rule, key, w.InstrPos(ci), "no call that can modify the wait list lies between the load and the call of the helper that writes it back")
							}
						}
					}
				}
			}
			for _, lk := range lks {
				n++
				key := fname + ": write-back of the wait list loaded at " + w.AP(lk)
				if lk.Parent() != fn {
					r.Viol(rule, key, w.InstrPos(mu), fmt.Sprintf("a wait list loaded in %s (%s) is captured by a closure and written back here when the closure runs: whatever changed the wait list in between is lost", FuncName(lk.Parent()), w.InstrPos(lk)))
					continue
				}
				// a call between the load and the write-back whose callee may write the wait list
				res := PathQuery{Fn: fn, Start: []ssa.Instruction{lk},
					Target: func(x ssa.Instruction) bool {
						c, ok := x.(*ssa.Call)
						if !ok {
							return false
						}
						for _, callee := range w.Callees(c) {
							if writers[callee] {
								// only relevant if the write-back is reachable afterwards
								// ... without the list being loaded afresh in between
								back := PathQuery{Fn: fn, Start: []ssa.Instruction{c}, Target: func(y ssa.Instruction) bool { return y == ssa.Instruction(mu) },
									BlockInstr: func(y ssa.Instruction) bool { return y == ssa.Instruction(lk) }}.Find()
								if back.Found {
									return true
								}
							}
						}
						return false
					}}.Find()
				if res.Found {
					c := res.Target.(*ssa.Call)
					r.Viol(rule, key, w.InstrPos(mu), fmt.Sprintf("the wait list is loaded at %s, then %s is called (it can modify the wait list: %s), and the stale copy is written back here: entries popped or removed in between reappear — a job is started twice or a removed job returns", w.InstrPos(lk), nameOr(calleeName(&c.Call), "a callback"), w.InstrPos(c)))
				} else {
					r.OK(rule, key, w.InstrPos(mu), "no call that can modify the wait list lies between the load and the write-back")
				}
			}
		})
	}
	r.Count("writebacks", n)
}

// ---------------------------------------------------------------------------------
// dequeue loop rules

// sliceRootParam: v is a parameter of its function, or a reslice/append chain rooted in one.
func (ro *Roles) sliceRootParam(v ssa.Value) *ssa.Parameter {
	w := ro.w
	for i := 0; i < 8; i++ {
		v = w.Resolve(v)
		switch x := v.(type) {
		case *ssa.Parameter:
			return x
		case *ssa.Slice:
			v = x.X
		case *ssa.ChangeType:
			v = x.X
		case *ssa.Call:
			if b, ok := x.Call.Value.(*ssa.Builtin); ok && b.Name() == "append" {
				v = x.Call.Args[0]
				continue
			}
			return nil
		default:
			return nil
		}
	}
	return nil
}
