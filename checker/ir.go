package main

import (
	"fmt"
	"go/constant"
	"go/token"
	"go/types"
	"sort"
	"strings"

	"golang.org/x/tools/go/ssa"
)

// ---------------------------------------------------------------------------------
// store-to-load forwarding for single-store locals (spilled parameters, := locals that
// are captured by closures) and free variables.

type fwdInfo struct {
	single map[*ssa.Alloc]ssa.Value // alloc -> the only value ever stored (nil if not single)
}

// allocSingleStore returns the unique value stored into a, if a has exactly one store in
// its function and its closures (free variables bound to a are followed), and its address
// does not escape otherwise.
func (w *World) allocSingleStore(a *ssa.Alloc) ssa.Value {
	fn := a.Parent()
	fi := w.fwd[fn]
	if fi == nil {
		fi = &fwdInfo{single: map[*ssa.Alloc]ssa.Value{}}
		w.fwd[fn] = fi
	}
	if v, ok := fi.single[a]; ok {
		return v
	}
	fi.single[a] = nil
	var stores []*ssa.Store
	var uses []ssa.Instruction // loads in a's function and closure creations binding a
	ok := true
	var visit func(addr ssa.Value, inClosure bool)
	visit = func(addr ssa.Value, inClosure bool) {
		refs := addr.Referrers()
		if refs == nil {
			ok = false
			return
		}
		for _, r := range *refs {
			switch r := r.(type) {
			case *ssa.Store:
				if r.Addr == addr {
					stores = append(stores, r)
				} else {
					ok = false // address stored somewhere
				}
			case *ssa.UnOp:
				if !inClosure {
					uses = append(uses, r)
				}
			case *ssa.MakeClosure:
				if !inClosure {
					uses = append(uses, r)
				}
				cl := r.Fn.(*ssa.Function)
				for i, b := range r.Bindings {
					if b == addr {
						visit(cl.FreeVars[i], true)
					}
				}
			case *ssa.DebugRef:
			case *ssa.FieldAddr, *ssa.IndexAddr:
				// address of a part: writes through it are not whole-value stores
				if hasStoreThrough(r.(ssa.Value)) {
					ok = false
				}
			default:
				ok = false
			}
		}
	}
	visit(a, false)
	if ok && len(stores) == 1 && stores[0].Parent() == fn {
		// the store must precede every use (a declared-but-unassigned variable holds its zero
		// value until a later store, e.g. one made by a goroutine)
		for _, u := range uses {
			if u.Block() == fn.Recover {
				continue // the load of a named result in the recover block is never forwarded (see Resolve)
			}
			if !instrDominates(stores[0], u) {
				ok = false
			}
		}
		if ok {
			fi.single[a] = stores[0].Val
		}
	}
	return fi.single[a]
}

// blockLocalStore: the value of the last direct store to cell a that precedes load ld in
// ld's own block, provided a is used by direct loads and stores only.
func blockLocalStore(a *ssa.Alloc, ld *ssa.UnOp) ssa.Value {
	if refs := a.Referrers(); refs != nil {
		for _, r := range *refs {
			switch x := r.(type) {
			case *ssa.Store:
				if x.Addr != ssa.Value(a) {
					return nil
				}
			case *ssa.UnOp, *ssa.DebugRef:
			default:
				return nil
			}
		}
	}
	b := ld.Block()
	if b == nil {
		return nil
	}
	var last ssa.Value
	for _, in := range b.Instrs {
		if in == ssa.Instruction(ld) {
			return last
		}
		if st, ok := in.(*ssa.Store); ok && st.Addr == ssa.Value(a) {
			last = st.Val
		}
	}
	return nil
}

func hasStoreThrough(addr ssa.Value) bool {
	refs := addr.Referrers()
	if refs == nil {
		return true
	}
	for _, r := range *refs {
		switch r := r.(type) {
		case *ssa.Store:
			if r.Addr == addr {
				return true
			}
		case *ssa.FieldAddr, *ssa.IndexAddr:
			if hasStoreThrough(r.(ssa.Value)) {
				return true
			}
		case *ssa.UnOp, *ssa.DebugRef:
		default:
			return true
		}
	}
	return false
}

// bindingOf returns the value bound to free variable fv at the (unique) MakeClosure of its function.
func (w *World) bindingOf(fv *ssa.FreeVar) ssa.Value {
	fn := fv.Parent()
	parent := fn.Parent()
	if parent == nil {
		return nil
	}
	idx := -1
	for i, x := range fn.FreeVars {
		if x == fv {
			idx = i
		}
	}
	var found ssa.Value
	n := 0
	for _, b := range parent.Blocks {
		for _, in := range b.Instrs {
			if mc, ok := in.(*ssa.MakeClosure); ok && mc.Fn == fn {
				found = mc.Bindings[idx]
				n++
			}
		}
	}
	if n == 1 {
		return found
	}
	return nil
}

// Resolve looks through loads of single-store locals, free variables, and value-preserving
// conversions, returning the underlying value.
func (w *World) Resolve(v ssa.Value) ssa.Value {
	for i := 0; i < 50; i++ {
		switch x := v.(type) {
		case *ssa.UnOp:
			if x.Op == token.MUL {
				addr := w.resolveAddr(x.X)
				// a field of a spilled value parameter (value receiver) that is bound to a struct built as a
				// local composite literal in the caller: the field's initialiser there
				if fa, ok := addr.(*ssa.FieldAddr); ok {
					if a, ok := w.resolveAddr(fa.X).(*ssa.Alloc); ok {
						if whole := w.allocSingleStore(a); whole != nil {
							if ld, ok := w.Resolve(whole).(*ssa.UnOp); ok && ld.Op == token.MUL {
								if b, ok := w.resolveAddr(ld.X).(*ssa.Alloc); ok && b != a {
									if s := structFieldInit(b, fa.Field, ld); s != nil {
										v = s
										continue
									}
								}
							}
						}
					}
				}
				if s, ok := w.loadEnv[x]; ok && s != nil && s != ssa.Value(x) {
					v = s
					continue
				}
				if a, ok := addr.(*ssa.Alloc); ok && !(x.Block() != nil && x.Block() == x.Parent().Recover) {
					if s := w.allocSingleStore(a); s != nil {
						v = s
						continue
					}
					if s, ok := w.memEnv[a]; ok && s != nil {
						v = s
						continue
					}
					// block-local forwarding (defer-spilled results: `*t = x; rundefers; r = *t; return r`):
					// the last store to the cell earlier in the load's own block, for a cell that is
					// only ever loaded and stored directly (not captured, no address taken)
					if s := blockLocalStore(a, x); s != nil {
						v = s
						continue
					}
				}
			}
			return v
		case *ssa.Field:
			// a field of a struct value that was built as a local composite literal and handed on by value
			// (k := key{a, b}; k.method()): the field's initialiser
			if ld, ok := w.Resolve(x.X).(*ssa.UnOp); ok && ld.Op == token.MUL {
				if a, ok := w.resolveAddr(ld.X).(*ssa.Alloc); ok {
					if s := structFieldInit(a, x.Field, ld); s != nil {
						v = s
						continue
					}
				}
			}
			return v
		case *ssa.ChangeType:
			v = x.X
		case *ssa.MakeInterface:
			v = x.X
		case *ssa.ChangeInterface:
			v = x.X
		case *ssa.Convert:
			// only conversions between types with the same underlying basic kind
			if bt, ok := x.Type().Underlying().(*types.Basic); ok {
				if bf, ok2 := x.X.Type().Underlying().(*types.Basic); ok2 && bt.Info()&types.IsInteger != 0 && bf.Info()&types.IsInteger != 0 {
					v = x.X
					continue
				}
			}
			return v
		case *ssa.FreeVar:
			b := w.bindingOf(x)
			if b == nil {
				return v
			}
			v = b
		case *ssa.Phi:
			if r, ok := w.phiEnv[x]; ok && r != v {
				v = r
				continue
			}
			return v
		case *ssa.Parameter:
			if r, ok := w.paramEnv[x]; ok && r != v {
				v = r
				continue
			}
			return v
		case *ssa.Call:
			if rs, ok := w.callEnv[x]; ok && len(rs) == 1 && rs[0] != v {
				v = rs[0]
				continue
			}
			return v
		case *ssa.Extract:
			if c, ok := x.Tuple.(*ssa.Call); ok {
				if rs, ok := w.callEnv[c]; ok && x.Index < len(rs) {
					v = rs[x.Index]
					continue
				}
			}
			return v
		default:
			return v
		}
	}
	return v
}

// resolveAddr resolves an address value through free variables (a captured *T alloc).
func (w *World) resolveAddr(v ssa.Value) ssa.Value {
	for i := 0; i < 10; i++ {
		if fv, ok := v.(*ssa.FreeVar); ok {
			b := w.bindingOf(fv)
			if b == nil {
				return v
			}
			v = b
			continue
		}
		return v
	}
	return v
}

// ---------------------------------------------------------------------------------
// access paths

// AP renders a canonical access path of a value: parameters by position, field names,
// map/slice indexing, static calls with their argument paths, constants by value.
func (w *World) AP(v ssa.Value) string { return w.ap(v, 0) }

func (w *World) ap(v ssa.Value, depth int) string {
	if depth > 24 {
		return "…"
	}
	v = w.Resolve(v)
	switch x := v.(type) {
	case *ssa.Parameter:
		fn := x.Parent()
		// parameters of closures are qualified by nesting depth, so that a closure's own
		// parameters and those of the enclosing function(s) it captures read differently
		prefix := ""
		depthN := 0
		for f := fn; f.Parent() != nil; f = f.Parent() {
			depthN++
		}
		if depthN > 0 {
			prefix = fmt.Sprintf("c%d.", depthN)
		}
		for i, p := range fn.Params {
			if p == x {
				if fn.Signature.Recv() != nil {
					if i == 0 {
						return prefix + "recv"
					}
					return fmt.Sprintf("%sarg%d", prefix, i-1)
				}
				return fmt.Sprintf("%sarg%d", prefix, i)
			}
		}
		return x.Name()
	case *ssa.Const:
		return constStr(x)
	case *ssa.FieldAddr:
		return w.apAddrBase(x.X, depth+1) + "." + fieldName(x.X.Type(), x.Field)
	case *ssa.Field:
		return w.ap(x.X, depth+1) + "." + fieldNameV(x.X.Type(), x.Field)
	case *ssa.IndexAddr:
		return w.apAddrBase(x.X, depth+1) + "[" + w.ap(x.Index, depth+1) + "]"
	case *ssa.Index:
		return w.ap(x.X, depth+1) + "[" + w.ap(x.Index, depth+1) + "]"
	case *ssa.Lookup:
		s := w.ap(x.X, depth+1) + "[" + w.ap(x.Index, depth+1) + "]"
		if x.CommaOk {
			s += ",ok"
		}
		return s
	case *ssa.Extract:
		if lk, ok := w.Resolve(x.Tuple).(*ssa.Lookup); ok && lk.CommaOk {
			base := w.ap(lk.X, depth+1) + "[" + w.ap(lk.Index, depth+1) + "]"
			if x.Index == 1 {
				return "has(" + base + ")"
			}
			return base
		}
		if nx, ok := x.Tuple.(*ssa.Next); ok {
			if rg, ok := nx.Iter.(*ssa.Range); ok {
				switch x.Index {
				case 1:
					return "rangekey(" + w.ap(rg.X, depth+1) + ")"
				case 2:
					return "rangeval(" + w.ap(rg.X, depth+1) + ")"
				}
				return "rangeok(" + w.ap(rg.X, depth+1) + ")"
			}
		}
		return fmt.Sprintf("%s#%d", w.ap(x.Tuple, depth+1), x.Index)
	case *ssa.UnOp:
		switch x.Op {
		case token.MUL:
			// load through an address
			addr := w.resolveAddr(x.X)
			switch a := addr.(type) {
			case *ssa.FieldAddr, *ssa.IndexAddr:
				return w.ap(a.(ssa.Value), depth+1)
			case *ssa.Global:
				return globalName(a)
			case *ssa.Alloc:
				return w.allocName(a)
			}
			return "*" + w.ap(x.X, depth+1)
		case token.NOT:
			return "!" + w.ap(x.X, depth+1)
		case token.SUB:
			return "-" + w.ap(x.X, depth+1)
		case token.ARROW:
			return "<-" + w.ap(x.X, depth+1)
		}
		return x.Op.String() + w.ap(x.X, depth+1)
	case *ssa.BinOp:
		return "(" + w.ap(x.X, depth+1) + " " + x.Op.String() + " " + w.ap(x.Y, depth+1) + ")"
	case *ssa.Call:
		return w.apCall(&x.Call, depth)
	case *ssa.Alloc:
		return "&" + w.allocName(x)
	case *ssa.Global:
		return "&" + globalName(x)
	case *ssa.Function:
		return FuncName(x)
	case *ssa.MakeClosure:
		return "closure(" + FuncName(x.Fn.(*ssa.Function)) + ")"
	case *ssa.Slice:
		if el := w.variadicElems(x); el != nil {
			var parts []string
			for _, e := range el {
				parts = append(parts, w.ap(e, depth+1))
			}
			return "[" + strings.Join(parts, ",") + "]"
		}
		lo, hi, mx := "", "", ""
		if x.Low != nil {
			lo = w.ap(x.Low, depth+1)
		}
		if x.High != nil {
			hi = w.ap(x.High, depth+1)
		}
		s := w.ap(x.X, depth+1) + "[" + lo + ":" + hi
		if x.Max != nil {
			mx = w.ap(x.Max, depth+1)
			s += ":" + mx
		}
		return s + "]"
	case *ssa.Phi:
		return w.apPhi(x, depth)
	case *ssa.TypeAssert:
		return w.ap(x.X, depth+1) + ".(" + types.TypeString(x.AssertedType, shortQual) + ")"
	case *ssa.FreeVar:
		return "free:" + x.Name()
	case *ssa.Select:
		var parts []string
		for _, st := range x.States {
			dir := "<-"
			if st.Dir == types.SendOnly {
				dir = "->"
			}
			parts = append(parts, dir+w.ap(st.Chan, depth+1))
		}
		return "select(" + strings.Join(parts, ";") + ")"
	case *ssa.MakeSlice:
		return "make@" + x.Name()
	case *ssa.MakeMap:
		return "makemap@" + x.Name()
	}
	return fmt.Sprintf("?%T@%s", v, v.Name())
}

// apPhi renders a phi without SSA register names: loop counters as "i", other phis by
// their distinct incoming values.
func (w *World) apPhi(x *ssa.Phi, depth int) string {
	if w.phiBusy == nil {
		w.phiBusy = map[*ssa.Phi]bool{}
	}
	if w.phiBusy[x] {
		return "φ"
	}
	w.phiBusy[x] = true
	defer delete(w.phiBusy, x)
	// induction variable: one constant edge and one (phi ± const) edge
	if len(x.Edges) == 2 {
		for i := 0; i < 2; i++ {
			if _, isC := x.Edges[i].(*ssa.Const); isC {
				if b, ok := x.Edges[1-i].(*ssa.BinOp); ok && (b.X == ssa.Value(x) || b.Y == ssa.Value(x)) {
					return "i"
				}
			}
		}
	}
	// rendered with its own depth budget so that the same phi reads the same everywhere
	_ = depth
	seen := map[string]bool{}
	var parts []string
	for _, e := range x.Edges {
		s := w.ap(e, 4)
		if !seen[s] {
			seen[s] = true
			parts = append(parts, s)
		}
	}
	sort.Strings(parts)
	return "φ(" + strings.Join(parts, "|") + ")"
}

// apAddrBase renders the base of a FieldAddr/IndexAddr (which is a pointer or an address).
func (w *World) apAddrBase(base ssa.Value, depth int) string {
	base = w.resolveAddr(base)
	switch b := base.(type) {
	case *ssa.Alloc:
		// a struct local: if it is a single-store copy, name what was copied
		if s := w.allocSingleStore(b); s != nil {
			return w.ap(s, depth)
		}
		return w.allocName(b)
	case *ssa.FieldAddr, *ssa.IndexAddr:
		return w.ap(b.(ssa.Value), depth)
	case *ssa.Global:
		return globalName(b)
	}
	// a pointer value (*T): path of the pointer
	return w.ap(base, depth)
}

func (w *World) allocName(a *ssa.Alloc) string {
	if a.Comment != "" {
		// several cells of one function can share a comment (two composite literals are both
		// "complit"): the second, third … in program order get an ordinal
		if n := w.allocOrdinal(a); n > 1 {
			return fmt.Sprintf("local:%s#%d", a.Comment, n)
		}
		return "local:" + a.Comment
	}
	return "local@" + a.Name()
}

func (w *World) allocOrdinal(a *ssa.Alloc) int {
	if w.allocOrd == nil {
		w.allocOrd = map[*ssa.Alloc]int{}
	}
	if n, ok := w.allocOrd[a]; ok {
		return n
	}
	fn := a.Parent()
	if fn == nil {
		return 1
	}
	seen := map[string]int{}
	for _, b := range fn.Blocks {
		for _, in := range b.Instrs {
			if al, ok := in.(*ssa.Alloc); ok && al.Comment != "" {
				seen[al.Comment]++
				w.allocOrd[al] = seen[al.Comment]
			}
		}
	}
	for _, al := range fn.Locals {
		if _, ok := w.allocOrd[al]; !ok && al.Comment != "" {
			seen[al.Comment]++
			w.allocOrd[al] = seen[al.Comment]
		}
	}
	return w.allocOrd[a]
}

func globalName(g *ssa.Global) string {
	p := ""
	if g.Pkg != nil {
		p = strings.TrimPrefix(g.Pkg.Pkg.Path(), modPath)
		p = strings.TrimPrefix(p, "/")
		if p != "" {
			p += "."
		}
	}
	return p + g.Name()
}

func (w *World) apCall(c *ssa.CallCommon, depth int) string {
	var args []string
	for _, a := range c.Args {
		args = append(args, w.ap(a, depth+1))
	}
	if b, ok := c.Value.(*ssa.Builtin); ok {
		return b.Name() + "(" + strings.Join(args, ",") + ")"
	}
	if c.IsInvoke() {
		return w.ap(c.Value, depth+1) + "." + c.Method.Name() + "(" + strings.Join(args, ",") + ")"
	}
	if f := c.StaticCallee(); f != nil {
		return FuncName(f) + "(" + strings.Join(args, ",") + ")"
	}
	return "dyn:" + w.ap(c.Value, depth+1) + "(" + strings.Join(args, ",") + ")"
}

func shortQual(p *types.Package) string {
	if strings.HasPrefix(p.Path(), modPath) {
		s := strings.TrimPrefix(strings.TrimPrefix(p.Path(), modPath), "/")
		if s == "" {
			return "prunner"
		}
		return s
	}
	return p.Name()
}

func constStr(c *ssa.Const) string {
	if c.Value == nil {
		return "nil"
	}
	if c.Value.Kind() == constant.String {
		return fmt.Sprintf("%q", constant.StringVal(c.Value))
	}
	return c.Value.ExactString()
}

func fieldName(ptrT types.Type, i int) string {
	s := structOf(ptrT)
	if s == nil || i >= s.NumFields() {
		return fmt.Sprintf("#%d", i)
	}
	return canonField(s.Field(i))
}

func fieldNameV(t types.Type, i int) string {
	s, _ := t.Underlying().(*types.Struct)
	if s == nil || i >= s.NumFields() {
		return fmt.Sprintf("#%d", i)
	}
	return canonField(s.Field(i))
}

// ---------------------------------------------------------------------------------
// small queries

// FieldRef describes the struct field an address refers to (outermost named struct and field).
type FieldRef struct {
	Owner *types.Named // named struct type that declares the field
	Name  string
}

func (f FieldRef) String() string {
	if f.Owner == nil {
		return "?." + f.Name
	}
	return f.Owner.Obj().Name() + "." + f.Name
}

// fieldOfAddr returns the field addressed by a FieldAddr value.
func fieldOfAddr(fa *ssa.FieldAddr) FieldRef {
	n := namedOf(fa.X.Type())
	return FieldRef{Owner: n, Name: fieldName(fa.X.Type(), fa.Field)}
}

// callCommonOf returns the CallCommon of a Call/Go/Defer instruction.
func callCommonOf(in ssa.Instruction) *ssa.CallCommon {
	if ci, ok := in.(ssa.CallInstruction); ok {
		return ci.Common()
	}
	return nil
}

func isConstInt(v ssa.Value, n int64) bool {
	c, ok := v.(*ssa.Const)
	if !ok || c.Value == nil {
		return false
	}
	if c.Value.Kind() != constant.Int {
		return false
	}
	i, ok := constant.Int64Val(c.Value)
	return ok && i == n
}

func isNilConst(v ssa.Value) bool {
	c, ok := v.(*ssa.Const)
	return ok && c.Value == nil
}

func isBoolConst(v ssa.Value, b bool) bool {
	c, ok := v.(*ssa.Const)
	if !ok || c.Value == nil || c.Value.Kind() != constant.Bool {
		return false
	}
	return constant.BoolVal(c.Value) == b
}

// allInstrs iterates the instructions of fn in block order.
func allInstrs(fn *ssa.Function, f func(in ssa.Instruction)) {
	for _, b := range fn.Blocks {
		for _, in := range b.Instrs {
			f(in)
		}
	}
}

// withClosures returns fn and all anonymous functions nested in it (transitively).
func withClosures(fn *ssa.Function) []*ssa.Function {
	out := []*ssa.Function{fn}
	for _, a := range fn.AnonFuncs {
		out = append(out, withClosures(a)...)
	}
	return out
}

// variadicElems returns the elements of a variadic argument slice built at the call site
// (t = new [n]T; t[i] = x; slice t[:]), or nil if v is not of that shape.
func (w *World) variadicElems(v ssa.Value) []ssa.Value {
	sl, ok := v.(*ssa.Slice)
	if !ok {
		// a slice literal held in a local (possibly of a named slice type, possibly captured by a closure)
		sl, ok = w.Resolve(v).(*ssa.Slice)
	}
	if !ok {
		return nil
	}
	al, ok := sl.X.(*ssa.Alloc)
	if !ok {
		return nil
	}
	arr, ok := al.Type().Underlying().(*types.Pointer).Elem().Underlying().(*types.Array)
	if !ok {
		return nil
	}
	out := make([]ssa.Value, arr.Len())
	refs := al.Referrers()
	if refs == nil {
		return nil
	}
	for _, r := range *refs {
		ia, ok := r.(*ssa.IndexAddr)
		if !ok {
			continue
		}
		c, ok := ia.Index.(*ssa.Const)
		if !ok {
			return nil
		}
		idx := int(c.Int64())
		if iar := ia.Referrers(); iar != nil {
			for _, rr := range *iar {
				if st, ok := rr.(*ssa.Store); ok && st.Addr == ia && idx < len(out) {
					out[idx] = st.Val
				}
			}
		}
	}
	for _, e := range out {
		if e == nil {
			return nil
		}
	}
	return out
}

// calleeName returns "pkgpath.Func" or "pkgpath.(Type).Method" of a call's static callee, or
// "invoke:Method" for interface calls.
func calleeName(c *ssa.CallCommon) string {
	if c.IsInvoke() {
		return "invoke:" + c.Method.Name()
	}
	if b, ok := c.Value.(*ssa.Builtin); ok {
		return "builtin." + b.Name()
	}
	f := c.StaticCallee()
	if f == nil {
		return ""
	}
	return qualifiedName(f)
}

func qualifiedName(f *ssa.Function) string {
	o := f.Object()
	if o == nil || o.Pkg() == nil {
		return f.String()
	}
	if recv := f.Signature.Recv(); recv != nil {
		if n := namedOf(recv.Type()); n != nil {
			return o.Pkg().Path() + ".(" + n.Obj().Name() + ")." + o.Name()
		}
	}
	return o.Pkg().Path() + "." + o.Name()
}

// findCalls lists the call instructions (Call, Defer, Go) in fn whose callee name matches.
func findCalls(fn *ssa.Function, match func(name string, c *ssa.CallCommon) bool) []ssa.CallInstruction {
	var out []ssa.CallInstruction
	allInstrs(fn, func(in ssa.Instruction) {
		if ci, ok := in.(ssa.CallInstruction); ok {
			if match(calleeName(ci.Common()), ci.Common()) {
				out = append(out, ci)
			}
		}
	})
	return out
}

// errTestEdges finds the If instructions in fn that test value v against nil and returns,
// for each, the successor index taken when v == nil (the "ok" edge).
type errTest struct {
	If     *ssa.If
	OkSucc int // successor index for v == nil
}

func (w *World) nilTests(fn *ssa.Function, v ssa.Value) []errTest {
	var out []errTest
	// a call with several results: the tests of its last result (the error)
	if c, ok := v.(*ssa.Call); ok {
		if tup, ok := c.Type().(*types.Tuple); ok && tup.Len() > 1 && c.Referrers() != nil {
			for _, ref := range *c.Referrers() {
				if ex, ok := ref.(*ssa.Extract); ok && ex.Index == tup.Len()-1 {
					out = append(out, w.nilTests(fn, ex)...)
				}
			}
			return out
		}
	}
	allInstrs(fn, func(in ssa.Instruction) {
		ifi, ok := in.(*ssa.If)
		if !ok {
			return
		}
		cond := ifi.Cond
		neg := false
		for {
			u, ok := cond.(*ssa.UnOp)
			if ok && u.Op == token.NOT {
				neg = !neg
				cond = u.X
				continue
			}
			break
		}
		b, ok := cond.(*ssa.BinOp)
		if !ok || (b.Op != token.EQL && b.Op != token.NEQ) {
			return
		}
		var other ssa.Value
		if w.Resolve(b.X) == v || b.X == v || w.reachingStoreValue(b.X) == v {
			other = b.Y
		} else if w.Resolve(b.Y) == v || b.Y == v || w.reachingStoreValue(b.Y) == v {
			other = b.X
		} else {
			return
		}
		if !isNilConst(other) {
			return
		}
		okSucc := 0 // == nil true → succ 0
		if b.Op == token.NEQ {
			okSucc = 1
		}
		if neg {
			okSucc = 1 - okSucc
		}
		out = append(out, errTest{If: ifi, OkSucc: okSucc})
	})
	return out
}

// APThrough renders v like AP, but sees through calls of module helpers that have a single
// (non-recover) return: the helper's result expression is rendered with its parameters bound
// to the call's arguments (depth ≤ 2). `x := helper(a, b)` then reads like the inlined body.
func (w *World) APThrough(v ssa.Value) string { return w.apThrough(v, 0) }

func (w *World) apThrough(v ssa.Value, depth int) string {
	rv := w.Resolve(v)
	resIdx := 0
	if ex, isEx := rv.(*ssa.Extract); isEx {
		// one result of a helper with several results (and one return statement)
		if c2, isC := w.Resolve(ex.Tuple).(*ssa.Call); isC {
			if _, isB := c2.Call.Value.(*ssa.Builtin); !isB {
				rv, resIdx = c2, ex.Index
			}
		}
	}
	c, ok := rv.(*ssa.Call)
	if !ok || depth > 2 {
		return w.AP(v)
	}
	h := c.Call.StaticCallee()
	if h == nil || h.Blocks == nil || !w.InModule(h) {
		return w.AP(v)
	}
	var ret ssa.Value
	n := 0
	var real []ssa.Value
	allInstrs(h, func(in ssa.Instruction) {
		if rt, ok := in.(*ssa.Return); ok && rt.Block() != h.Recover && len(rt.Results) > resIdx {
			n++
			ret = rt.Results[resIdx]
			// a constant or a package-level "no value" (nil, "", uuid.Nil) on a failure return is not what the helper computes
			switch x := w.Resolve(ret).(type) {
			case *ssa.Const:
				return
			case *ssa.UnOp:
				if _, isGlobal := x.X.(*ssa.Global); isGlobal {
					return
				}
			}
			real = append(real, ret)
		}
	})
	if n > 1 && len(real) == 1 {
		// several returns, one of which yields a computed value (the others report "nothing"): the value of the helper
		n, ret = 1, real[0]
	}
	if n != 1 {
		return w.AP(v)
	}
	saved := w.paramEnv
	penv := map[*ssa.Parameter]ssa.Value{}
	for k, x := range saved {
		penv[k] = x
	}
	for i, p := range h.Params {
		if i < len(c.Call.Args) {
			penv[p] = w.Resolve(c.Call.Args[i])
		}
	}
	w.paramEnv = penv
	s := w.apThrough(ret, depth+1)
	w.paramEnv = saved
	return s
}

// argLeaf is one origin of an argument position: the call site and the (resolved) value
// passed there, followed through wrappers that merely forward one of their own parameters.
type argLeaf struct {
	fn *ssa.Function
	in ssa.CallInstruction
	v  ssa.Value
}

// argOrigins lists what the module's static call sites of fn pass at parameter position idx
// (CallCommon.Args index); a caller that passes one of its own parameters on is looked
// through (depth ≤ 3).
func (w *World) argOrigins(fn *ssa.Function, idx int, depth int) []argLeaf {
	var out []argLeaf
	if depth > 3 {
		return out
	}
	for _, g := range w.ModFuncs {
		allInstrs(g, func(in ssa.Instruction) {
			ci, ok := in.(ssa.CallInstruction)
			if !ok {
				return
			}
			c := ci.Common()
			if c.StaticCallee() != fn || idx >= len(c.Args) {
				return
			}
			v := w.Resolve(c.Args[idx])
			// (the parameter may be one of an enclosing function, captured by the closure g)
			encl := false
			if p, ok := v.(*ssa.Parameter); ok {
				for a := g.Parent(); a != nil; a = a.Parent() {
					encl = encl || a == p.Parent()
				}
			}
			if p, ok := v.(*ssa.Parameter); ok && (p.Parent() == g || encl) {
				for i, q := range p.Parent().Params {
					if q == p {
						sub := w.argOrigins(p.Parent(), i, depth+1)
						if len(sub) > 0 {
							out = append(out, sub...)
							return
						}
					}
				}
			}
			out = append(out, argLeaf{g, ci, v})
		})
	}
	return out
}

// paramIdx returns the index of p among its function's parameters (-1 if none).
func paramIdxOf(p *ssa.Parameter) int {
	for i, q := range p.Parent().Params {
		if q == p {
			return i
		}
	}
	return -1
}

// structFieldInit: a is a local struct cell that is only initialised field by field (one store per
// field) and then loaded as a whole; the value stored into the field, provided the store dominates
// the whole-struct load `at`. nil otherwise.
func structFieldInit(a *ssa.Alloc, field int, at *ssa.UnOp) ssa.Value {
	if a.Referrers() == nil {
		return nil
	}
	var val ssa.Value
	n := 0
	for _, r := range *a.Referrers() {
		switch x := r.(type) {
		case *ssa.FieldAddr:
			if x.Referrers() == nil {
				continue
			}
			for _, fr := range *x.Referrers() {
				switch y := fr.(type) {
				case *ssa.Store:
					if y.Addr != ssa.Value(x) {
						return nil // the field's address is stored somewhere
					}
					if x.Field == field {
						val = y.Val
						n++
						if !instrDominates(y, at) {
							return nil
						}
					}
				case *ssa.UnOp, *ssa.DebugRef:
				default:
					return nil
				}
			}
		case *ssa.UnOp, *ssa.DebugRef:
		default:
			return nil // the cell's address escapes
		}
	}
	if n == 1 {
		return val
	}
	return nil
}

// reachingStoreValue: x is a load of a local cell that is stored to several times (a named result that a deferred closure
// reads, `err` reused for every step): if one store dominates the load and every path from any other store of the cell to the
// load passes that store again, the load yields that store's value. The cell may be captured only by closures that run deferred
// (at the exit, after every load in the body); any other escape gives nil (unknown).
func (w *World) reachingStoreValue(x ssa.Value) ssa.Value {
	ld, ok := x.(*ssa.UnOp)
	if !ok || ld.Op != token.MUL {
		return nil
	}
	a, ok := ld.X.(*ssa.Alloc)
	if !ok || a.Referrers() == nil {
		return nil
	}
	var stores []*ssa.Store
	for _, ref := range *a.Referrers() {
		switch y := ref.(type) {
		case *ssa.Store:
			if y.Addr != ssa.Value(a) {
				return nil // the address itself is stored somewhere
			}
			stores = append(stores, y)
		case *ssa.UnOp, *ssa.DebugRef:
		case *ssa.MakeClosure:
			// only closures that are deferred right away
			if y.Referrers() == nil {
				return nil
			}
			for _, cr := range *y.Referrers() {
				if _, isDefer := cr.(*ssa.Defer); !isDefer {
					if _, isDbg := cr.(*ssa.DebugRef); !isDbg {
						return nil
					}
				}
			}
			// … and that only read the cell (a deferred closure that assigns a named result changes what is returned)
			if cf, isFn := y.Fn.(*ssa.Function); isFn {
				for bi, b := range y.Bindings {
					if b != ssa.Value(a) || bi >= len(cf.FreeVars) || cf.FreeVars[bi].Referrers() == nil {
						continue
					}
					for _, fr := range *cf.FreeVars[bi].Referrers() {
						switch z := fr.(type) {
						case *ssa.UnOp, *ssa.DebugRef:
						case *ssa.Store:
							if z.Addr == ssa.Value(cf.FreeVars[bi]) {
								return nil
							}
						default:
							return nil
						}
					}
				}
			} else {
				return nil
			}
		default:
			return nil
		}
	}
	fn := ld.Parent()
	for _, s := range stores {
		if !instrDominates(s, ld) {
			continue
		}
		last := true
		for _, o := range stores {
			if o == s {
				continue
			}
			if (PathQuery{Fn: fn, Start: []ssa.Instruction{o}, Target: func(i ssa.Instruction) bool { return i == ssa.Instruction(ld) },
				BlockInstr: func(i ssa.Instruction) bool { return i == ssa.Instruction(s) }}).Find().Found {
				last = false
				break
			}
		}
		if last {
			return w.Resolve(s.Val)
		}
	}
	return nil
}
