package main

import (
	"fmt"
	"go/types"
	"sort"
	"strings"

	"golang.org/x/tools/go/ssa"
)

// ---------------------------------------------------------------------------------
// C13, state outside the runner mutex.
//
// The lockset proof covers what the runner mutex guards. Two kinds of state are used by
// several goroutines without it and are checked by ownership rules instead:
//
//  STATELESS COMPONENTS — the data store and the output store are called without the
//  runner lock (the save function releases it before store.Save; task goroutines open
//  writers; the API reads logs) and concurrently. Their production implementations must
//  not write any state reachable from the receiver.
//
//  OWNED APPEND BASE — `x := o.f; x = append(x, …)` without storing back writes into the
//  backing array of o.f whenever it has spare capacity. That is race free only if no other
//  object shares that array: every value ever stored into the field is freshly allocated
//  (or derived from the same field of the same object).

func checkUnguardedComponents(w *World, r *Report) {
	// interfaces the runner calls outside its lock
	var ifaces []*types.Named
	for _, spec := range [][2]string{{"store", "DataStore"}, {"taskctl", "OutputStore"}} {
		if n := w.NamedType(spec[0], spec[1]); n != nil {
			if _, ok := n.Underlying().(*types.Interface); ok {
				ifaces = append(ifaces, n)
			}
		}
	}
	if len(ifaces) < 2 {
		r.Undecided("components.anchors", "store.DataStore / taskctl.OutputStore", "-", "interfaces not found")
		return
	}
	nMethods := 0
	for _, p := range w.Prog.AllPackages() {
		if !w.InModulePkg(p.Pkg) || strings.HasSuffix(p.Pkg.Path(), "/test") {
			continue // package test holds the mocks of the test suite, not production components
		}
		var names []string
		for n := range p.Members {
			names = append(names, n)
		}
		sort.Strings(names)
		for _, name := range names {
			tn, ok := p.Members[name].(*ssa.Type)
			if !ok {
				continue
			}
			named, ok := tn.Type().(*types.Named)
			if !ok {
				continue
			}
			if _, isIface := named.Underlying().(*types.Interface); isIface {
				continue
			}
			impl := ""
			for _, it := range ifaces {
				if types.Implements(types.NewPointer(named), it.Underlying().(*types.Interface)) || types.Implements(named, it.Underlying().(*types.Interface)) {
					impl = it.Obj().Pkg().Name() + "." + it.Obj().Name()
				}
			}
			if impl == "" {
				continue
			}
			r.Anchor("component called outside the runner lock: "+impl, named.Obj().Pkg().Name()+"."+named.Obj().Name())
			// every method of the type (and the helpers they call with the receiver)
			var methods []*ssa.Function
			for _, t := range []types.Type{named, types.NewPointer(named)} {
				ms := w.Prog.MethodSets.MethodSet(t)
				for i := 0; i < ms.Len(); i++ {
					if f := w.Prog.MethodValue(ms.At(i)); f != nil && f.Blocks != nil && f.Synthetic == "" {
						methods = append(methods, f)
					}
				}
			}
			seen := map[*ssa.Function]bool{}
			for _, m := range methods {
				if seen[m] {
					continue
				}
				seen[m] = true
				nMethods++
				bad := w.receiverWrites(m)
				key := FuncName(m) + ": writes no receiver state"
				if len(bad) == 0 {
					r.OK("components.stateless", key, w.Pos(m.Pos()), "no store, map update or pointer-receiver call on state reachable from the receiver: concurrent calls (persist loop, shutdown's final save, API, task goroutines) share nothing mutable")
				} else {
					r.Viol("components.stateless", key, bad[0].pos, impl+" is called without the runner lock and from several goroutines at once, but "+FuncName(m)+" "+bad[0].what+": overlapping calls race on it (data race, corrupted or interleaved content)")
				}
			}
		}
	}
	r.Count("component_methods", nMethods)
	r.Floor("components.stateless", 5)
}

type recvWrite struct {
	pos  string
	what string
}

// receiverWrites lists writes through the receiver of m: stores to its fields (any depth),
// updates of maps held in them, and calls that take the address of one of its fields as a
// pointer receiver/argument (except sync primitives).
func (w *World) receiverWrites(m *ssa.Function) []recvWrite {
	if len(m.Params) == 0 {
		return nil
	}
	recv := m.Params[0]
	var rooted func(v ssa.Value, d int) bool
	rooted = func(v ssa.Value, d int) bool {
		if d > 10 {
			return false
		}
		v = w.Resolve(v)
		switch x := v.(type) {
		case *ssa.Parameter:
			return x == recv
		case *ssa.FieldAddr:
			return rooted(x.X, d+1)
		case *ssa.IndexAddr:
			return rooted(x.X, d+1)
		case *ssa.UnOp:
			if x.Op.String() == "*" {
				return rooted(x.X, d+1)
			}
		case *ssa.Field:
			return rooted(x.X, d+1)
		case *ssa.Lookup:
			return rooted(x.X, d+1)
		case *ssa.Slice:
			return rooted(x.X, d+1)
		}
		return false
	}
	// a write under a mutex of the component itself (a Lock of a sync.Mutex/RWMutex field of the receiver dominates it, with no
	// Unlock of that mutex on the way): the component serialises its own state (usage counters behind their own lock)
	underOwnMutex := func(in ssa.Instruction) bool {
		fn := in.Parent()
		byMutex := map[string][2][]ssa.Instruction{}
		allInstrs(fn, func(x ssa.Instruction) {
			c := callCommonOf(x)
			if c == nil || len(c.Args) == 0 {
				return
			}
			if _, isDefer := x.(*ssa.Defer); isDefer {
				return
			}
			f := c.StaticCallee()
			if f == nil || f.Pkg == nil || f.Pkg.Pkg.Path() != "sync" {
				return
			}
			fa, ok := c.Args[0].(*ssa.FieldAddr)
			if !ok || !rooted(fa, 0) {
				return
			}
			k := w.AP(fa)
			e := byMutex[k]
			switch f.Name() {
			case "Lock":
				e[0] = append(e[0], x)
			case "Unlock":
				e[1] = append(e[1], x)
			}
			byMutex[k] = e
		})
		for _, e := range byMutex {
			locks, unlocks := e[0], e[1]
			dom := false
			for _, l := range locks {
				if instrDominates(l, in) {
					dom = true
				}
			}
			if !dom {
				continue
			}
			if len(unlocks) > 0 && (PathQuery{Fn: fn, Start: unlocks, Target: func(x ssa.Instruction) bool { return x == in },
				BlockInstr: func(x ssa.Instruction) bool {
					for _, l := range locks {
						if l == x {
							return true
						}
					}
					return false
				}}).Find().Found {
				continue
			}
			return true
		}
		return false
	}
	var out []recvWrite
	for _, f := range withClosures(m) {
		allInstrs(f, func(in ssa.Instruction) {
			switch x := in.(type) {
			case *ssa.Store:
				if _, isAlloc := w.resolveAddr(x.Addr).(*ssa.Alloc); !isAlloc && rooted(x.Addr, 0) && !underOwnMutex(in) {
					out = append(out, recvWrite{w.InstrPos(in), "stores to " + w.apAddr(x.Addr)})
				}
			case *ssa.MapUpdate:
				if rooted(x.Map, 0) && !underOwnMutex(in) {
					out = append(out, recvWrite{w.InstrPos(in), "updates the map " + w.AP(x.Map)})
				}
			case ssa.CallInstruction:
				c := x.Common()
				callee := c.StaticCallee()
				for i, a := range c.Args {
					if _, isPtr := a.Type().Underlying().(*types.Pointer); !isPtr {
						continue
					}
					fa, ok := w.Resolve(a).(*ssa.FieldAddr)
					if !ok || !rooted(fa, 0) {
						continue
					}
					if callee != nil && callee.Pkg != nil && (callee.Pkg.Pkg.Path() == "sync" || callee.Pkg.Pkg.Path() == "sync/atomic") {
						continue
					}
					out = append(out, recvWrite{w.InstrPos(in), fmt.Sprintf("hands the address of its field %s to %s (argument %d), which can modify it", w.AP(fa), calleeName(c), i)})
				}
			}
		})
	}
	return out
}

// checkOwnedAppendBase: see the header of this file.
func checkOwnedAppendBase(w *World, r *Report) {
	type site struct {
		fn    *ssa.Function
		call  *ssa.Call
		field FieldRef
	}
	fieldLoad := func(v ssa.Value) (*ssa.FieldAddr, bool) {
		u, ok := w.Resolve(v).(*ssa.UnOp)
		if !ok || u.Op.String() != "*" {
			return nil, false
		}
		fa, ok := w.resolveAddr(u.X).(*ssa.FieldAddr)
		return fa, ok
	}
	var sites []site
	for _, fn := range w.ModFuncs {
		top := fn
		for top.Parent() != nil {
			top = top.Parent()
		}
		if top.Package() != nil && strings.HasSuffix(top.Package().Pkg.Path(), "/test") {
			continue
		}
		allInstrs(fn, func(in ssa.Instruction) {
			c, ok := in.(*ssa.Call)
			if !ok {
				return
			}
			b, ok := c.Call.Value.(*ssa.Builtin)
			if !ok || b.Name() != "append" {
				return
			}
			fa, ok := fieldLoad(c.Call.Args[0])
			if !ok {
				return
			}
			// stored back into the same field of the same base: the object keeps owning its array
			storedBack := false
			if refs := c.Referrers(); refs != nil {
				for _, ref := range *refs {
					if st, ok := ref.(*ssa.Store); ok && st.Val == ssa.Value(c) {
						if fa2, ok := w.resolveAddr(st.Addr).(*ssa.FieldAddr); ok && fa2.Field == fa.Field && w.AP(fa2.X) == w.AP(fa.X) {
							storedBack = true
						}
					}
				}
			}
			if !storedBack {
				sites = append(sites, site{fn, c, fieldOfAddr(fa)})
			}
		})
	}
	r.Count("append_on_field_not_stored_back", len(sites))
	// fresh(v): v is a newly allocated slice nobody else holds
	var fresh func(v ssa.Value, field FieldRef, d int) (bool, string)
	fresh = func(v ssa.Value, field FieldRef, d int) (bool, string) {
		if d > 5 {
			return false, "too deep"
		}
		v = w.Resolve(v)
		switch x := v.(type) {
		case *ssa.Const:
			return x.IsNil(), "nil"
		case *ssa.MakeSlice:
			return true, "make"
		case *ssa.Slice:
			if al, ok := x.X.(*ssa.Alloc); ok && al.Heap || ok {
				_ = al
				return true, "slice literal"
			}
			return fresh(x.X, field, d+1)
		case *ssa.Call:
			if b, ok := x.Call.Value.(*ssa.Builtin); ok && b.Name() == "append" {
				if fa, ok := fieldLoad(x.Call.Args[0]); ok && fieldOfAddr(fa) == field {
					return true, "extends the object's own array"
				}
				return fresh(x.Call.Args[0], field, d+1)
			}
			if f := x.Call.StaticCallee(); f != nil && !w.InModule(f) {
				return true, "result of " + calleeName(&x.Call) + " (a new slice per call)"
			}
			if f := x.Call.StaticCallee(); f != nil && f.Blocks != nil {
				all, why := true, "every result of "+FuncName(f)+" is fresh"
				allInstrs(f, func(in ssa.Instruction) {
					if rt, ok := in.(*ssa.Return); ok && len(rt.Results) > 0 {
						if ok2, w2 := fresh(rt.Results[0], field, d+1); !ok2 {
							all, why = false, FuncName(f)+" can return "+w.AP(rt.Results[0])+" ("+w2+")"
						}
					}
				})
				return all, why
			}
			return false, "result of a dynamic call"
		case *ssa.Phi:
			for _, e := range x.Edges {
				if ok, why := fresh(e, field, d+1); !ok {
					return false, why
				}
			}
			return true, "all alternatives fresh"
		case *ssa.Parameter:
			// every static caller passes a fresh slice
			fn := x.Parent()
			idx := -1
			for i, p := range fn.Params {
				if p == x {
					idx = i
				}
			}
			n := 0
			for _, g := range w.ModFuncs {
				var bad string
				allInstrs(g, func(in ssa.Instruction) {
					if c := callCommonOf(in); c != nil && c.StaticCallee() == fn && idx < len(c.Args) {
						n++
						if ok, why := fresh(c.Args[idx], field, d+1); !ok {
							bad = FuncName(g) + " passes " + w.AP(c.Args[idx]) + " (" + why + ")"
						}
					}
					if mc, ok := in.(*ssa.MakeClosure); ok && mc.Fn == ssa.Value(fn) {
						bad = "the function is used as a value"
					}
				})
				if bad != "" {
					return false, bad
				}
			}
			if n == 0 {
				return false, "parameter of a function without static callers"
			}
			return true, "every caller passes a fresh slice"
		case *ssa.UnOp:
			if fa, ok := fieldLoad(x); ok {
				return false, "the slice held in " + fieldOfAddr(fa).String() + ", which other objects can hold too"
			}
		}
		return false, "not a fresh allocation: " + w.AP(v)
	}
	done := map[FieldRef]bool{}
	for _, s := range sites {
		if done[s.field] {
			continue
		}
		done[s.field] = true
		nSt := 0
		okAll, why := true, ""
		for _, fn := range w.ModFuncs {
			allInstrs(fn, func(in ssa.Instruction) {
				st, ok := in.(*ssa.Store)
				if !ok {
					return
				}
				fa, ok := w.resolveAddr(st.Addr).(*ssa.FieldAddr)
				if !ok || fieldOfAddr(fa) != s.field {
					return
				}
				nSt++
				if ok2, w2 := fresh(st.Val, s.field, 0); !ok2 {
					okAll, why = false, FuncName(fn)+" ("+w.InstrPos(in)+") stores "+w.AP(st.Val)+": "+w2
				}
			})
		}
		r.Check(okAll, "alias.append-base-owned", s.field.String()+": base of an append that is not stored back ("+FuncName(s.fn)+")", w.InstrPos(s.call),
			fmt.Sprintf("each of the %d store(s) to the field stores a freshly allocated slice (or an extension of the object's own): no two objects share the array the append may write into", nSt),
			"append("+w.AP(s.call.Call.Args[0])+", …) writes into the field's backing array whenever it has spare capacity, and the array can be shared: "+why+" — objects used by different goroutines (the tasks of a job run concurrently) then write the same memory without synchronisation")
	}
	if len(sites) == 0 {
		r.OK("alias.append-base-owned", "module: appends onto struct fields", "-", "every append whose base is a struct field stores its result back into that field")
	}
}
