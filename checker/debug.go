package main

import (
	"fmt"
	"golang.org/x/tools/go/ssa"
	"os"
	"strings"
)

var debugHooks []func(w *World)
var depVerdictDebug bool

// debug aids: PRUNNERLINT_DUMP=pkgRel:FuncName prints the enumerated paths of a function,
// PRUNNERLINT_DUMP=roles prints the resolved anchors.
func debugDump(repo string) bool {
	spec := os.Getenv("PRUNNERLINT_DUMP")
	if spec == "" {
		return false
	}
	w, err := loadWorld(repo, BuildConfig{GOOS: "linux", GOARCH: "amd64"}, nil)
	if err != nil {
		fmt.Println(err)
		return true
	}
	for _, h := range debugHooks {
		h(w)
	}
	if spec == "depverdict" {
		return true
	}
	if spec == "roles" {
		ro := resolveRoles(w)
		r := newReport("dbg", w)
		ro.record(r)
		for k, v := range r.Anchors {
			fmt.Printf("%-40s %s\n", k, v)
		}
		fmt.Println("actions:", ro.Actions, "errors:", ro.Errs)
		return true
	}
	parts := strings.SplitN(spec, ":", 2)
	var fnName string
	pkg := ""
	if len(parts) == 2 {
		pkg, fnName = parts[0], parts[1]
	} else {
		fnName = parts[0]
	}
	for _, fn := range w.ModFuncs {
		if FuncName(fn) != fnName && fn.Name() != fnName {
			continue
		}
		_ = pkg
		res := w.EnumPaths(fn, EnumOpts{Inline: os.Getenv("PRUNNERLINT_INLINE") != "", ForceInline: func(f *ssa.Function) bool { return os.Getenv("PRUNNERLINT_INLINE") == "all" }})
		fmt.Printf("== %s: %d paths (truncated=%v pruned=%d)\n", FuncName(fn), len(res.Paths), res.Truncated, res.Pruned)
		for i, p := range res.Paths {
			fmt.Printf("-- path %d end=%s ret=%v blocks=%v\n", i, p.End, p.Ret, p.Blocks)
			for _, ev := range p.Events {
				if ev.Lit != nil {
					fmt.Printf("     if  %s\n", ev.Lit.String())
				} else {
					fmt.Printf("     eff %s\n", ev.Eff.String())
				}
			}
			if p.BackPhi != nil {
				fmt.Printf("     backphi %v\n", p.BackPhi)
			}
		}
	}
	return true
}

func init() {
	debugHooks = append(debugHooks, func(w *World) {
		if os.Getenv("PRUNNERLINT_DUMP") != "depverdict" {
			return
		}
		r := newReport("dbg", w)
		depVerdictDebug = true
		depVerdict(w, r, "x")
	})
}

func init() {
	debugHooks = append(debugHooks, func(w *World) {
		if os.Getenv("PRUNNERLINT_DUMP") != "nonnil" {
			return
		}
		w.nonNilInv = 1
		for _, fn := range w.ModFuncs {
			allInstrs(fn, func(in ssa.Instruction) {
				switch x := in.(type) {
				case *ssa.MapUpdate:
					if w.isJobPtr(x.Value.Type()) && !w.knownNonNil(x.Value, in, 0) {
						fmt.Println("mapupdate", FuncName(fn), w.InstrPos(in), w.AP(x.Value), fmt.Sprintf("%T", w.Resolve(x.Value)))
					}
				case *ssa.Store:
					if _, isIA := x.Addr.(*ssa.IndexAddr); isIA && w.isJobPtr(x.Val.Type()) && !w.knownNonNil(x.Val, in, 0) {
						fmt.Println("store", FuncName(fn), w.InstrPos(in), w.AP(x.Val), fmt.Sprintf("%T", w.Resolve(x.Val)))
					}
				}
			})
		}
		w.nonNilInv = 0
		fmt.Println("invariant:", w.nonNilInvariant())
	})
}
