package main

import (
	"fmt"
	"strings"

	"golang.org/x/tools/go/ssa"
)

// ---------------------------------------------------------------------------------
// Dequeue rules on the path streams of the dequeue function.
//
// The dequeue function's paths are enumerated with every helper spliced in — also the
// dequeue-decision wrapper, if the code has one — so that only the admission function
// stays a call. One path = one iteration of the dequeue loop. The rules then read:
//
//   on every path that calls the start function with job J
//     head-only        J is element 0 of the pipeline's wait list
//     admit-guard      a literal `admission(runner, J.Pipeline | list key, ign) == Start` holds before the call
//                      and that test lies on the loop's cycle (a fresh decision per start)
//     timer-gate       a literal `J.startTimer == nil` holds before the call
//     pop-on-start     the list is popped at the front on the path
//   on every path
//     stop-reasons     every branch literal is one of: list empty, admission ≠ Start, head timer pending, no head
//     independent      wherever the admission is asked and the head's timer is not pending, the
//                      ignore-delay argument evaluates to true (the current definition's delay is
//                      not applied to a job that was queued before)

type dequeuePaths struct {
	fn     *ssa.Function
	res    EnumResult
	admitP string // "…resolveScheduleAction("
}

func (ro *Roles) dequeueStreams(fn *ssa.Function) dequeuePaths {
	w := ro.w
	res := w.EnumPaths(fn, EnumOpts{Inline: true, MaxPaths: 20000,
		ForceInline: func(f *ssa.Function) bool { return f == ro.DequeueDecision },
		Opaque:      func(f *ssa.Function) bool { return f == ro.Admit || f == ro.Start }})
	return dequeuePaths{fn: fn, res: res, admitP: FuncName(ro.Admit) + "("}
}

// startOnPath returns the index of the start call effect on p and the started job's access path.
func (ro *Roles) startOnPath(p *Path) (int, string, *ssa.Call) {
	for i, e := range p.Effects {
		if e.Kind == "call" && e.Callee == ro.Start {
			args := splitArgs(e.Val)
			c, _ := e.In.(*ssa.Call)
			return i, args[len(args)-1], c
		}
	}
	return -1, "", nil
}

// eventIndexOfEffect: position in p.Events of the i-th effect.
func eventIndexOfEffect(p *Path, i int) int {
	n := -1
	for k, ev := range p.Events {
		if ev.Eff != nil {
			n++
			if n == i {
				return k
			}
		}
	}
	return len(p.Events)
}

func (ro *Roles) dequeueLoop(r *Report, which map[string]bool) {
	w := ro.w
	if !ro.need(r, "dequeue", map[string]*ssa.Function{"start function": ro.Start, "admission function": ro.Admit}) {
		return
	}
	startAct := fmt.Sprint(ro.Actions["Start"])
	for _, fn := range ro.Dequeue {
		if fn == ro.Start {
			continue
		}
		fname := FuncName(fn)
		dp := ro.dequeueStreams(fn)
		r.Count("paths", len(dp.res.Paths))
		if dp.res.Truncated || len(dp.res.Paths) == 0 {
			r.Undecided("dequeue.paths", fname, w.Pos(fn.Pos()), "cannot enumerate the dequeue function's paths")
			continue
		}
		type verdict struct {
			ok  bool
			bad string
			pos string
			n   int
		}
		vs := map[string]*verdict{}
		var order []string
		note := func(rule, key string, ok bool, pos, bad string) {
			k := rule + "\x00" + key
			v := vs[k]
			if v == nil {
				v = &verdict{ok: true, pos: pos}
				vs[k] = v
				order = append(order, k)
			}
			v.n++
			if !ok && v.ok {
				v.ok, v.bad, v.pos = false, bad, pos
			}
		}
		nStart := 0
		for _, p := range dp.res.Paths {
			si, job, call := ro.startOnPath(p)
			if si < 0 {
				continue
			}
			nStart++
			pos := w.InstrPos(call)
			evStart := eventIndexOfEffect(p, si)
			listKey := ""
			if i := strings.Index(job, "."+waitListField+"["); i >= 0 {
				rest := job[i+len("."+waitListField+"["):]
				if j := strings.Index(rest, "]"); j >= 0 {
					listKey = rest[:j]
				}
			}
			if which["head-only"] {
				okHead := strings.HasPrefix(job, "recv."+waitListField+"[") && strings.HasSuffix(job, "][0]")
				note("dequeue.head-only", fname+": job started from the wait list", okHead, pos, "the started job is "+job+", not the head (element 0) of the wait list: a job overtakes jobs accepted before it")
			}
			var admitLit, timerLit *Lit
			for k := 0; k < evStart; k++ {
				l := p.Events[k].Lit
				if l == nil {
					continue
				}
				if l.Atom.Op == "==" && strings.HasPrefix(l.Atom.L, dp.admitP) && l.Atom.R == startAct && l.Val {
					admitLit = l
				}
				if l.Atom.Op == "==" && l.Atom.L == job+".startTimer" && l.Atom.R == "nil" && l.Val {
					timerLit = l
				}
			}
			if which["admit-guard"] {
				if admitLit == nil {
					note("dequeue.admit-guard", fname+": start only on a fresh Start decision", false, pos, "the start call is reachable on a path without a `decision == Start` literal ("+p.LitString()+"): a queued job is started although no slot is free")
				} else {
					// fresh: the test (or the call of the helper that contains it) lies on the cycle from the start call back to itself
					ats := ro.liftAll(fn, admitLit.At)
					isAt := func(x ssa.Instruction) bool {
						for _, a := range ats {
							if a == x {
								return true
							}
						}
						return false
					}
					fresh := len(ats) > 0 && call != nil && !(PathQuery{Fn: fn, Start: []ssa.Instruction{call}, Target: func(x ssa.Instruction) bool { return x == ssa.Instruction(call) },
						BlockInstr: isAt,
						// an If of the function itself ends its block: block the block's out-edges instead
						BlockEdge: func(b *ssa.BasicBlock, s int) bool { return len(b.Instrs) > 0 && isAt(b.Instrs[len(b.Instrs)-1]) }}.Find().Found)
					note("dequeue.admit-guard", fname+": start only on a fresh Start decision", fresh, pos, "the `decision == Start` test is not re-evaluated between two starts of the loop: the second job is started on a stale decision")
					args := splitArgs(strings.TrimSuffix(strings.TrimPrefix(admitLit.Atom.L, dp.admitP), ")"))
					// (runner, pipeline of the job | list key, [current definition of that pipeline,] ignore)
					okSame := len(args) >= 3 && args[0] == "recv" && (args[1] == job+".Pipeline" || listKey != "" && args[1] == listKey)
					for i := 2; i < len(args)-1; i++ {
						if args[i] != "recv.defs.Pipelines["+args[1]+"]" {
							okSame = false
						}
					}
					note("dequeue.decision-for-head", fname+": decision is about the started job", okSame, pos, "the decision is computed for "+admitLit.Atom.L+" but "+job+" is started")
				}
			}
			if which["timer-gate"] {
				note("dequeue.timer-gate", fname+": no start while the delay timer is pending", timerLit != nil, pos, "the start call is reachable on a path without the `startTimer == nil` test of the started job ("+p.LitString()+"): a delayed job starts before its delay has passed")
			}
			if which["pop-on-start"] {
				popped := false
				for _, e := range p.Effects {
					if e.Kind != "mapupdate" || !strings.HasPrefix(e.Target, "recv."+waitListField+"[") {
						continue
					}
					key := strings.TrimSuffix(strings.TrimPrefix(e.Target, "recv."+waitListField+"["), "]")
					if e.Val == "recv."+waitListField+"["+key+"][1:]" {
						popped = true
					}
				}
				note("dequeue.pop-on-start", fname+": started job leaves the wait list", popped, pos, "the started job is not popped from the front of the wait list on the path that starts it: it stays queued and is started again")
			}
		}
		if nStart == 0 {
			r.Viol("dequeue.admit-guard", fname+": start call", w.Pos(fn.Pos()), "the dequeue function has no path that starts a job")
		}
		if which["stop-reasons"] {
			okStop, why := true, ""
			for _, p := range dp.res.Paths {
				_, job, _ := ro.startOnPath(p)
				for _, l := range p.Lits {
					a := l.Atom
					switch {
					case a.Op == "<=" && strings.HasPrefix(a.L, "len(") && a.R == "0", a.Op == "<" && a.L == "0" && strings.HasPrefix(a.R, "len("):
					case a.Op == "==" && strings.HasPrefix(a.L, "len(") && a.R == "0":
					case a.Op == "==" && strings.HasPrefix(a.L, dp.admitP) && a.R == startAct:
					case a.Op == "==" && strings.HasSuffix(a.L, ".startTimer") && a.R == "nil":
					case a.Op == "==" && a.R == "nil" && (a.L == job || strings.HasSuffix(a.L, "][0]") && strings.Contains(a.L, waitListField)):
						// "no head": the (non-nil by construction) head pointer compared with nil
					default:
						okStop = false
						why = a.String()
					}
				}
			}
			note("dequeue.stop-reasons", fname+": why the loop stops", okStop, w.Pos(fn.Pos()), "the dequeue loop has another branch ("+why+"): a stop reason that no event re-triggers can strand the queue")
		}
		for _, k := range order {
			v := vs[k]
			parts := strings.SplitN(k, "\x00", 2)
			if v.ok {
				r.OK(parts[0], parts[1], v.pos, fmt.Sprintf("holds on all %d path(s) where it applies (helpers spliced in)", v.n))
			} else {
				r.Viol(parts[0], parts[1], v.pos, v.bad)
			}
		}
	}
}

// dequeueIndependent: see the header of this file ("independent").
func (ro *Roles) dequeueIndependent(r *Report, rule string) {
	w := ro.w
	if !ro.need(r, rule, map[string]*ssa.Function{"admission function": ro.Admit, "start function": ro.Start}) {
		return
	}
	n, asked := 0, 0
	for _, fn := range ro.Dequeue {
		if fn == ro.Start {
			continue
		}
		fname := FuncName(fn)
		dp := ro.dequeueStreams(fn)
		if dp.res.Truncated || len(dp.res.Paths) == 0 {
			r.Undecided(rule, fname+": composition with the admission table", w.Pos(fn.Pos()), "cannot enumerate the dequeue function's paths")
			continue
		}
		bad := ""
		for _, p := range dp.res.Paths {
			for _, e := range p.Effects {
				if e.Kind != "call" || e.Callee != ro.Admit {
					continue
				}
				asked++
				args := splitArgs(e.Val)
				if len(args) < 3 {
					bad = "the admission function is called with " + e.Val
					continue
				}
				// an extra argument may hand over the current definition of the same pipeline
				for _, a := range args[2 : len(args)-1] {
					if a != "recv.defs.Pipelines["+args[1]+"]" {
						bad = "the admission function is called with " + e.Val
					}
				}
				args = []string{args[0], args[1], args[len(args)-1]}
				// the job the question is about: "<J>.Pipeline", else the head of the list of that key
				job := ""
				if strings.HasSuffix(args[1], ".Pipeline") {
					job = strings.TrimSuffix(args[1], ".Pipeline")
				} else {
					job = "recv." + waitListField + "[" + args[1] + "][0]"
				}
				vars := map[string]string{job + ".StartDelay": "jobdelay", job + ".startTimer": "timer"}
				for _, jd := range []int64{0, 5} {
					env := map[string]int64{"jobdelay": jd, "timer": 0}
					n++
					r.Count("valuations", 1)
					if ok, _, _ := evalPath(p, vars, env, true); !ok {
						continue // this path is not taken by a head without pending timer and that delay
					}
					ign, err := evalAPExpr(args[2], vars, env)
					if err != "" {
						r.Undecided(rule, fname+": composition with the admission table", w.InstrPos(e.In), "cannot evaluate the ignore-delay argument "+args[2]+": "+err)
						return
					}
					if ign != ro.modeValue(true) {
						bad = fmt.Sprintf("for a queued job with no pending timer and own delay %d the ignore-delay argument is %s = false: the decision then consults the CURRENT definition's start_delay, and a reload that introduces a delay makes the admission answer Queue forever for jobs queued before it (they are stranded)", jd, args[2])
					}
				}
			}
		}
		r.Check(bad == "", rule, fname+": composition with the admission table", w.Pos(fn.Pos()),
			"wherever the dequeue path asks the admission function about a head whose timer is not pending, ignoreStartDelay evaluates to true (own delay 0 and > 0), so by the admission table Start ⇔ running < concurrency whatever the current definition's delay/limit/strategy", bad)
	}
	if asked == 0 {
		r.Viol(rule, "dequeue path: admission question", "-", "the dequeue path never asks the admission function")
	}
	_ = n
}
