package main

import (
	"fmt"
	"go/ast"
	"go/constant"
	"go/types"
	"strings"

	"golang.org/x/tools/go/ssa"
)

func init() {
	register(&PropDef{
		ID:          "C14",
		Level:       "proof",
		Explanation: "Abstract interpretation of the chi router construction: every endpoint registered on the router tree that the server serves (verbs, Handle, Mount, NotFound …; discovered from the construction code, so a future route is included) has, in chi's middleware semantics, jwtauth.Verifier(tokenAuth) and later jwtauth.Authenticator in its effective stack, tokenAuth being the constructor's parameter; the only exception is a Mount of middleware.Profiler() that is control-dependent on the enableProfiling parameter. Also proved: Use precedes registrations in every inline group; the served http.Handler is that router and the only listener; tokenAuth is jwtauth.New(\"HS256\", []byte(validated secret), nil); the secret comes only from a configuration that passed validate()==nil (which rejects < 16 characters, table over lengths) or was generated with ≥ 16 characters; the profiling flag defaults to false. In the loaded jwtauth source: Authenticator reaches next.ServeHTTP only past err==nil, token!=nil and Validate==nil and answers 401 otherwise; VerifyToken returns a nil error only after Decode and Validate succeeded.",
		Trusted: []string{
			"chi v5 middleware stack semantics (mux.go: inline muxes wrap endpoints with their stack at registration; Route mounts through the enclosing stack)",
			"lestrrat-go/jwx signature verification for the configured algorithm and exp/nbf/iat validation in jwt.Validate",
			"net/http serves exactly the configured Handler",
		},
		NotDecided: []string{"the library's rejection of each malformed-token class", "absence of side effects inside the middlewares of third parties"},
		Check:      checkC14,
	})
}

func checkC14(w *World, r *Report) {
	sp := w.Pkg("server")
	if sp == nil {
		r.Undecided("anchors", "package server", "-", "not found")
		return
	}
	// anchor: router constructor
	var ctor *ssa.Function
	for _, fn := range w.ModFuncs {
		if fn.Parent() != nil || fn.Package() != sp {
			continue
		}
		if len(findCalls(fn, func(n string, _ *ssa.CallCommon) bool {
			return strings.HasSuffix(n, "go-chi/chi/v5.NewRouter") || strings.HasSuffix(n, "go-chi/chi/v5.NewMux")
		})) > 0 {
			if ctor != nil {
				r.Undecided("anchors", "router constructor", w.Pos(fn.Pos()), "more than one function constructs a chi router: "+FuncName(ctor)+", "+FuncName(fn))
				return
			}
			ctor = fn
		}
	}
	if ctor == nil {
		r.Undecided("anchors", "router constructor", "-", "no function in package server calls chi.NewRouter")
		return
	}
	r.Anchor("router constructor (calls chi.NewRouter)", FuncName(ctor))
	// parameters by role
	tokenAP, profAP := "", ""
	tokenIdx, profIdx := -1, -1
	for i, p := range ctor.Params {
		if strings.HasSuffix(p.Type().String(), "jwtauth/v5.JWTAuth") {
			tokenAP, tokenIdx = w.AP(p), i
		}
		if b, ok := p.Type().Underlying().(*types.Basic); ok && b.Kind() == types.Bool {
			profAP, profIdx = w.AP(p), i
		}
	}
	if tokenAP == "" {
		r.Viol("route.protected", FuncName(ctor)+": token parameter", w.Pos(ctor.Pos()), "the router constructor takes no *jwtauth.JWTAuth: routes cannot be protected with the configured secret")
		return
	}

	ri := &routerInterp{w: w}
	ri.interp(ctor, map[ssa.Value]*routerAbs{}, 0)
	for i, p := range ri.problems {
		r.Undecided("router.interp", FuncName(ctor)+": "+p, ri.probPos[i], p)
	}
	r.Count("endpoints", len(ri.endpoints))
	nProt, nExc := 0, 0
	for _, ep := range ri.endpoints {
		key := ep.Method + " " + ep.Pattern
		vi, ai := -1, -1
		vArg := ""
		for i, m := range ep.Stack {
			if strings.HasPrefix(m.Label, "jwtauth.Verifier(") && vi < 0 {
				vi = i
				vArg = strings.TrimSuffix(strings.TrimPrefix(m.Label, "jwtauth.Verifier("), ")")
			}
			// Verifier(ja) is Verify(ja, TokenFromHeader, TokenFromCookie) (rule lib.verifier): the
			// general form with its own finder list verifies with the same JWTAuth
			if strings.HasPrefix(m.Label, "jwtauth.Verify(") && vi < 0 {
				vi = i
				vArg = strings.TrimSuffix(strings.TrimPrefix(m.Label, "jwtauth.Verify("), ")")
				if j := strings.Index(vArg, ","); j >= 0 {
					vArg = vArg[:j]
				}
			}
			if m.Label == "jwtauth.Authenticator" && vi >= 0 && ai < 0 {
				ai = i
			}
		}
		protected := vi >= 0 && ai > vi && vArg == tokenAP
		if protected {
			nProt++
			r.OK("route.protected", key, ep.Pos, "effective stack "+fmtStack(ep.Stack)+" → "+ep.Handler)
			continue
		}
		// exception: profiler mount behind the enableProfiling parameter
		isProfiler := ep.Handler == "middleware.Profiler()"
		guarded := false
		for _, g := range ep.Guards {
			if profAP != "" && g == profAP {
				guarded = true
			}
		}
		if ep.Method == "Mount" && isProfiler && guarded {
			nExc++
			r.OK("route.profiler-exception", key, ep.Pos, "unauthenticated by design: Mount of middleware.Profiler() control-dependent on parameter "+profAP+" (enableProfiling); stack "+fmtStack(ep.Stack))
			continue
		}
		why := "no jwtauth.Verifier/Authenticator pair in its effective stack " + fmtStack(ep.Stack)
		switch {
		case vi >= 0 && ai < 0:
			why = "Verifier without a later Authenticator in its stack " + fmtStack(ep.Stack) + ": tokens are parsed but never enforced"
		case vi >= 0 && vArg != tokenAP:
			why = "Verifier uses " + vArg + ", not the constructor's tokenAuth parameter " + tokenAP
		case isProfiler && !guarded:
			why = "profiling routes are mounted without the enableProfiling guard (guards: " + strings.Join(ep.Guards, ",") + ")"
		}
		r.Viol("route.protected", key, ep.Pos, fmt.Sprintf("endpoint %s → %s is served without authentication: %s", key, ep.Handler, why))
	}
	for _, p := range ri.lateUse {
		r.Viol("router.use-order", FuncName(ctor)+": Use after a registration", p, "Use is called on a mux after a route was registered on it: chi panics at construction, and earlier routes of an inline group are not wrapped")
	}
	if len(ri.lateUse) == 0 {
		r.OK("router.use-order", FuncName(ctor)+": Use before registrations", w.Pos(ctor.Pos()), "every Use precedes the registrations of its mux")
	}
	if nProt < 6 {
		r.Viol("floor", "protected endpoints", "-", fmt.Sprintf("%d protected endpoints found, floor confirmed by hand is 6", nProt))
	}

	checkServedHandler(w, r, ctor, ri)
	checkTokenWiring(w, r, ctor, tokenIdx, profIdx)
	checkJwtauthLibrary(w, r)
	r.Floor("route.", 7)
	r.Floor("served", 4)
	r.Floor("secret", 5)
	r.Floor("lib", 3)
}

// ---------------------------------------------------------------------------------

func checkServedHandler(w *World, r *Report, ctor *ssa.Function, ri *routerInterp) {
	// the root router is stored into a field of the returned server value
	storedField := ""
	for _, in := range ri.served {
		if st, ok := in.(*ssa.Store); ok {
			if fa, ok := w.resolveAddr(st.Addr).(*ssa.FieldAddr); ok {
				storedField = fieldOfAddr(fa).String()
				r.OK("served.router-stored", FuncName(ctor)+": router → "+storedField, w.InstrPos(in), "the constructed router is stored as the server's handler")
			}
		}
	}
	if storedField == "" {
		r.Viol("served.router-stored", FuncName(ctor)+": router value", w.Pos(ctor.Pos()), "the constructed router is not stored in the returned server: what is served is not the analysed router")
		return
	}
	// every store to that field is in the constructor (nobody swaps the handler later)
	for _, fn := range w.ModFuncs {
		allInstrs(fn, func(in ssa.Instruction) {
			if st, ok := in.(*ssa.Store); ok {
				if fa, ok := w.resolveAddr(st.Addr).(*ssa.FieldAddr); ok && fieldOfAddr(fa).String() == storedField {
					if fn != ctor {
						r.Viol("served.router-stored", FuncName(fn)+": store to "+storedField, w.InstrPos(in), "the served handler is replaced outside the router constructor")
					}
				}
			}
		})
	}
	// ServeHTTP of the server type delegates to that field
	var serve *ssa.Function
	for _, fn := range w.ModFuncs {
		if fn.Package() == ctor.Package() && fn.Parent() == nil && fn.Name() == "ServeHTTP" && fn.Signature.Recv() != nil {
			serve = fn
		}
	}
	if serve == nil {
		r.Viol("served.delegates", "server.ServeHTTP", "-", "the server type has no ServeHTTP")
	} else {
		ok := false
		n := 0
		allInstrs(serve, func(in ssa.Instruction) {
			if c := callCommonOf(in); c != nil && !isLogCall(c) {
				n++
				if c.IsInvoke() && c.Method.Name() == "ServeHTTP" && strings.HasSuffix(w.AP(c.Value), "."+strings.SplitN(storedField, ".", 2)[1]) {
					ok = true
				}
			}
		})
		r.Check(ok && n == 1, "served.delegates", FuncName(serve), w.Pos(serve.Pos()), "ServeHTTP only delegates to the stored router", "ServeHTTP does not (only) delegate to the stored router: requests can bypass the analysed stack")
	}
	// the HTTP listener of the module serves the constructor's result, and there is no other listener
	nListen := 0
	for _, fn := range w.ModFuncs {
		for _, ci := range findCalls(fn, func(n string, _ *ssa.CallCommon) bool {
			return strings.HasPrefix(n, "net/http.") && (strings.Contains(n, "ListenAndServe") || strings.HasSuffix(n, ".Serve") || strings.HasSuffix(n, ".ServeTLS") ||
				n == "net/http.Handle" || n == "net/http.HandleFunc")
		}) {
			nListen++
			c := ci.Common()
			n := calleeName(c)
			key := FuncName(fn) + ": " + n
			if !strings.HasPrefix(n, "net/http.(Server).") {
				r.Viol("served.single-listener", key, w.InstrPos(ci), "package-level net/http serving (DefaultServeMux) is not covered by the router's middleware")
				continue
			}
			// receiver: a local http.Server literal whose Handler field is the constructor's result
			srvAddr := w.resolveAddr(c.Args[0])
			okH := false
			desc := "Handler not set from the router constructor"
			if al, ok := srvAddr.(*ssa.Alloc); ok && al.Referrers() != nil {
				for _, ref := range *al.Referrers() {
					fa, ok := ref.(*ssa.FieldAddr)
					if !ok || fieldName(fa.X.Type(), fa.Field) != "Handler" || fa.Referrers() == nil {
						continue
					}
					for _, rr := range *fa.Referrers() {
						if st, ok := rr.(*ssa.Store); ok && st.Addr == ssa.Value(fa) {
							v := w.Resolve(st.Val)
							if call, ok := v.(*ssa.Call); ok && call.Call.StaticCallee() == ctor {
								okH = true
							} else {
								desc = "Handler is " + w.AP(st.Val)
							}
						}
					}
				}
			}
			r.Check(okH, "served.single-listener", key, w.InstrPos(ci), "listens with Handler = result of "+FuncName(ctor), desc+": the listener serves something else than the analysed router")
		}
	}
	r.Check(nListen == 1, "served.listener-count", "module: HTTP listeners", "-", "exactly one HTTP listener in the module", fmt.Sprintf("%d HTTP listeners/serving calls in the module (expected exactly 1)", nListen))
}

// ---------------------------------------------------------------------------------

func checkTokenWiring(w *World, r *Report, ctor *ssa.Function, tokenIdx, profIdx int) {
	// call sites of the constructor in the module
	n := 0
	for _, fn := range w.ModFuncs {
		for _, ci := range findCalls(fn, func(_ string, c *ssa.CallCommon) bool { return c.StaticCallee() == ctor }) {
			n++
			c := ci.Common()
			key := FuncName(fn) + ": " + FuncName(ctor) + "(…)"
			pos := w.InstrPos(ci)
			tv := w.Resolve(c.Args[tokenIdx])
			call, ok := tv.(*ssa.Call)
			// a module helper whose only result is jwtauth.New(…): look at that call with the
			// helper's parameters bound to the arguments
			if ok && !strings.HasSuffix(calleeName(&call.Call), "go-chi/jwtauth/v5.New") {
				if h := call.Call.StaticCallee(); h != nil && h.Blocks != nil && w.InModule(h) {
					var inner *ssa.Call
					nret := 0
					allInstrs(h, func(in ssa.Instruction) {
						if rt, ok := in.(*ssa.Return); ok && rt.Block() != h.Recover && len(rt.Results) == 1 {
							nret++
							inner, _ = w.Resolve(rt.Results[0]).(*ssa.Call)
						}
					})
					if nret == 1 && inner != nil && strings.HasSuffix(calleeName(&inner.Call), "go-chi/jwtauth/v5.New") {
						penv := map[*ssa.Parameter]ssa.Value{}
						for i, p := range h.Params {
							if i < len(call.Call.Args) {
								penv[p] = w.Resolve(call.Call.Args[i])
							}
						}
						saved := w.paramEnv
						w.paramEnv = penv
						defer func() { w.paramEnv = saved }()
						call = inner
					}
				}
			}
			if !ok || !strings.HasSuffix(calleeName(&call.Call), "go-chi/jwtauth/v5.New") {
				r.Viol("secret.token-auth", key, pos, "tokenAuth is "+w.AP(c.Args[tokenIdx])+", not jwtauth.New(…)")
				continue
			}
			a := call.Call.Args
			alg, _ := a[0].(*ssa.Const)
			algOK := alg != nil && alg.Value != nil && constant.StringVal(alg.Value) == "HS256"
			r.Check(algOK, "secret.algorithm", key, w.InstrPos(call), "algorithm is the constant \"HS256\"", "algorithm is "+w.AP(a[0])+", not the constant \"HS256\"")
			verifyNil := isNilConst(w.Resolve(a[2]))
			r.Check(verifyNil, "secret.verify-key", key, w.InstrPos(call), "verify key is nil: tokens are verified with the sign key (the secret)", "a separate verify key "+w.AP(a[2])+" is configured: tokens are not verified with the configured secret")
			// sign key: []byte(conf.JWTSecret)
			sk := w.Resolve(a[1])
			var secretSrc ssa.Value
			if cv, ok := sk.(*ssa.Convert); ok {
				secretSrc = w.Resolve(cv.X)
			}
			secretAP := ""
			if secretSrc != nil {
				secretAP = w.AP(secretSrc)
			}
			okSecret := strings.HasSuffix(secretAP, ".JWTSecret")
			r.Check(okSecret, "secret.sign-key", key, w.InstrPos(call), "sign key is []byte("+secretAP+")", "sign key is "+w.AP(a[1])+", not the configured JWT secret")
			if okSecret {
				checkSecretProvenance(w, r, fn, secretSrc)
			}
			// profiling flag
			if profIdx >= 0 {
				pv := w.Resolve(c.Args[profIdx])
				flagName := ""
				if pc, ok := pv.(*ssa.Call); ok && strings.HasSuffix(calleeName(&pc.Call), "cli/v2.(Context).Bool") {
					if k, ok := pc.Call.Args[1].(*ssa.Const); ok && k.Value != nil {
						flagName = constant.StringVal(k.Value)
					}
				}
				if flagName == "" {
					r.Check(isBoolConst(pv, false), "secret.profiling-default", key, pos, "profiling is the constant false", "enableProfiling is "+w.AP(c.Args[profIdx])+": neither a CLI bool flag nor the constant false")
				} else {
					def, found := w.boolFlagDefault(flagName)
					r.Check(found && !def, "secret.profiling-default", key+": flag --"+flagName, pos, "profiling comes from the bool flag --"+flagName+" whose declared default is false", fmt.Sprintf("bool flag --%s: declared=%v default=%v — profiling (unauthenticated) would be on unless switched off", flagName, found, def))
				}
			}
		}
	}
	if n == 0 {
		r.Viol("secret.token-auth", "module: call of "+FuncName(ctor), "-", "the router constructor is never called")
	}
	checkRandomSource(w, r)
	// validate table
	v := w.FuncByRole("config", "Config.validate", func(f *ssa.Function) bool { return recvIs(f, "Config") && sigHas(f, nil, []string{"error"}) })
	if v == nil {
		r.Undecided("secret.validate-table", "config.Config.validate", "-", "validation function not found")
		return
	}
	res := w.EnumPaths(v, EnumOpts{})
	r.Count("paths", len(res.Paths))
	vars := map[string]string{"recv.JWTSecret": "len", "len(recv.JWTSecret)": "len"}
	bad := ""
	for _, l := range []int64{0, 1, 15, 16, 17, 32, 64} {
		r.Count("valuations", 1)
		p, why := selectPath(res.Paths, vars, map[string]int64{"len": l})
		if p == nil {
			bad = fmt.Sprintf("len=%d: %s", l, why)
			break
		}
		gotErr := len(p.Ret) == 1 && p.Ret[0] != "nil"
		if gotErr != (l < 16) {
			bad = fmt.Sprintf("a secret of length %d is %s", l, map[bool]string{true: "rejected", false: "accepted"}[gotErr])
			break
		}
	}
	r.Check(bad == "", "secret.validate-table", FuncName(v)+": length table", w.Pos(v.Pos()), "error ⇔ len(secret) < 16 on the order types of the length (0, 1, 15, 16, 17, 32, 64)", "validation disagrees with 'at least 16 characters': "+bad)
}

// checkSecretProvenance: the config value whose JWTSecret is used comes from a function all
// of whose success returns passed validate()==nil or were generated with ≥ 16 characters.
func checkSecretProvenance(w *World, r *Report, user *ssa.Function, secretLoad ssa.Value) {
	// secretLoad = *(&conf.JWTSecret); conf = extract(call, 0)
	ld, ok := secretLoad.(*ssa.UnOp)
	if !ok {
		r.Undecided("secret.provenance", FuncName(user)+": secret source", "-", "unexpected shape "+w.AP(secretLoad))
		return
	}
	fa, ok := w.resolveAddr(ld.X).(*ssa.FieldAddr)
	if !ok {
		r.Undecided("secret.provenance", FuncName(user)+": secret source", "-", "unexpected shape "+w.AP(secretLoad))
		return
	}
	src := w.Resolve(fa.X)
	var producer *ssa.Function
	for i := 0; i < 4; i++ {
		ex, ok := src.(*ssa.Extract)
		if !ok {
			break
		}
		call, ok := ex.Tuple.(*ssa.Call)
		if !ok || call.Call.StaticCallee() == nil {
			break
		}
		producer = call.Call.StaticCallee()
		// follow thin wrappers (return f(...))
		inner := thinWrapperTarget(w, producer)
		if inner == nil {
			break
		}
		producer = inner
		break
	}
	if producer == nil || !w.InModule(producer) {
		r.Undecided("secret.provenance", FuncName(user)+": secret source", w.InstrPos(ld), "the configuration holding the secret is "+w.AP(fa.X)+": cannot resolve the function that produced it")
		return
	}
	r.Anchor("configuration producer", FuncName(producer))
	checkConfigProducer(w, r, producer, 0)
}

func thinWrapperTarget(w *World, fn *ssa.Function) *ssa.Function {
	if fn == nil || fn.Blocks == nil {
		return nil
	}
	var target *ssa.Function
	n := 0
	allInstrs(fn, func(in ssa.Instruction) {
		if c, ok := in.(*ssa.Call); ok && !isLogCall(&c.Call) {
			if f := c.Call.StaticCallee(); f != nil && w.InModule(f) && f.Signature.Results().Len() == fn.Signature.Results().Len() {
				target = f
				n++
			}
		}
	})
	if n == 1 && len(fn.Blocks) == 1 {
		return target
	}
	return nil
}

func checkConfigProducer(w *World, r *Report, fn *ssa.Function, depth int) {
	validate := w.FuncByRole("config", "Config.validate", func(f *ssa.Function) bool { return recvIs(f, "Config") && sigHas(f, nil, []string{"error"}) })
	res := w.EnumPaths(fn, EnumOpts{})
	r.Count("paths", len(res.Paths))
	if res.Truncated {
		r.Undecided("secret.provenance", FuncName(fn), w.Pos(fn.Pos()), "path cap exceeded")
		return
	}
	seen := map[string]bool{}
	for _, p := range res.Paths {
		if p.End != "return" || len(p.Ret) != 2 {
			continue
		}
		if p.Ret[1] != "nil" {
			// `return f(...)`: both results come from one call of a module function
			e0, ok0 := p.RetVals[0].(*ssa.Extract)
			e1, ok1 := p.RetVals[1].(*ssa.Extract)
			if !(ok0 && ok1 && e0.Tuple == e1.Tuple && e0.Index == 0 && e1.Index == 1) {
				continue
			}
		}
		v := p.RetVals[0]
		key := FuncName(fn) + ": success return of " + p.Ret[0]
		if seen[key] {
			continue
		}
		pos := w.Pos(fn.Pos())
		if len(p.Lits) > 0 && p.Lits[len(p.Lits)-1].At != nil {
			pos = w.InstrPos(p.Lits[len(p.Lits)-1].At)
		}
		// (iii) delegated to another producer
		if ex, ok := v.(*ssa.Extract); ok {
			if call, ok := ex.Tuple.(*ssa.Call); ok && call.Call.StaticCallee() != nil && w.InModule(call.Call.StaticCallee()) && depth < 3 {
				seen[key] = true
				r.OK("secret.provenance", key, pos, "delegates to "+FuncName(call.Call.StaticCallee()))
				checkConfigProducer(w, r, call.Call.StaticCallee(), depth+1)
				continue
			}
		}
		al, ok := v.(*ssa.Alloc)
		if !ok {
			seen[key] = true
			r.Viol("secret.provenance", key, pos, "returns a configuration of unknown origin without validating it")
			continue
		}
		// (i) validated on this path
		validated := false
		for _, l := range p.Lits {
			if !(l.Atom.Op == "==" && l.Atom.R == "nil" && l.Val) {
				continue
			}
			ifi, ok := l.At.(*ssa.If)
			if !ok {
				continue
			}
			var call *ssa.Call
			cond := ifi.Cond
			if u, ok := cond.(*ssa.UnOp); ok {
				cond = u.X
			}
			if b, ok := cond.(*ssa.BinOp); ok {
				for _, opnd := range []ssa.Value{b.X, b.Y} {
					if c, ok := w.Resolve(opnd).(*ssa.Call); ok {
						call = c
					}
				}
			}
			if call == nil || validate == nil || call.Call.StaticCallee() != validate {
				continue
			}
			if arg, ok := call.Call.Args[0].(*ssa.UnOp); ok && w.resolveAddr(arg.X) == ssa.Value(al) {
				validated = true
			}
			// (a pointer receiver gets the cell itself)
			if w.resolveAddr(call.Call.Args[0]) == ssa.Value(al) {
				validated = true
			}
		}
		if validated {
			// report once per returned value only if all paths agree: record failures eagerly
			if !seen[key+"#ok"] {
				seen[key+"#ok"] = true
			}
			continue
		}
		// (ii) generated: JWTSecret stored from GenerateRandomString(n) with constant n ≥ 16
		gen := false
		if al.Referrers() != nil {
			for _, ref := range *al.Referrers() {
				fa, ok := ref.(*ssa.FieldAddr)
				if !ok || fieldName(fa.X.Type(), fa.Field) != "JWTSecret" || fa.Referrers() == nil {
					continue
				}
				for _, rr := range *fa.Referrers() {
					st, ok := rr.(*ssa.Store)
					if !ok || st.Addr != ssa.Value(fa) {
						continue
					}
					if ex, ok := w.Resolve(st.Val).(*ssa.Extract); ok {
						if gc, ok := ex.Tuple.(*ssa.Call); ok && strings.HasSuffix(calleeName(&gc.Call), "helper.GenerateRandomString") {
							if k, ok := gc.Call.Args[0].(*ssa.Const); ok && k.Value != nil {
								if n, ok := constant.Int64Val(k.Value); ok && n >= 16 {
									for _, l := range p.Lits {
										if strings.Contains(l.Atom.L, "GenerateRandomString(") && strings.HasSuffix(l.Atom.L, "#1") && l.Atom.R == "nil" && l.Val {
											gen = true
										}
									}
								}
							}
						}
					}
				}
			}
		}
		if gen {
			seen[key+"#ok"] = true
			continue
		}
		seen[key] = true
		r.Viol("secret.provenance", key, pos, "a configuration is returned as success on a path without validate()==nil for it and without a generated ≥16-character secret ("+p.LitString()+"): a short or empty secret can be used to sign tokens")
	}
	for k := range seen {
		if strings.HasSuffix(k, "#ok") && !seen[strings.TrimSuffix(k, "#ok")] {
			r.OK("secret.provenance", strings.TrimSuffix(k, "#ok"), w.Pos(fn.Pos()), "every success path returning this configuration took validate()==nil for it, or generated a ≥16-character secret whose error was tested")
		}
	}
}

// checkRandomSource: the generated secret is random. The generator hands out its string with a nil error only behind the
// err == nil edge of crypto/rand.Read (a failed read leaves the buffer zeroed: a secret everybody knows).
func checkRandomSource(w *World, r *Report) {
	gen := w.FuncByName("helper", "GenerateRandomString")
	if gen == nil {
		r.Undecided("secret.random-source", "helper.GenerateRandomString", "-", "not found")
		return
	}
	pr := w.EnumPaths(gen, EnumOpts{Inline: true, MaxPaths: 2000})
	ok, nSucc, detail := true, 0, ""
	for _, p := range pr.Paths {
		if p.End != "return" || len(p.Ret) != 2 {
			continue
		}
		ret1 := p.Ret[1]
		if inner := unwrapErrAP(ret1); inner != ret1 {
			for _, l := range p.Lits {
				if l.Val && l.Atom.Op == "==" && l.Atom.L == inner && l.Atom.R == "nil" {
					ret1 = "nil"
				}
			}
		}
		if ret1 != "nil" {
			continue
		}
		read := ""
		for _, e := range p.Effects {
			if e.Kind == "call" && (e.Target == "crypto/rand.Read" || strings.HasSuffix(e.Target, "crypto/rand.Read") || e.Target == "io.ReadFull") {
				read = e.Target + "(" + e.Val + ")"
			}
		}
		good := false
		for _, l := range p.Lits {
			if read != "" && l.Atom.Op == "==" && l.Atom.L == read+"#1" && l.Atom.R == "nil" && l.Val {
				good = true
			}
			// a retry loop: the error tested behind the loop is the result of the last read (or the initial nil, which it
			// cannot be on a path that executed a read) — `φ(read#1|nil) == nil`
			if read != "" && l.Atom.Op == "==" && l.Atom.R == "nil" && l.Val && strings.HasPrefix(l.Atom.L, "φ(") && strings.HasSuffix(l.Atom.L, ")") {
				alts, has, only := strings.Split(l.Atom.L[len("φ("):len(l.Atom.L)-1], "|"), false, true
				for _, a := range alts {
					if a == read+"#1" {
						has = true
					} else if a != "nil" {
						only = false
					}
				}
				if has && only {
					good = true
				}
			}
		}
		if good {
			nSucc++
		} else {
			ok = false
			detail = "a nil error is returned on a path without a successful read of the system random source (" + p.LitString() + ")"
		}
	}
	r.Check(ok && nSucc > 0 && !pr.Truncated, "secret.random-source", FuncName(gen)+": generated secret comes from crypto/rand", w.Pos(gen.Pos()),
		"a string is returned with a nil error only behind the err == nil edge of crypto/rand.Read",
		"the generator can return success without random bytes: "+detail+" — the generated JWT secret is predictable and anyone can sign accepted tokens")
}

// boolFlagDefault finds the cli.BoolFlag literal with the given name in the module and returns its default.
func (w *World) boolFlagDefault(name string) (def bool, found bool) {
	for _, p := range w.modulePackages() {
		for _, f := range p.Syntax {
			ast.Inspect(f, func(n ast.Node) bool {
				cl, ok := n.(*ast.CompositeLit)
				if !ok {
					return true
				}
				tv, ok := p.TypesInfo.Types[cl]
				if !ok || !strings.HasSuffix(tv.Type.String(), "cli/v2.BoolFlag") {
					return true
				}
				isIt := false
				val := false
				for _, el := range cl.Elts {
					kv, ok := el.(*ast.KeyValueExpr)
					if !ok {
						continue
					}
					k, _ := kv.Key.(*ast.Ident)
					if k == nil {
						continue
					}
					if tvv, ok := p.TypesInfo.Types[kv.Value]; ok && tvv.Value != nil {
						if k.Name == "Name" && tvv.Value.Kind() == constant.String && constant.StringVal(tvv.Value) == name {
							isIt = true
						}
						if k.Name == "Value" && tvv.Value.Kind() == constant.Bool {
							val = constant.BoolVal(tvv.Value)
						}
					} else if k.Name == "Value" {
						val = true // non-constant default: treat as possibly true
					}
				}
				if isIt {
					found, def = true, val
				}
				return true
			})
		}
	}
	return
}

// ---------------------------------------------------------------------------------
// facts read from the loaded jwtauth source

func checkJwtauthLibrary(w *World, r *Report) {
	var pkg *ssa.Package
	for _, p := range w.Prog.AllPackages() {
		if strings.HasSuffix(p.Pkg.Path(), "go-chi/jwtauth/v5") {
			pkg = p
		}
	}
	if pkg == nil {
		r.Undecided("lib.jwtauth", "jwtauth package", "-", "jwtauth is not among the loaded packages")
		return
	}
	if pm := w.All[pkg.Pkg.Path()]; pm != nil && pm.Module != nil {
		r.Note("jwtauth modelled at v5.0.2, tree has %s", pm.Module.Version)
	}
	auth := pkg.Func("Authenticator")
	if auth == nil || len(auth.AnonFuncs) != 1 {
		r.Undecided("lib.authenticator", "jwtauth.Authenticator", "-", "unexpected shape of jwtauth.Authenticator")
	} else {
		cl := auth.AnonFuncs[0]
		res := w.EnumPaths(cl, EnumOpts{})
		r.Count("paths", len(res.Paths))
		ok := len(res.Paths) > 0
		why := ""
		nPass := 0
		for _, p := range res.Paths {
			passes := false
			for _, e := range p.Effects {
				if e.Kind == "call" && strings.HasSuffix(e.Target, ".ServeHTTP") {
					passes = true
				}
			}
			if passes {
				nPass++
				errNil, tokNonNil, valid := false, false, false
				for _, l := range p.Lits {
					a := l.Atom
					if a.Op == "==" && strings.Contains(a.L, "FromContext(") && strings.HasSuffix(a.L, "#2") && a.R == "nil" && l.Val {
						errNil = true
					}
					if a.Op == "==" && strings.Contains(a.L, "FromContext(") && strings.HasSuffix(a.L, "#0") && a.R == "nil" && !l.Val {
						tokNonNil = true
					}
					if a.Op == "==" && strings.Contains(a.L, "jwt.Validate(") && a.R == "nil" && l.Val {
						valid = true
					}
				}
				if !(errNil && tokNonNil && valid) {
					ok = false
					why = "a path reaches next.ServeHTTP without err==nil ∧ token!=nil ∧ Validate==nil: " + p.LitString()
				}
			} else if p.End == "return" {
				has401 := false
				for _, e := range p.Effects {
					if e.Kind == "call" && strings.HasSuffix(e.Target, "http.Error") && strings.HasSuffix(e.Val, ",401") {
						has401 = true
					}
				}
				if !has401 {
					ok = false
					why = "a rejecting path does not answer 401: " + p.LitString()
				}
			}
		}
		r.Check(ok && nPass >= 1, "lib.authenticator", "jwtauth.Authenticator", w.Pos(auth.Pos()), "next.ServeHTTP is reached only past err==nil ∧ token!=nil ∧ jwt.Validate==nil; every other path answers 401", "jwtauth.Authenticator does not have the modelled contract: "+why)
	}
	// VerifyToken: nil error only after Decode ok and Validate ok
	vt := pkg.Func("VerifyToken")
	if vt == nil {
		r.Undecided("lib.verify-token", "jwtauth.VerifyToken", "-", "not found")
	} else {
		res := w.EnumPaths(vt, EnumOpts{})
		r.Count("paths", len(res.Paths))
		ok := true
		for _, p := range res.Paths {
			if p.End == "return" && len(p.Ret) == 2 && p.Ret[1] == "nil" {
				dec, val := false, false
				for _, l := range p.Lits {
					if l.Atom.Op == "==" && strings.Contains(l.Atom.L, ".Decode(") && l.Atom.R == "nil" && l.Val {
						dec = true
					}
					if l.Atom.Op == "==" && strings.Contains(l.Atom.L, "jwt.Validate(") && l.Atom.R == "nil" && l.Val {
						val = true
					}
				}
				if !dec || !val {
					ok = false
				}
			}
		}
		r.Check(ok, "lib.verify-token", "jwtauth.VerifyToken", w.Pos(vt.Pos()), "a nil error is returned only after Decode (signature verification) and jwt.Validate succeeded", "VerifyToken can return a nil error without Decode/Validate having succeeded")
	}
	// Verifier delegates to Verify with its own JWTAuth and the header/cookie finders
	vf := pkg.Func("Verifier")
	if vf == nil || len(vf.AnonFuncs) != 1 {
		r.Undecided("lib.verifier", "jwtauth.Verifier", "-", "unexpected shape")
	} else {
		ok := false
		allInstrs(vf.AnonFuncs[0], func(in ssa.Instruction) {
			if c, ok2 := in.(*ssa.Call); ok2 && strings.HasSuffix(calleeName(&c.Call), "jwtauth/v5.Verify") {
				if w.AP(c.Call.Args[0]) == "arg0" {
					els := w.variadicElems(c.Call.Args[1])
					names := []string{}
					for _, e := range els {
						if f := funcValue(e); f != nil {
							names = append(names, f.Name())
						}
					}
					ok = len(names) >= 1
					for _, n := range names {
						if !strings.HasPrefix(n, "TokenFrom") {
							ok = false
						}
					}
				}
			}
		})
		r.Check(ok, "lib.verifier", "jwtauth.Verifier", w.Pos(vf.Pos()), "delegates to Verify with its own JWTAuth and the token finders", "jwtauth.Verifier does not delegate to Verify(ja, TokenFrom…)")
	}
	// New: verifier option uses the sign key when the verify key is nil
	nw := pkg.Func("New")
	if nw != nil {
		res := w.EnumPaths(nw, EnumOpts{})
		ok := false
		for _, p := range res.Paths {
			for _, l := range p.Lits {
				if strings.Contains(l.Atom.L, "verifyKey") && l.Atom.R == "nil" && l.Val {
					for _, e := range p.Effects {
						if e.Kind == "call" && strings.HasSuffix(e.Target, "jwt.WithVerify") && strings.Contains(e.Val, "signKey") {
							ok = true
						}
					}
				}
			}
		}
		r.Check(ok, "lib.new", "jwtauth.New", w.Pos(nw.Pos()), "with a nil verify key, tokens are verified with (alg, signKey)", "jwtauth.New does not verify with the sign key when the verify key is nil")
	}
}
