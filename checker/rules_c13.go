package main

import (
	"fmt"
	"go/token"
	"sort"
	"strings"

	"golang.org/x/tools/go/ssa"
)

func init() {
	register(&PropDef{
		ID:          "C13",
		Level:       "proof",
		Explanation: "Lockset proof for the state guarded by the runner mutex: an interprocedural lock-state dataflow (lattice U<R<W, meet=min, one context per arising entry state, VTA call graph for callbacks) evaluates every access to runner/job/task state in the module; a read needs ≥R and a write needs W on every path in every context. Discharged = accesses whose lock state is sufficient in all contexts, or that fall under a listed exception whose side condition is machine-checked. Also: no re-entrant acquisition, no WaitGroup.Wait under the lock, balanced acquire/release on all exits, atomic-only fields. Outside the mutex (ownership rules, not a proof): the production data store and output store — called without the runner lock and concurrently — write no state reachable from their receiver; a slice field that is extended by append without being stored back is only ever assigned freshly allocated slices (no two executors of concurrently running tasks share a backing array).",
		Trusted: []string{
			"Go memory model for sync.RWMutex (lock-protected accesses are ordered)",
			"golang.org/x/tools go/ssa construction and VTA call-graph soundness for dynamic calls",
			"no unsafe / reflection writes to the guarded structs (checked: package unsafe is not imported by the module)",
			"one runner per job object (type-based aliasing: every *PipelineJob/jobTask is treated as guarded by the single runner mutex)",
		},
		NotDecided: []string{
			"races inside third-party packages", "WaitGroup reuse subtleties",
			"embedders touching exported job fields outside the ReadJob/IterateJobs callbacks",
			"memory reached through values copied out under the lock (maps/slices shared with immutable definitions)",
		},
		Check: checkC13,
	})
}

func checkC13(w *World, r *Report) {
	la, err := newLockAnalysis(w)
	if err != nil {
		r.Undecided("K1.anchors", "lockset anchors", "-", err.Error())
		return
	}
	r.Anchor("state lock", "PipelineRunner."+la.mxName)
	la.run()

	// computed immutable-after-publication fields
	var imm, mut []string
	for f := range la.fieldsOf {
		if la.mutable[f] {
			mut = append(mut, f)
		} else {
			imm = append(imm, f)
		}
	}
	sort.Strings(imm)
	sort.Strings(mut)
	r.Note("fields with no store outside a fresh allocation (immutable after publication, need no lock): %s", strings.Join(imm, ", "))
	r.Note("mutable guarded fields: %s", strings.Join(mut, ", "))

	exc := newSchedReadException(w, la)

	leafGuard := la.leafGuardedFields()
	nFuncs := map[*ssa.Function]bool{}
	for _, ob := range la.sortedAccess() {
		nFuncs[ob.fn] = true
		rule := "K1.read"
		need := lsR
		if ob.write {
			rule, need = "K1.write", lsW
		}
		key := FuncName(ob.fn) + ": " + ob.what
		pos := w.InstrPos(ob.in)
		if ob.min >= need {
			r.OK(rule, key, pos, fmt.Sprintf("lock state ≥ %s in every context (weakest: %s)", need, ob.min))
			continue
		}
		if i := strings.Index(ob.what, "PipelineRunner."); i >= 0 {
			guarded := false
			for f, m := range leafGuard {
				if strings.HasPrefix(ob.what[i+len("PipelineRunner."):], f+" ") || strings.HasPrefix(ob.what[i+len("PipelineRunner."):], f+".") || ob.what[i+len("PipelineRunner."):] == f {
					r.OK(rule, key, pos, "guarded by the runner's second mutex "+m+": every access to "+f+" in the module lies behind a dominating Lock of it")
					guarded = true
				}
			}
			if guarded {
				continue
			}
		}
		if why, ok := exc.covers(ob); ok {
			r.OK(rule, key, pos, "listed exception, side condition verified: "+why)
			continue
		} else if why != "" {
			r.Viol(rule, key, pos, fmt.Sprintf("lock state %s, needs %s; exception side condition FAILED: %s; context: %s", ob.min, need, why, la.chain(ob.minCtx)))
			continue
		}
		r.Viol(rule, key, pos, fmt.Sprintf("lock state %s on some path, needs %s; context: %s", ob.min, need, la.chain(ob.minCtx)))
	}
	for _, group := range [][]lockOpOb{la.lockOps, la.blockOb, la.pairing} {
		seen := map[string]bool{}
		for _, o := range group {
			k := o.rule + o.key + fmt.Sprint(o.ok)
			if seen[k] {
				continue
			}
			seen[k] = true
			if o.ok {
				r.OK(o.rule, o.key, w.InstrPos(o.in), "state at the operation: "+o.ctx.st.String()+" on entry")
			} else {
				r.Viol(o.rule, o.key, w.InstrPos(o.in), o.msg+"; context: "+la.chain(o.ctx))
			}
		}
	}
	checkAtomicOnly(w, r)
	checkNoUnsafe(w, r)
	checkUnguardedComponents(w, r)
	checkOwnedAppendBase(w, r)

	r.Count("functions_with_guarded_access", len(nFuncs))
	r.Count("functions_analysed", len(la.funcsAnalysed))
	r.Count("contexts", len(la.origin))
	r.Count("call_sites", la.callSites)
	r.Floor("K1.read", 60)
	r.Floor("K1.write", 30)
	r.Floor("K1b.reentrancy", 20)
	if len(nFuncs) < 20 {
		r.Viol("floor", "functions with guarded accesses", "-", fmt.Sprintf("%d < 20", len(nFuncs)))
	}
}

// ---------------------------------------------------------------------------------
// exception: the scheduling goroutine reads job.sched without the lock.

type schedReadException struct {
	w       *World
	la      *lockAnalysis
	spawner *ssa.Function // start function
	closure *ssa.Function
	reason  string
	ok      bool
}

func newSchedReadException(w *World, la *lockAnalysis) *schedReadException {
	e := &schedReadException{w: w, la: la}
	// the start function: stores a non-nil value to PipelineJob.Start outside a fresh allocation
	for _, fn := range w.ModFuncs {
		if fn.Parent() != nil {
			continue
		}
		la.curFn = fn
		allInstrs(fn, func(in ssa.Instruction) {
			if st, ok := in.(*ssa.Store); ok {
				if key, base, ok := la.rootField(st.Addr); ok && key == "PipelineJob.Start" && !la.fresh(base, nil) && !isNilConst(st.Val) {
					e.spawner = fn
				}
			}
		})
	}
	if e.spawner == nil {
		e.reason = "start function (non-nil store to PipelineJob.Start) not found"
		return e
	}
	// its goroutine closure
	var goInstr *ssa.Go
	allInstrs(e.spawner, func(in ssa.Instruction) {
		if g, ok := in.(*ssa.Go); ok {
			if f := funcValue(g.Call.Value); f != nil && f.Parent() == e.spawner {
				e.closure, goInstr = f, g
			} else if f := g.Call.StaticCallee(); f != nil && w.InModule(f) && f.Blocks != nil {
				e.closure, goInstr = f, g
			}
		}
	})
	if e.closure == nil {
		e.reason = "start function spawns no goroutine closure"
		return e
	}
	if e.closure.Parent() == nil {
		// a method instead of a closure: it must have no other use than this go statement
		uses := 0
		for _, fn := range w.ModFuncs {
			allInstrs(fn, func(in ssa.Instruction) {
				if c := callCommonOf(in); c != nil && c.StaticCallee() == e.closure {
					uses++
				}
				for _, op := range in.Operands(nil) {
					if *op == ssa.Value(e.closure) {
						if _, isCall := in.(ssa.CallInstruction); !isCall {
							uses += 2 // used as a value
						}
					}
				}
			})
		}
		if uses != 1 {
			e.reason = "the scheduling goroutine's function " + FuncName(e.closure) + " is also used elsewhere"
			return e
		}
	}
	// side condition: every store to PipelineJob.sched is (i) in a function called by the
	// spawner at a site dominating the go statement, or (ii) in a function whose only
	// callers are the completion handler, which is called only by this closure, after the read.
	var storers []*ssa.Function
	for _, fn := range w.ModFuncs {
		has := false
		la.curFn = fn
		allInstrs(fn, func(in ssa.Instruction) {
			if st, ok := in.(*ssa.Store); ok {
				if key, base, ok := la.rootField(st.Addr); ok && key == "PipelineJob.sched" && !la.fresh(base, nil) {
					has = true
				}
			}
		})
		if has {
			storers = append(storers, fn)
		}
	}
	var load ssa.Instruction
	allInstrs(e.closure, func(in ssa.Instruction) {
		if u, ok := in.(*ssa.UnOp); ok && u.Op == token.MUL {
			if key, _, ok := la.rootField(u.X); ok && key == "PipelineJob.sched" && load == nil {
				load = in
			}
		}
	})
	if load == nil {
		e.ok = true // nothing to except
		e.reason = "closure does not read sched"
		return e
	}
	cg := w.CallGraph()
	callersOf := func(fn *ssa.Function) []*ssa.Function {
		var out []*ssa.Function
		seen := map[*ssa.Function]bool{}
		if n := cg.Nodes[fn]; n != nil {
			for _, in := range n.In {
				if !seen[in.Caller.Func] {
					seen[in.Caller.Func] = true
					out = append(out, in.Caller.Func)
				}
			}
		}
		return out
	}
	for _, s := range storers {
		// (i) called by the spawner before the go
		before := false
		allInstrs(e.spawner, func(in ssa.Instruction) {
			if c, ok := in.(*ssa.Call); ok && c.Call.StaticCallee() == s && instrDominates(c, goInstr) {
				before = true
			}
		})
		// (i'') the spawner is a helper with exactly one call site (`runJob(job, graph)` called by the start function): the
		// storer is called by that caller at a site dominating the helper's call
		if !before {
			var sites []ssa.Instruction
			for _, g := range w.ModFuncs {
				allInstrs(g, func(in ssa.Instruction) {
					if c := callCommonOf(in); c != nil && c.StaticCallee() == e.spawner {
						sites = append(sites, in)
					}
				})
			}
			if len(sites) == 1 {
				if _, isCall := sites[0].(*ssa.Call); isCall {
					allInstrs(sites[0].Parent(), func(in ssa.Instruction) {
						if c, ok := in.(*ssa.Call); ok && c.Call.StaticCallee() == s && instrDominates(c, sites[0]) {
							before = true
						}
					})
				}
			}
		}
		// (i') the store is in the spawner itself and dominates the go statement (an inlined initialiser)
		if s == e.spawner {
			domAll := true
			la.curFn = s
			allInstrs(s, func(in ssa.Instruction) {
				if st, ok := in.(*ssa.Store); ok {
					if key, base, ok := la.rootField(st.Addr); ok && key == "PipelineJob.sched" && !la.fresh(base, nil) && !instrDominates(st, goInstr) {
						domAll = false
					}
				}
			})
			if domAll {
				continue
			}
		}
		if before {
			continue
		}
		// (ii') the storing function is itself called only by this goroutine, after the read (an inlined de-initialiser in the completion handler)
		direct := len(callersOf(s)) > 0
		for _, c1 := range callersOf(s) {
			if c1 != e.closure {
				direct = false
			}
		}
		if direct {
			after := true
			allInstrs(e.closure, func(in ssa.Instruction) {
				if c, ok := in.(*ssa.Call); ok && c.Call.StaticCallee() == s && !instrDominates(load, c) {
					after = false
				}
			})
			if after {
				continue
			}
		}
		// (ii) only reachable from this closure, through calls that come after the read (the completion
		// handler and the helpers it delegates to)
		okS := true
		frontier := []*ssa.Function{s}
		visited := map[*ssa.Function]bool{s: true}
		for depth := 0; len(frontier) > 0 && okS; depth++ {
			var next []*ssa.Function
			for _, f := range frontier {
				cs := callersOf(f)
				if len(cs) == 0 {
					okS = false
					e.reason = "no callers resolved for " + FuncName(f)
				}
				for _, c := range cs {
					if c == e.closure {
						// the call in the closure must come after the load
						allInstrs(e.closure, func(in ssa.Instruction) {
							if cl, ok := in.(*ssa.Call); ok && cl.Call.StaticCallee() == f && !instrDominates(load, cl) {
								okS = false
								e.reason = fmt.Sprintf("call of %s is not after the sched read", FuncName(f))
							}
						})
						continue
					}
					if depth >= 3 {
						okS = false
						e.reason = fmt.Sprintf("%s (stores sched) is reachable from %s via %s, not only from the scheduling goroutine", FuncName(s), FuncName(c), FuncName(f))
						continue
					}
					if !visited[c] {
						visited[c] = true
						next = append(next, c)
					}
				}
			}
			frontier = next
		}
		if !okS {
			return e
		}
	}
	e.ok = true
	var names []string
	for _, s := range storers {
		names = append(names, FuncName(s))
	}
	e.reason = fmt.Sprintf("the only stores to PipelineJob.sched are in {%s}: one dominates the go statement in %s (happens-before the goroutine), the other is reachable only from the completion handler, which only this goroutine calls, after the read", strings.Join(names, ", "), FuncName(e.spawner))
	return e
}

func (e *schedReadException) covers(ob *accessOb) (string, bool) {
	if ob.write || ob.fn != e.closure || e.closure == nil {
		return "", false
	}
	if !strings.HasPrefix(ob.what, "load PipelineJob.sched ") {
		return "", false
	}
	return e.reason, e.ok
}

// ---------------------------------------------------------------------------------
// K1c: a field that is accessed through sync/atomic anywhere is accessed only that way.

func checkAtomicOnly(w *World, r *Report) {
	atomicFields := map[string]bool{}
	isAtomicCall := func(in ssa.Instruction) bool {
		c := callCommonOf(in)
		if c == nil {
			return false
		}
		f := c.StaticCallee()
		return f != nil && f.Object() != nil && f.Object().Pkg() != nil && f.Object().Pkg().Path() == "sync/atomic"
	}
	for _, fn := range w.ModFuncs {
		allInstrs(fn, func(in ssa.Instruction) {
			if !isAtomicCall(in) {
				return
			}
			for _, a := range callCommonOf(in).Args {
				if fa, ok := w.resolveAddr(a).(*ssa.FieldAddr); ok {
					atomicFields[fieldOfAddr(fa).String()] = true
				}
			}
		})
	}
	for _, fn := range w.ModFuncs {
		allInstrs(fn, func(in ssa.Instruction) {
			fa, ok := in.(*ssa.FieldAddr)
			if !ok || !atomicFields[fieldOfAddr(fa).String()] {
				return
			}
			key := FuncName(fn) + ": " + fieldOfAddr(fa).String()
			okAll := true
			if refs := fa.Referrers(); refs != nil {
				for _, ref := range *refs {
					if _, isDbg := ref.(*ssa.DebugRef); isDbg {
						continue
					}
					if !isAtomicCall(ref) {
						okAll = false
					}
				}
			}
			r.Check(okAll, "K1c.atomic", key, w.InstrPos(fa), "accessed only through sync/atomic", "field is accessed through sync/atomic elsewhere but plainly here (mixed atomic/plain access is a data race)")
		})
	}
	r.Floor("K1c.atomic", 2)
}

func checkNoUnsafe(w *World, r *Report) {
	for _, p := range w.Pkgs {
		uses := false
		for _, imp := range p.Imports {
			if imp.PkgPath == "unsafe" {
				uses = true
			}
		}
		r.Check(!uses, "K1.no-unsafe", "package "+strings.TrimPrefix(p.PkgPath, modPath), "-", "does not import unsafe", "imports unsafe: writes that bypass the type-based lockset are possible")
	}
}
