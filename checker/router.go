package main

import (
	"fmt"
	"go/constant"
	"strings"

	"golang.org/x/tools/go/ssa"
)

// K7 ROUTER — abstract interpretation of chi router construction (chi v5 semantics, read
// from mux.go): an inline mux (Group/With) wraps each endpoint at registration time with its
// own stack, which extends the parent's inline stack; Route mounts a fresh mux through the
// enclosing stack; root-level Use wraps everything routed by that mux.

type mwLabel struct {
	Label string // e.g. "jwtauth.Verifier(arg3)", "jwtauth.Authenticator", "param:arg2"
	Pos   string
}

type routerAbs struct {
	id     int
	kind   string // root | group | route | with
	parent *routerAbs
	uses   []mwLabel
	// first registration seen on this mux (Use after it panics in chi)
	registered bool
	pattern    string
}

func (r *routerAbs) stack() []mwLabel {
	var out []mwLabel
	if r.parent != nil {
		out = append(out, r.parent.stack()...)
	}
	return append(out, r.uses...)
}

func (r *routerAbs) fullPattern(p string) string {
	prefix := ""
	for x := r; x != nil; x = x.parent {
		if x.kind == "route" {
			prefix = x.pattern + prefix
		}
	}
	return strings.ReplaceAll(prefix+p, "//", "/")
}

type endpoint struct {
	Method        string
	Pattern       string
	Handler       string // access path / function name of the handler
	HandlerV      ssa.Value
	Guards        []string // conditions the registration is control-dependent on
	Stack         []mwLabel
	Pos           string
	In            ssa.Instruction
	Fn            *ssa.Function
	UseAfterRoute bool
}

type routerInterp struct {
	w         *World
	endpoints []endpoint
	problems  []string // undecided constructs
	probPos   []string
	nextID    int
	served    []ssa.Instruction // where a router value is converted to http.Handler and stored/returned
	root      *routerAbs
	lateUse   []string
	// guards of the call sites of the helpers being interpreted (outermost first)
	ctxGuards []string
}

var verbMethods = map[string]string{
	"Get": "GET", "Post": "POST", "Put": "PUT", "Delete": "DELETE", "Patch": "PATCH", "Head": "HEAD",
	"Options": "OPTIONS", "Connect": "CONNECT", "Trace": "TRACE",
}

func isChiRouterType(t string) bool {
	return strings.HasSuffix(t, "go-chi/chi/v5.Mux") || strings.HasSuffix(t, "go-chi/chi/v5.Router")
}

func (ri *routerInterp) newRouter(kind string, parent *routerAbs) *routerAbs {
	ri.nextID++
	return &routerAbs{id: ri.nextID, kind: kind, parent: parent}
}

func (ri *routerInterp) problem(in ssa.Instruction, msg string) {
	ri.problems = append(ri.problems, msg)
	ri.probPos = append(ri.probPos, ri.w.InstrPos(in))
}

// guardsOf returns the branch conditions that control the block of in.
func (ri *routerInterp) guardsOf(in ssa.Instruction) []string {
	var out []string
	b := in.Block()
	for d := b; d != nil; d = d.Idom() {
		idom := d.Idom()
		if idom == nil {
			break
		}
		ifi, ok := idom.Instrs[len(idom.Instrs)-1].(*ssa.If)
		if !ok {
			continue
		}
		// d is reached only over one edge of idom's If?
		if len(d.Preds) == 1 && d.Preds[0] == idom {
			op, l, r, neg, konst := ri.w.condAtom(ifi.Cond, 0)
			if konst != nil {
				continue
			}
			at, tv := canonAtom(op, l, r, !neg)
			val := tv
			if idom.Succs[1] == d {
				val = !tv
			}
			s := at.String()
			if !val {
				s = "!(" + s + ")"
			}
			out = append(out, s)
		}
	}
	return out
}

// mwLabelOf classifies one middleware value.
func (ri *routerInterp) mwLabelOf(v ssa.Value) string {
	w := ri.w
	v = w.Resolve(v)
	switch x := v.(type) {
	case *ssa.Call:
		if f := x.Call.StaticCallee(); f != nil {
			var args []string
			for _, a := range x.Call.Args {
				args = append(args, w.AP(a))
			}
			return shortPkgFunc(f) + "(" + strings.Join(args, ",") + ")"
		}
	case *ssa.Function:
		return shortPkgFunc(x)
	case *ssa.Parameter:
		return "param:" + w.AP(x)
	case *ssa.MakeClosure:
		return "closure:" + FuncName(x.Fn.(*ssa.Function))
	}
	return "value:" + w.AP(v)
}

func shortPkgFunc(f *ssa.Function) string {
	o := f.Object()
	if o == nil || o.Pkg() == nil {
		return f.String()
	}
	if recv := f.Signature.Recv(); recv != nil {
		if n := namedOf(recv.Type()); n != nil {
			return o.Pkg().Name() + ".(" + n.Obj().Name() + ")." + o.Name()
		}
	}
	return o.Pkg().Name() + "." + o.Name()
}

// interp interprets fn with the given bindings of SSA values to abstract routers.
func (ri *routerInterp) interp(fn *ssa.Function, env map[ssa.Value]*routerAbs, depth int) {
	w := ri.w
	if depth > 6 {
		ri.problem(fn.Blocks[0].Instrs[0], "router construction nested too deeply in "+FuncName(fn))
		return
	}
	lookup := func(v ssa.Value) *routerAbs {
		v = w.Resolve(v)
		if r, ok := env[v]; ok {
			return r
		}
		// a router seen through an interface conversion
		switch x := v.(type) {
		case *ssa.MakeInterface:
			if r, ok := env[w.Resolve(x.X)]; ok {
				return r
			}
		case *ssa.ChangeInterface:
			if r, ok := env[w.Resolve(x.X)]; ok {
				return r
			}
		}
		return nil
	}
	for _, b := range fn.DomPreorder() {
		for _, in := range b.Instrs {
			switch x := in.(type) {
			case *ssa.Call:
				c := &x.Call
				name := calleeName(c)
				// constructor
				if strings.HasSuffix(name, "go-chi/chi/v5.NewRouter") || strings.HasSuffix(name, "go-chi/chi/v5.NewMux") {
					r := ri.newRouter("root", nil)
					env[x] = r
					if ri.root == nil {
						ri.root = r
					}
					continue
				}
				// method on a router value
				var recv ssa.Value
				var method string
				var args []ssa.Value
				if c.IsInvoke() {
					recv, method, args = c.Value, c.Method.Name(), c.Args
				} else if f := c.StaticCallee(); f != nil && f.Signature.Recv() != nil && len(c.Args) > 0 && isChiRouterType(f.Signature.Recv().Type().String()) {
					recv, method, args = c.Args[0], f.Name(), c.Args[1:]
				}
				var R *routerAbs
				if recv != nil {
					R = lookup(recv)
				}
				if R == nil {
					// a router passed to something else?
					for _, a := range c.Args {
						if ra := lookup(a); ra != nil {
							if f := c.StaticCallee(); f != nil && w.InModule(f) && f.Blocks != nil {
								// module-local helper taking a router: inline
								sub := map[ssa.Value]*routerAbs{}
								for i, p := range f.Params {
									if i < len(c.Args) {
										if rr := lookup(c.Args[i]); rr != nil {
											sub[p] = rr
										}
									}
								}
								// the helper's conditions read in the caller's terms: bind its parameters
								// to the argument values, and carry the call site's own guards along
								savedEnv, savedGuards := w.paramEnv, ri.ctxGuards
								penv := map[*ssa.Parameter]ssa.Value{}
								for k, v := range savedEnv {
									penv[k] = v
								}
								for i, p := range f.Params {
									if _, isRouter := sub[p]; i < len(c.Args) && !isRouter {
										penv[p] = w.Resolve(c.Args[i])
									}
								}
								ri.ctxGuards = append(append([]string(nil), savedGuards...), ri.guardsOf(in)...)
								w.paramEnv = penv
								ri.interp(f, sub, depth+1)
								w.paramEnv, ri.ctxGuards = savedEnv, savedGuards
							} else {
								ri.problem(in, "a router value is passed to "+nameOr(name, "a dynamic call")+": its registrations cannot be followed")
							}
							break
						}
					}
					continue
				}
				pos := w.InstrPos(in)
				switch {
				case method == "Use":
					for _, a := range args {
						els := w.variadicElems(a)
						if els == nil {
							ri.problem(in, "Use with a non-literal middleware list")
							continue
						}
						for _, e := range els {
							R.uses = append(R.uses, mwLabel{Label: ri.mwLabelOf(e), Pos: pos})
						}
					}
					if R.registered {
						ri.lateUse = append(ri.lateUse, pos)
					}
				case method == "With":
					nr := ri.newRouter("with", R)
					for _, a := range args {
						for _, e := range w.variadicElems(a) {
							nr.uses = append(nr.uses, mwLabel{Label: ri.mwLabelOf(e), Pos: pos})
						}
					}
					env[x] = nr
				case method == "Group" || method == "Route":
					kind := "group"
					fnArg := args[0]
					nr := ri.newRouter(kind, R)
					if method == "Route" {
						nr.kind = "route"
						if k, ok := args[0].(*ssa.Const); ok && k.Value != nil {
							nr.pattern = constant.StringVal(k.Value)
						}
						fnArg = args[1]
						R.registered = true
					}
					env[x] = nr
					cl := funcValue(w.Resolve(fnArg))
					if cl == nil || cl.Blocks == nil {
						ri.problem(in, method+" with a function value that cannot be resolved")
						continue
					}
					sub := map[ssa.Value]*routerAbs{}
					if len(cl.Params) > 0 {
						sub[cl.Params[0]] = nr
					}
					ri.interp(cl, sub, depth+1)
				case method == "Mount" || method == "Handle" || method == "HandleFunc" || method == "Method" || method == "MethodFunc" || verbMethods[method] != "" || method == "NotFound" || method == "MethodNotAllowed":
					ep := endpoint{Method: method, Pos: pos, In: in, Fn: fn, Guards: append(append([]string(nil), ri.ctxGuards...), ri.guardsOf(in)...)}
					ai := 0
					if method == "Method" || method == "MethodFunc" {
						if k, ok := args[0].(*ssa.Const); ok && k.Value != nil {
							ep.Method = constant.StringVal(k.Value)
						}
						ai = 1
					} else if verbMethods[method] != "" {
						ep.Method = verbMethods[method]
					}
					if method != "NotFound" && method != "MethodNotAllowed" {
						if k, ok := args[ai].(*ssa.Const); ok && k.Value != nil {
							ep.Pattern = R.fullPattern(constant.StringVal(k.Value))
						} else {
							ep.Pattern = R.fullPattern("<" + w.AP(args[ai]) + ">")
						}
						ai++
					} else {
						ep.Pattern = R.fullPattern("<" + method + ">")
					}
					if ai < len(args) {
						ep.HandlerV = w.Resolve(args[ai])
						ep.Handler = ri.mwLabelOf(args[ai])
					}
					ep.Stack = R.stack()
					R.registered = true
					ri.endpoints = append(ri.endpoints, ep)
				case method == "ServeHTTP" || method == "Routes" || method == "Middlewares" || method == "Match":
					// read-only
				default:
					ri.problem(in, "unrecognised router method "+method)
				}
			case *ssa.Store:
				if R := lookup(x.Val); R != nil {
					ri.served = append(ri.served, in)
					_ = R
				}
			case *ssa.Return:
				for _, res := range x.Results {
					if R := lookup(res); R != nil && fn.Parent() == nil {
						ri.served = append(ri.served, in)
					}
				}
			}
		}
	}
}

func fmtStack(s []mwLabel) string {
	var out []string
	for _, m := range s {
		out = append(out, m.Label)
	}
	return "[" + strings.Join(out, " → ") + "]"
}

var _ = fmt.Sprint
