package main

import (
	"go/token"
	"go/types"
	"strings"

	"golang.org/x/tools/go/ssa"
)

// Non-nil reasoning for job pointers.
//
// Defensive guards (`if job == nil { return }`, `if j == nil { continue }`) add branches that the path
// rules would otherwise have to account for ("a return is reachable without a dequeue attempt"). They
// are infeasible when the tested pointer is known not to be nil, which is decided here:
//
//   INVARIANT (checked once per load, over the whole module): no nil *PipelineJob is ever put into a
//   slice or a map — every value stored into an element of a []*PipelineJob, appended to one or
//   stored into a map[…]*PipelineJob is itself known non-nil, and every []*PipelineJob made with a
//   non-zero length is filled by a copy from a slice of the same length.
//
// Under the invariant an element read out of such a container is non-nil (a map lookup only where the
// comma-ok flag was true). If the invariant cannot be established nothing is folded and the rules see
// the guard as an ordinary branch.

func (w *World) isJobPtr(t types.Type) bool {
	p, ok := t.Underlying().(*types.Pointer)
	if !ok {
		return false
	}
	n, ok := p.Elem().(*types.Named)
	return ok && n.Obj().Name() == "PipelineJob" && n.Obj().Pkg() != nil && w.InModulePkg(n.Obj().Pkg())
}

func (w *World) nonNilInvariant() bool {
	if w.nonNilInv != 0 {
		return w.nonNilInv == 1
	}
	w.nonNilInv = 1 // coinductive: reads are assumed non-nil while the writers are checked
	ok := true
	for _, fn := range w.ModFuncs {
		allInstrs(fn, func(in ssa.Instruction) {
			if !ok {
				return
			}
			switch x := in.(type) {
			case *ssa.MapUpdate:
				if w.isJobPtr(x.Value.Type()) && !w.knownNonNil(x.Value, in, 0) {
					ok = false
				}
			case *ssa.Store:
				if ia, isIA := x.Addr.(*ssa.IndexAddr); isIA && w.isJobPtr(x.Val.Type()) {
					_ = ia
					if !w.knownNonNil(x.Val, in, 0) {
						ok = false
					}
				}
			case *ssa.MakeSlice:
				sl, isSl := x.Type().Underlying().(*types.Slice)
				if !isSl || !w.isJobPtr(sl.Elem()) {
					return
				}
				if c, isC := x.Len.(*ssa.Const); isC && c.Int64() == 0 {
					return
				}
				// make([]*PipelineJob, len(src)) … copy(dst, src)
				filled := false
				if x.Referrers() != nil {
					for _, r := range *x.Referrers() {
						if call, isCall := r.(*ssa.Call); isCall {
							if b, isB := call.Call.Value.(*ssa.Builtin); isB && b.Name() == "copy" && call.Call.Args[0] == ssa.Value(x) {
								if lc, isLen := w.Resolve(x.Len).(*ssa.Call); isLen {
									if lb, isLB := lc.Call.Value.(*ssa.Builtin); isLB && lb.Name() == "len" && w.Resolve(lc.Call.Args[0]) == w.Resolve(call.Call.Args[1]) {
										filled = true
									}
								}
							}
						}
					}
				}
				if !filled {
					ok = false
				}
			}
		})
	}
	if !ok {
		w.nonNilInv = 2
	}
	return ok
}

// knownNonNil: v cannot be nil at the instruction at (at may be nil when no position is known).
func (w *World) knownNonNil(v ssa.Value, at ssa.Instruction, depth int) bool {
	if depth > 4 {
		return false
	}
	v = w.Resolve(v)
	switch x := v.(type) {
	case *ssa.Alloc, *ssa.FieldAddr, *ssa.IndexAddr, *ssa.MakeClosure, *ssa.MakeMap, *ssa.MakeSlice, *ssa.MakeChan, *ssa.Function, *ssa.Global, *ssa.MakeInterface:
		return true
	case *ssa.Phi:
		n := 0
		for _, e := range x.Edges {
			if e == ssa.Value(x) {
				continue
			}
			n++
			if !w.knownNonNil(e, nil, depth+1) {
				return false
			}
		}
		return n > 0
	case *ssa.Parameter:
		fn := x.Parent()
		if fn == nil || fn.Parent() != nil || (fn.Object() != nil && fn.Object().Exported()) || !w.isJobPtr(x.Type()) {
			return false
		}
		// never used as a function value (then its callers are unknown)
		for _, g := range w.ModFuncs {
			asValue := false
			allInstrs(g, func(in ssa.Instruction) {
				for _, op := range in.Operands(nil) {
					if *op == ssa.Value(fn) {
						if c := callCommonOf(in); c == nil || c.Value != ssa.Value(fn) {
							asValue = true
						}
					}
				}
			})
			if asValue {
				return false
			}
		}
		saved := w.paramEnv
		w.paramEnv = nil
		leaves := w.argOrigins(fn, paramIdxOf(x), 0)
		ok := len(leaves) > 0
		for _, l := range leaves {
			if !w.knownNonNil(l.v, l.in, depth+1) {
				ok = false
			}
		}
		w.paramEnv = saved
		return ok
	case *ssa.Call:
		// a module constructor all of whose returns are non-nil
		g := x.Call.StaticCallee()
		if g == nil || g.Blocks == nil || !w.InModule(g) || g.Signature.Results().Len() != 1 {
			return false
		}
		n, ok := 0, true
		saved := w.paramEnv
		w.paramEnv = nil
		allInstrs(g, func(in ssa.Instruction) {
			if rt, isRt := in.(*ssa.Return); isRt && len(rt.Results) == 1 && !(g.Recover != nil && rt.Block() == g.Recover) {
				n++
				if !w.knownNonNil(rt.Results[0], rt, depth+1) {
					ok = false
				}
			}
		})
		w.paramEnv = saved
		return ok && n > 0
	case *ssa.UnOp:
		if x.Op != token.MUL {
			return false
		}
		if ia, ok := w.resolveAddr(x.X).(*ssa.IndexAddr); ok && w.isJobPtr(x.Type()) {
			if _, isSlice := ia.X.Type().Underlying().(*types.Slice); isSlice {
				return w.nonNilInvariant()
			}
		}
		return false
	case *ssa.Extract:
		if !w.isJobPtr(x.Type()) {
			return false
		}
		switch t := x.Tuple.(type) {
		case *ssa.Next:
			// the value of a range over a slice/map of job pointers
			return x.Index == 2 && w.nonNilInvariant()
		case *ssa.Lookup:
			// comma-ok lookup: non-nil where the ok flag was true
			if !t.CommaOk || x.Index != 0 || at == nil || at.Parent() != x.Parent() || !w.nonNilInvariant() {
				return false
			}
			if t.Referrers() == nil {
				return false
			}
			for _, r := range *t.Referrers() {
				okEx, isEx := r.(*ssa.Extract)
				if !isEx || okEx.Index != 1 || okEx.Referrers() == nil {
					continue
				}
				if w.dominatedByTruth(okEx, at.Block(), 0) {
					return true
				}
			}
		}
		return false
	}
	return false
}

// dominatedByTruth: blk is reached only over edges on which the boolean value b is true (b is tested by
// an If directly, or through `!b`).
func (w *World) dominatedByTruth(b ssa.Value, blk *ssa.BasicBlock, depth int) bool {
	if b.Referrers() == nil || depth > 2 {
		return false
	}
	for _, r := range *b.Referrers() {
		switch x := r.(type) {
		case *ssa.If:
			if x.Cond == b {
				ts := x.Block().Succs[0]
				if len(ts.Preds) == 1 && ts.Dominates(blk) {
					return true
				}
			}
		case *ssa.UnOp:
			if x.Op == token.NOT && x.Referrers() != nil {
				for _, r2 := range *x.Referrers() {
					if ifi, ok := r2.(*ssa.If); ok && ifi.Cond == ssa.Value(x) {
						fs := ifi.Block().Succs[1]
						if len(fs.Preds) == 1 && fs.Dominates(blk) {
							return true
						}
					}
				}
			}
		}
	}
	return false
}

// nilGuardInfeasible: the edge b → b.Succs[succ] is taken only if a job pointer that is known non-nil
// were nil (used by PathQuery through the nilGuardEdge hook).
func (w *World) nilGuardInfeasible(b *ssa.BasicBlock, succ int) bool {
	if len(b.Instrs) == 0 {
		return false
	}
	ifi, ok := b.Instrs[len(b.Instrs)-1].(*ssa.If)
	if !ok {
		return false
	}
	k := ifi
	v, seen := w.nilGuardMemo[k]
	if !seen {
		v = -1
		cond := ifi.Cond
		neg := false
		for {
			u, isU := cond.(*ssa.UnOp)
			if !isU || u.Op != token.NOT {
				break
			}
			cond = u.X
			neg = !neg
		}
		if bo, isB := cond.(*ssa.BinOp); isB && (bo.Op == token.EQL || bo.Op == token.NEQ) {
			a, c := bo.X, bo.Y
			if isNilConst(a) {
				a, c = c, a
			}
			if isNilConst(c) && w.isJobPtr(a.Type()) && w.knownNonNil(a, ifi, 0) {
				// a != nil holds: the cond is (a == nil) = false or (a != nil) = true
				truth := bo.Op == token.NEQ
				if neg {
					truth = !truth
				}
				if truth {
					v = 1 // the false successor is infeasible
				} else {
					v = 0
				}
			}
		}
		if w.nilGuardMemo == nil {
			w.nilGuardMemo = map[*ssa.If]int{}
		}
		w.nilGuardMemo[k] = v
	}
	return v == succ
}

// lookupKnownPresent: on the path so far the comma-ok flag of the lookup X was true (literal has(X)).
func lookupKnownPresent(lits []Lit, x string) bool {
	if !strings.HasSuffix(x, "]") {
		return false
	}
	for _, l := range lits {
		if l.Atom.Op == "true" && l.Atom.L == "has("+x+")" && l.Val {
			return true
		}
	}
	return false
}
