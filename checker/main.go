// prunnerlint decides repository-specific structural rules for Flowpack/prunner by static
// analysis of /repo's current source (go/packages + go/ssa + call graph). See /verif/DESIGN.md.
package main

import (
	"encoding/json"
	"flag"
	"fmt"
	"os"
	"os/exec"
	"path/filepath"
	"runtime/debug"
	"sort"
	"strconv"
	"strings"
	"sync"
	"time"
)

type PropDef struct {
	ID          string
	Level       string
	Explanation string
	Trusted     []string
	Assumptions []string
	NotDecided  []string
	// SkipConfig returns a reason when the property's rules do not apply to a configuration.
	SkipConfig func(bc BuildConfig) string
	Check      func(w *World, r *Report)
}

var registry = map[string]*PropDef{}

func register(p *PropDef) { registry[p.ID] = p }

var thoroughConfigs = []BuildConfig{
	{"linux", "amd64", ""}, {"linux", "arm64", ""}, {"darwin", "amd64", ""}, {"darwin", "arm64", ""},
	{"freebsd", "amd64", ""}, {"windows", "amd64", ""},
	{"linux", "amd64", "verif"}, {"darwin", "arm64", "verif"}, {"windows", "amd64", "verif"},
}

func main() {
	var (
		prop     = flag.String("property", "", "property id (C01..C20) or 'all'")
		tier     = flag.String("tier", "", "quick | thorough (default: $VERIF_TIER or quick)")
		repo     = flag.String("repo", "/repo", "repository to analyse")
		verif    = flag.String("verif", "", "verif directory (default: directory above the binary, or cwd)")
		replay   = flag.String("replay", "", "violation report to re-evaluate")
		cfgFlag  = flag.String("config", "", "single build configuration goos/goarch[/tags] (internal, used by the thorough tier)")
		obsOut   = flag.String("obs-out", "", "write raw obligations as JSON to this file instead of evidence (internal)")
		overlayF = flag.String("overlay", "", "JSON file {path: content} of in-memory source overlays (internal, used by the sensitivity audit)")
		list     = flag.Bool("list", false, "list implemented properties")
		describe = flag.Bool("describe", false, "print the registry (level, explanation, trusted base) as JSON")
		auditF   = flag.Bool("audit", false, "run only the sensitivity audit of the property and print it (development aid)")
		verbose  = flag.Bool("v", false, "print every obligation")
	)
	flag.Parse()
	if debugDump(*repo) {
		return
	}
	if *describe {
		out := map[string]interface{}{}
		for id, d := range registry {
			out[id] = map[string]interface{}{"level": d.Level, "explanation": d.Explanation, "trusted": d.Trusted, "not_decided": d.NotDecided}
		}
		b, _ := json.MarshalIndent(out, "", " ")
		fmt.Println(string(b))
		return
	}
	if *list {
		ids := make([]string, 0, len(registry))
		for id := range registry {
			ids = append(ids, id)
		}
		sort.Strings(ids)
		fmt.Println(strings.Join(ids, " "))
		return
	}
	vdir := *verif
	if vdir == "" {
		if exe, err := os.Executable(); err == nil {
			vdir = filepath.Dir(filepath.Dir(exe))
		}
		if _, err := os.Stat(filepath.Join(vdir, "properties.jsonl")); err != nil {
			vdir, _ = os.Getwd()
		}
	}
	if *tier == "" {
		*tier = os.Getenv("VERIF_TIER")
	}
	if *tier != "thorough" {
		*tier = "quick"
	}
	seed := int64(0)
	if s := os.Getenv("VERIF_SEED"); s != "" {
		if n, err := strconv.ParseInt(s, 10, 64); err == nil {
			seed = n
		}
	}
	if *replay != "" {
		b, err := os.ReadFile(*replay)
		if err != nil {
			fmt.Println("cannot read replay file:", err)
			os.Exit(2)
		}
		var v struct {
			Property string `json:"property"`
		}
		if err := json.Unmarshal(b, &v); err != nil || v.Property == "" {
			fmt.Println("replay file has no property")
			os.Exit(2)
		}
		*prop = v.Property
	}
	if *prop == "" {
		fmt.Println("usage: prunnerlint -property C13 [-tier quick|thorough]")
		os.Exit(2)
	}
	var overlay map[string][]byte
	if *overlayF != "" {
		b, err := os.ReadFile(*overlayF)
		if err != nil {
			fmt.Println(err)
			os.Exit(2)
		}
		var m map[string]string
		if err := json.Unmarshal(b, &m); err != nil {
			fmt.Println(err)
			os.Exit(2)
		}
		overlay = map[string][]byte{}
		for k, v := range m {
			overlay[k] = []byte(v)
		}
	}
	ids := []string{*prop}
	if *prop == "all" {
		ids = ids[:0]
		for id := range registry {
			ids = append(ids, id)
		}
		sort.Strings(ids)
	}
	exit := 0
	for _, id := range ids {
		def := registry[id]
		if def == nil {
			fmt.Printf("property %s has no static check (see MANIFEST.json not_applicable)\n", id)
			os.Exit(2)
		}
		if *auditF {
			a := runAudit(def, *repo, vdir, seed)
			if a != nil {
				for _, r := range a["results"].([]mutantResult) {
					fmt.Printf("%-12s %-11s %s %v\n", r.ID, r.Status, r.Why, r.Reported)
				}
				fmt.Println(a["status_counts"])
			}
			continue
		}
		if *cfgFlag != "" || *obsOut != "" {
			// internal single-configuration mode
			bc := parseConfig(*cfgFlag)
			obs, rep, err := runOne(def, *repo, bc, overlay)
			out := map[string]interface{}{"obs": obs}
			if err != nil {
				out["error"] = err.Error()
			}
			if rep != nil {
				out["counters"] = rep.Counters
				out["anchors"] = rep.Anchors
				out["notes"] = rep.Notes
			}
			if err := writeJSON(*obsOut, out); err != nil {
				fmt.Println(err)
				os.Exit(2)
			}
			continue
		}
		if code := runProperty(def, *repo, vdir, *tier, seed, *verbose); code != 0 {
			exit = code
		}
	}
	os.Exit(exit)
}

func parseConfig(s string) BuildConfig {
	if s == "" {
		return BuildConfig{}
	}
	p := strings.Split(s, "/")
	bc := BuildConfig{GOOS: p[0]}
	if len(p) > 1 {
		bc.GOARCH = p[1]
	}
	if len(p) > 2 {
		bc.Tags = p[2]
	}
	return bc
}

// runOne evaluates one property on one build configuration of the working tree.
func runOne(def *PropDef, repo string, bc BuildConfig, overlay map[string][]byte) (obs []Ob, rep *Report, err error) {
	defer func() {
		if p := recover(); p != nil {
			err = fmt.Errorf("checker panic: %v\n%s", p, debug.Stack())
		}
	}()
	if def.SkipConfig != nil {
		if why := def.SkipConfig(bc); why != "" {
			return []Ob{{Rule: def.ID + "/config", Construct: bc.String(), Pos: "-", Verdict: "ok", Detail: "configuration out of the property's scope: " + why, Config: bc.String()}}, nil, nil
		}
	}
	w, err := loadWorld(repo, bc, overlay)
	if err != nil {
		return nil, nil, err
	}
	rep = newReport(def.ID, w)
	def.Check(w, rep)
	rep.applyFloors()
	for i := range rep.Obs {
		rep.Obs[i].Config = bc.String()
	}
	rep.Count("module_functions", len(w.ModFuncs))
	rep.Count("packages_loaded", len(w.All))
	return rep.Obs, rep, nil
}

func runProperty(def *PropDef, repo, vdir, tier string, seed int64, verbose bool) int {
	t0 := time.Now()
	cmd := fmt.Sprintf("./bin/prunnerlint -property %s -tier %s", def.ID, tier)
	evPath := filepath.Join(vdir, "evidence", def.ID+".json")
	violPath := filepath.Join(vdir, "evidence", "violations", def.ID+".json")
	_ = os.Remove(violPath)

	var allObs []Ob
	var reps []*Report
	var loadErrs []string
	configsRun := []string{}
	extra := map[string]interface{}{}

	// the default configuration is always evaluated in-process
	defBC := BuildConfig{GOOS: envOr("GOOS", "linux"), GOARCH: envOr("GOARCH", "amd64")}
	obs, rep, err := runOne(def, repo, defBC, nil)
	if err != nil {
		loadErrs = append(loadErrs, defBC.String()+": "+err.Error())
	}
	allObs = append(allObs, obs...)
	if rep != nil {
		reps = append(reps, rep)
	}
	configsRun = append(configsRun, defBC.String())

	if tier == "thorough" && err == nil {
		// the remaining release / CI configurations, each in its own subprocess
		exe, _ := os.Executable()
		type res struct {
			bc  BuildConfig
			obs []Ob
			err string
			cnt map[string]int
		}
		var todo []BuildConfig
		for _, bc := range thoroughConfigs {
			if bc == defBC {
				continue
			}
			todo = append(todo, bc)
		}
		results := make([]res, len(todo))
		sem := make(chan struct{}, 4)
		var wg sync.WaitGroup
		for i, bc := range todo {
			wg.Add(1)
			go func(i int, bc BuildConfig) {
				defer wg.Done()
				sem <- struct{}{}
				defer func() { <-sem }()
				tmp, _ := os.CreateTemp("", "prunnerlint-obs-*.json")
				tmp.Close()
				defer os.Remove(tmp.Name())
				c := exec.Command(exe, "-property", def.ID, "-repo", repo, "-verif", vdir,
					"-config", bc.GOOS+"/"+bc.GOARCH+"/"+bc.Tags, "-obs-out", tmp.Name())
				out, err := c.CombinedOutput()
				r := res{bc: bc}
				if err != nil {
					r.err = fmt.Sprintf("subprocess: %v: %s", err, string(out))
				} else {
					b, _ := os.ReadFile(tmp.Name())
					var v struct {
						Obs      []Ob           `json:"obs"`
						Error    string         `json:"error"`
						Counters map[string]int `json:"counters"`
					}
					if e := json.Unmarshal(b, &v); e != nil {
						r.err = e.Error()
					} else {
						r.obs, r.err, r.cnt = v.Obs, v.Error, v.Counters
					}
				}
				results[i] = r
			}(i, bc)
		}
		wg.Wait()
		for _, r := range results {
			configsRun = append(configsRun, r.bc.String())
			if r.err != "" {
				loadErrs = append(loadErrs, r.bc.String()+": "+r.err)
			}
			allObs = append(allObs, r.obs...)
		}
		// sensitivity audit (never changes the verdict on /repo)
		if audit := runAudit(def, repo, vdir, seed); audit != nil {
			extra["audit"] = audit
		}
	}
	extra["configurations"] = configsRun

	// merge obligations that are identical across configurations
	allObs = mergeObs(allObs)

	// known findings
	known, kerr := loadKnown(filepath.Join(vdir, "known_findings.json"))
	if kerr != nil {
		loadErrs = append(loadErrs, "known_findings.json: "+kerr.Error())
		known = &KnownFindings{}
	}
	var knownLines []string
	for i := range allObs {
		o := &allObs[i]
		if o.Verdict != "violation" && o.Verdict != "undecided" {
			continue
		}
		for _, k := range known.Open {
			if k.Property == def.ID && k.Rule == o.Rule && k.Construct == o.Construct {
				o.Verdict = "known-finding"
				knownLines = append(knownLines, fmt.Sprintf("KNOWN-FINDING: property=%s %s", def.ID, k.What))
			}
		}
	}
	for _, e := range loadErrs {
		allObs = append(allObs, Ob{Rule: def.ID + "/load", Construct: "load", Pos: "-", Verdict: "violation", Detail: e})
	}

	var bad []Ob
	for _, o := range allObs {
		if o.Verdict == "violation" || o.Verdict == "undecided" {
			bad = append(bad, o)
		}
	}
	sort.SliceStable(bad, func(i, j int) bool { return posLess(bad[i].Pos, bad[j].Pos) })

	cov := buildCoverage(def, reps, allObs, cmd, extra)
	ev := evidenceFile{
		PropertyID: def.ID, Tier: tier, Seed: seed, Level: def.Level, Coverage: cov,
		Assumptions: def.Assumptions, WallS: time.Since(t0).Seconds(), Violations: len(bad),
	}
	if ev.Assumptions == nil {
		ev.Assumptions = []string{}
	}
	if err := writeJSON(evPath, ev); err != nil {
		fmt.Println("cannot write evidence:", err)
		return 2
	}

	if verbose {
		for _, o := range allObs {
			fmt.Printf("%-14s %s [%s] %s: %s\n", o.Verdict, o.Pos, o.Rule, o.Construct, o.Detail)
		}
	}
	seen := map[string]bool{}
	for _, l := range knownLines {
		if !seen[l] {
			seen[l] = true
			fmt.Println(l)
		}
	}
	nOK := 0
	for _, o := range allObs {
		if o.Verdict == "ok" {
			nOK++
		}
	}
	fmt.Printf("%s %s: %d obligations, %d discharged, %d known finding(s), %d violation(s)/undecided; %d configuration(s); %.1fs\n",
		def.ID, tier, len(allObs), nOK, len(seen), len(bad), len(configsRun), time.Since(t0).Seconds())
	if len(bad) == 0 {
		return 0
	}
	for _, o := range bad {
		fmt.Printf("%s [%s] %s: %s (%s)\n", o.Pos, o.Rule, o.Construct, o.Detail, o.Verdict)
	}
	_ = writeJSON(violPath, map[string]interface{}{
		"property": def.ID, "tier": tier, "violations": bad,
		"replay": "prunnerlint -replay <this file> re-evaluates the property's rules on the current tree and reports which of these constructs still violate",
	})
	fmt.Printf("VIOLATION property=%s replay=%s\n", def.ID, violPath)
	return 1
}

func envOr(k, d string) string {
	if v := os.Getenv(k); v != "" {
		return v
	}
	return d
}

func mergeObs(in []Ob) []Ob {
	idx := map[string]int{}
	var out []Ob
	for _, o := range in {
		k := o.Rule + "\x00" + o.Construct + "\x00" + o.Verdict + "\x00" + o.Detail
		if i, ok := idx[k]; ok {
			if !strings.Contains(out[i].Config, o.Config) {
				out[i].Config += ", " + o.Config
			}
			continue
		}
		idx[k] = len(out)
		out = append(out, o)
	}
	return out
}

func posLess(a, b string) bool {
	pa, pb := strings.Split(a, ":"), strings.Split(b, ":")
	if pa[0] != pb[0] {
		return pa[0] < pb[0]
	}
	for i := 1; i < 3; i++ {
		var x, y int
		if i < len(pa) {
			x, _ = strconv.Atoi(pa[i])
		}
		if i < len(pb) {
			y, _ = strconv.Atoi(pb[i])
		}
		if x != y {
			return x < y
		}
	}
	return false
}
