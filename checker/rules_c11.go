package main

import (
	"fmt"
	"go/constant"
	"go/token"
	"go/types"
	"strings"

	"golang.org/x/tools/go/ssa"
)

func init() {
	register(&PropDef{
		ID:          "C11",
		Level:       "other",
		Explanation: "Shutdown as ordering/pairing rules on the CFG: GATE — the shutting-down flag is set and every wait list is purged (each listed job marked canceled, list deleted) in one write-lock region before any wait, and the accept function tests the flag before any effect; FINAL SAVE — a deferred function registered at entry waits for the runner's WaitGroup and then saves, in that order, so it runs on every return; PAIRING — every go statement of the runner package whose goroutine can mutate job state or call into a scheduler is WaitGroup-paired (Add dominates the go, Done on every path), the persist loop is the one listed exception (it only calls the save, which registers itself in the WaitGroup); FORCED/GRACEFUL — on the context-done branch every job id of the id index is passed to the internal cancel under the write lock and no cancel is reachable on any other path; PERSIST COVERAGE — in every function that takes the write lock, each store to a persisted field and each call of a callee that leaves persisted state dirty is followed on every path by a persist request, a save, or is dominated by a deferred one; the persist loop receives on the request channel and calls the save; SIGNALS — the graceful context is built from {SIGINT, SIGTERM}, the forced one from {SIGTERM}, shutdown receives the forced one after the graceful one is done, and the HTTP handler answers 503 while shutting down. SAVE UNCONDITIONAL — no return of the save is reachable without the store's Save (except for a runner without store); if there is a short cut it must read state the persist request writes, and then only the request itself (not a later save) counts as coverage, Shutdown's purge included. STAGES PAIRED — Scheduler.Schedule waits for every stage goroutine before every return, the cancel edge included (no task executes when shutdown returns).",
		Trusted:     []string{"os/signal delivers the configured signals", "C13", "sync.WaitGroup semantics"},
		NotDecided:  []string{"that running jobs finish (premise)", "the 3 s persist bound", "what the OS delivers"},
		Check:       checkC11,
	})
}

func checkC11(w *World, r *Report) {
	ro := resolveRoles(w)
	ro.record(r)
	if ro.la == nil || ro.Shutdown == nil || ro.Save == nil {
		r.Undecided("anchors", "roles", "-", "shutdown/save unresolved: "+strings.Join(ro.Errs, "; "))
		return
	}
	sd := ro.Shutdown
	sname := FuncName(sd)
	// ---- 0. "when shutdown returns no task is executing": shutdown waits for the jobs to be reported completed, which
	// follows the return of Scheduler.Schedule — which therefore has to wait for every stage goroutine before every return,
	// the cancel edge included (forced shutdown)
	if s := w.FuncByName("taskctl", "(*Scheduler).Schedule"); s != nil {
		ro.goPaired(r, "finished.stages-paired", s, true)
	} else {
		r.Undecided("finished.stages-paired", "taskctl.Scheduler.Schedule", "-", "not found")
	}
	isCall := func(x ssa.Instruction, suffix string) bool {
		c := callCommonOf(x)
		return c != nil && strings.HasSuffix(calleeName(c), suffix)
	}
	// ---- 1. gate + purge in one W region before any wait
	// the flag store and the purge may sit in helpers of the shutdown function: they are then
	// represented by the helper's call in the shutdown function (liftTo), and the helper itself
	// must not release the lock
	var flagStoreRaw, purgeRaw ssa.Instruction
	region := append([]*ssa.Function{sd}, ro.helpersOf(sd)...)
	for _, f := range region {
		for _, st := range ro.storesTo(f, "PipelineRunner.isShuttingDown", func(s *ssa.Store) bool { return isTruthyConst(s.Val) }) {
			flagStoreRaw = st
		}
		allInstrs(f, func(in ssa.Instruction) {
			if c, ok := in.(*ssa.Call); ok {
				if b, ok := c.Call.Value.(*ssa.Builtin); ok && b.Name() == "delete" && ro.isWaitListMap(c.Call.Args[0]) {
					purgeRaw = in
				}
			}
		})
	}
	// the gate function: the shutdown function itself, or the one helper of it that holds both the flag
	// store and the purge together with its own lock region; other helpers are represented by their call
	gate := sd
	if flagStoreRaw != nil && purgeRaw != nil && flagStoreRaw.Parent() == purgeRaw.Parent() && flagStoreRaw.Parent() != sd {
		locksItself := false
		allInstrs(flagStoreRaw.Parent(), func(in ssa.Instruction) {
			if isCall(in, "RWMutex).Lock") {
				locksItself = true
			}
		})
		if locksItself {
			gate = flagStoreRaw.Parent()
		}
	}
	flagStore, purge := ro.liftTo(gate, flagStoreRaw), ro.liftTo(gate, purgeRaw)
	helperUnlocks := false
	for _, f := range append([]*ssa.Function{gate}, ro.helpersOf(gate)...) {
		allInstrs(f, func(in ssa.Instruction) {
			if f != gate && (isCall(in, "RWMutex).Unlock") || isCall(in, "RWMutex).Lock")) {
				helperUnlocks = true
			}
		})
	}
	isWaitPoint := func(x ssa.Instruction) bool {
		if _, ok := x.(*ssa.Select); ok {
			return true
		}
		if u, ok := x.(*ssa.UnOp); ok && u.Op.String() == "<-" {
			return true
		}
		return isCall(x, "WaitGroup).Wait") || isCall(x, "time.Sleep")
	}
	if flagStore == nil || purge == nil {
		r.Viol("gate.region", sname+": flag and purge", w.Pos(sd.Pos()), fmt.Sprintf("shutdown does not set the flag (%v) and purge the wait lists (%v)", flagStore != nil, purge != nil))
	} else {
		// no unlock between the flag store and the purge loop's end; no wait point reachable from entry before the purge region was left
		unlockBetween := PathQuery{Fn: gate, Start: []ssa.Instruction{flagStore}, Target: func(x ssa.Instruction) bool { return x == purge },
			BlockInstr: func(x ssa.Instruction) bool { return isCall(x, "RWMutex).Unlock") }}.Find()
		// state at the flag store is W: a Lock dominates it without Unlock in between
		var lock ssa.Instruction
		allInstrs(gate, func(x ssa.Instruction) {
			if isCall(x, "RWMutex).Lock") && instrDominates(x, flagStore) {
				lock = x
			}
		})
		// no wait point before the gate: in the gate function up to the flag store, and in the shutdown
		// function up to the call of the gate function
		waitBefore := PathQuery{Fn: gate, Target: isWaitPoint, BlockInstr: func(x ssa.Instruction) bool { return x == flagStore }}.Find()
		if gate != sd && !waitBefore.Found {
			if at := ro.liftTo(sd, flagStoreRaw); at != nil {
				waitBefore = PathQuery{Fn: sd, Target: isWaitPoint, BlockInstr: func(x ssa.Instruction) bool { return x == at }}.Find()
			} else {
				waitBefore.Found = true
			}
		}
		// every listed job is marked canceled in the purge loop (the store may sit in a helper that is handed the listed job)
		marked := false
		for _, f := range append([]*ssa.Function{gate}, ro.helpersOf(gate)...) {
			for _, st := range ro.storesTo(f, "PipelineJob.Canceled", func(s *ssa.Store) bool { return isBoolConst(s.Val, true) }) {
				if strings.HasPrefix(w.apAddr(st.Addr), "rangeval(recv.waitListByPipeline)[") {
					marked = true
				}
				if f != gate {
					if fa, ok := w.resolveAddr(st.Addr).(*ssa.FieldAddr); ok {
						if prm, ok := w.Resolve(fa.X).(*ssa.Parameter); ok {
							for _, ci := range findCalls(gate, func(_ string, c *ssa.CallCommon) bool { return c.StaticCallee() == f }) {
								if pi := paramIdxOf(prm); pi < len(ci.Common().Args) && strings.HasPrefix(w.AP(ci.Common().Args[pi]), "rangeval(recv.waitListByPipeline)[") {
									marked = true
								}
							}
						}
					}
				}
			}
		}
		r.Check(lock != nil && unlockBetween.Found && !waitBefore.Found && marked && !helperUnlocks, "gate.region", sname+": flag and purge in one write-lock region before any wait", w.InstrPos(flagStore),
			"Lock → isShuttingDown = true → every waiting job canceled, every wait list deleted, with no Unlock in between and no wait point before",
			fmt.Sprintf("shutdown gate broken (write lock held=%v, purge reachable without unlock=%v, a wait point precedes the gate=%v, listed jobs marked canceled=%v): requests accepted while shutting down can be left unfinished", lock != nil, unlockBetween.Found, waitBefore.Found, marked))
	}
	ro.acceptEffects(r, map[string]bool{"shutdown-gate": true, "rejected-effect-free": true})
	ro.canceledSites(r, "canceled-site")

	// ---- 2. final save
	var fin *ssa.Defer
	allInstrs(sd, func(in ssa.Instruction) {
		if d, ok := in.(*ssa.Defer); ok && d.Block().Index == 0 && fin == nil {
			fin = d
		}
	})
	okFinal := false
	detail := "no deferred function is registered at entry"
	if fin != nil {
		if cl := funcValue(fin.Call.Value); cl != nil {
			var wait, save ssa.Instruction
			allInstrs(cl, func(in ssa.Instruction) {
				if isCall(in, "WaitGroup).Wait") {
					wait = in
				}
				if c := callCommonOf(in); c != nil && c.StaticCallee() == ro.Save {
					save = in
				}
			})
			okFinal = wait != nil && save != nil && instrDominates(wait, save)
			detail = fmt.Sprintf("deferred function waits=%v saves=%v in that order=%v", wait != nil, save != nil, okFinal)
			// registered before anything else can return
			first := true
			for _, in := range sd.Blocks[0].Instrs {
				if in == ssa.Instruction(fin) {
					break
				}
				if _, isRet := in.(*ssa.Return); isRet {
					first = false
				}
			}
			okFinal = okFinal && first
		}
	}
	pos := w.Pos(sd.Pos())
	if fin != nil {
		pos = w.InstrPos(fin)
	}
	r.Check(okFinal, "final-save", sname+": deferred wg.Wait() then save", pos, "registered at entry, hence on every return: wait for in-flight operations, then save", "shutdown does not end with `wait for the WaitGroup, then save` on every return ("+detail+"): the store misses the final state of jobs that completed during shutdown")

	// ---- 3. pairing of goroutines in the runner package
	for _, fn := range ro.rootFuncs() {
		hasGo := false
		allInstrs(fn, func(in ssa.Instruction) {
			if _, ok := in.(*ssa.Go); ok {
				hasGo = true
			}
		})
		if !hasGo {
			continue
		}
		// the persist loop: a goroutine that only receives and calls the save
		allInstrs(fn, func(in ssa.Instruction) {
			g, ok := in.(*ssa.Go)
			if !ok {
				return
			}
			cl := funcValue(g.Call.Value)
			if cl == nil {
				return
			}
			onlySave, recvs := true, false
			allInstrs(cl, func(x ssa.Instruction) {
				if sel, ok := x.(*ssa.Select); ok {
					for _, st := range sel.States {
						if strings.HasSuffix(w.AP(st.Chan), ".persistRequests") {
							recvs = true
						}
					}
				}
				if c := callCommonOf(x); c != nil && !isLogCall(c) {
					n := calleeName(c)
					if c.StaticCallee() == ro.Save || n == "time.Sleep" || n == "invoke:Done" {
						return
					}
					onlySave = false
				}
			})
			if recvs {
				// exception: not WaitGroup-paired itself; side condition: it only calls the save, which registers itself
				selfReg := false
				pr := w.EnumPaths(ro.Save, EnumOpts{MaxPaths: 4})
				for _, p := range pr.Paths {
					if len(p.Effects) >= 2 {
						a, d := false, false
						lim := 4
						if len(p.Effects) < lim {
							lim = len(p.Effects)
						}
						for _, e := range p.Effects[:lim] {
							if e.Kind == "call" && strings.HasSuffix(e.Target, "WaitGroup).Add") {
								a = true
							}
							if e.Kind == "defer" && strings.HasSuffix(e.Target, "WaitGroup).Done") {
								d = true
							}
						}
						selfReg = a && d
					}
				}
				r.Check(onlySave && selfReg, "pairing.persist-loop", FuncName(cl)+": persist loop", w.InstrPos(g), "listed exception: the loop only receives persist requests and calls the save, which counts itself in the WaitGroup (Add; defer Done) so that shutdown waits for a running save", fmt.Sprintf("the persist loop is not WaitGroup-paired and does more than calling the self-registering save (only save=%v, save registers itself=%v)", onlySave, selfReg))
			}
		})
		if fn == ro.Start || fn == ro.CancelInt {
			ro.goPaired(r, "pairing.go", fn, false)
		} else {
			allInstrs(fn, func(in ssa.Instruction) {
				g, ok := in.(*ssa.Go)
				if !ok {
					return
				}
				cl := funcValue(g.Call.Value)
				if cl != nil {
					recvs := false
					allInstrs(cl, func(x ssa.Instruction) {
						if sel, ok := x.(*ssa.Select); ok {
							for _, st := range sel.States {
								if strings.HasSuffix(w.AP(st.Chan), ".persistRequests") {
									recvs = true
								}
							}
						}
					})
					if recvs {
						return
					}
				}
				ro.goPaired(r, "pairing.go", fn, false)
			})
		}
	}

	// ---- 4. forced / graceful
	res := w.EnumPaths(sd, EnumOpts{Inline: true, Opaque: w.statelessCallee, MaxPaths: 20000})
	r.Count("paths", len(res.Paths))
	doneIdx := ""
	allInstrs(sd, func(in ssa.Instruction) {
		if sel, ok := in.(*ssa.Select); ok {
			for i, st := range sel.States {
				if w.AP(st.Chan) == "arg0.Done()" {
					doneIdx = fmt.Sprint(i)
				}
			}
		}
	})
	okForced, okGraceful := false, true
	gracefulDetail, loopExit := "", ""
	for _, p := range res.Paths {
		forced := false
		for _, l := range p.Lits {
			if strings.HasPrefix(l.Atom.L, "select(") && strings.HasSuffix(l.Atom.L, "#0") && l.Atom.R == doneIdx && l.Val {
				forced = true
			}
		}
		cancels, locked := false, false
		for _, e := range p.Effects {
			if e.Kind == "call" && strings.HasSuffix(e.Target, "RWMutex).Lock") {
				locked = true
			}
			if e.Kind == "call" && strings.HasSuffix(e.Target, "RWMutex).Unlock") {
				locked = false
			}
			if e.Kind == "call" && e.Callee != nil && (e.Callee == ro.CancelInt || len(ro.callsReaching(e.Callee, func(f *ssa.Function) bool { return f == ro.CancelInt })) > 0 && e.Callee.Signature.Params().Len() == 1) {
				if (e.Val == "recv,rangekey(recv.jobsByID)" || e.Val == "recv,rangeval(recv.jobsByID)" || e.Val == "recv,recv.jobsByID[rangekey(recv.jobsByID)]") && locked && forced {
					// the call sits in the range loop over the id index, and that loop is left only when the index is exhausted
					if hd, body := naturalLoop(e.In.Block()); hd != nil {
						if exits := earlyExits(hd, body); len(exits) == 0 {
							cancels = true
						} else {
							for _, x := range exits[0].Instrs {
								if x.Pos().IsValid() {
									loopExit = w.Pos(x.Pos())
									break
								}
							}
							if loopExit == "" {
								loopExit = "block " + exits[0].String()
							}
						}
					}
				} else {
					okGraceful = false
					gracefulDetail = "internal cancel called with " + e.Val + fmt.Sprintf(" (forced branch=%v, write lock held=%v)", forced, locked)
				}
			}
		}
		if forced && cancels && p.End == "return" {
			okForced = true
		}
	}
	r.Check(okForced && doneIdx != "", "forced.cancels-all", sname+": context done → cancel every job", w.Pos(sd.Pos()), "on the ctx.Done() branch every id of the id index is passed to the internal cancel under the write lock, then the function returns", "the forced branch of shutdown does not cancel every job of the id index under the write lock"+map[bool]string{true: " (the loop over the index can be left early, towards " + loopExit + ")", false: ""}[loopExit != ""])
	r.Check(okGraceful, "graceful.no-cancel", sname+": no cancel outside the forced branch", w.Pos(sd.Pos()), "the internal cancel is reachable only on the ctx.Done() branch", "a graceful shutdown cancels running jobs: "+gracefulDetail)
	// the poll loop leaves only when no pipeline is running
	okPoll := false
	// (on the path streams: the test may sit in a helper of the shutdown function)
	for _, p := range res.Paths {
		for _, l := range p.Lits {
			if l.Atom.Op == "true" && strings.Contains(l.Atom.L, ro.pipeRunningName()+"(recv,rangekey(recv.jobsByPipeline))") {
				okPoll = true
			}
		}
	}
	if !okPoll {
		// … or in a helper with its own (deferred) lock region, which is not spliced into the paths above
		w.deepCalls(sd, 2, func(c *ssa.Call) {
			if g := c.Call.StaticCallee(); g != nil && g.Blocks != nil && g.Package() == ro.Root {
				for _, f := range w.ifFacts(g) {
					if f.Atom.Op == "true" && strings.Contains(f.Atom.L, ro.pipeRunningName()+"(recv,rangekey(recv.jobsByPipeline))") {
						okPoll = true
					}
				}
			}
		})
	}
	r.Check(okPoll, "graceful.polls-running", sname+": waits while any pipeline is running", w.Pos(sd.Pos()), "the poll loop evaluates the pipeline-running predicate for every pipeline with jobs", "shutdown does not poll the running predicate of every pipeline")

	// ---- 5. persist coverage
	persistCoverage(w, r, ro)

	// ---- 6. signals and 503
	checkSignals(w, r, ro)
	r.Floor("gate.", 1)
	r.Floor("final-save", 1)
	r.Floor("pairing.", 3)
	r.Floor("forced.", 1)
	r.Floor("persist.", 6)
	r.Floor("signals.", 4)
}

func (ro *Roles) pipeRunningName() string {
	if ro.PipeRunning != nil {
		return FuncName(ro.PipeRunning)
	}
	return "?"
}

// persisted fields: the domain of the SAVE table (C10)
var persistedFields = map[string]bool{
	"PipelineJob.Completed": true, "PipelineJob.Canceled": true, "PipelineJob.Start": true, "PipelineJob.End": true, "PipelineJob.LastError": true,
	"PipelineJob.Tasks": true, "PipelineJob.Variables": true, "PipelineJob.User": true,
	"jobTask.Status": true, "jobTask.Start": true, "jobTask.End": true, "jobTask.Skipped": true, "jobTask.ExitCode": true, "jobTask.Errored": true, "jobTask.Error": true,
}

func persistCoverage(w *World, r *Report, ro *Roles) {
	if ro.Persist == nil {
		r.Undecided("persist.anchors", "persist request", "-", "not resolved")
		return
	}
	// a call of the save cleans only if the save is unconditional (decided first, below); a save with a "nothing changed"
	// short cut is tied to the persist request: then only the request itself counts, also in front of Shutdown's deferred save
	saveCleans := saveIsUnconditional(w, r, ro)
	isClean := func(f *ssa.Function) bool { return f == ro.Persist || (saveCleans && f == ro.Save) }
	// direct dirty instructions of a function
	dirtyInstrs := func(fn *ssa.Function) []ssa.Instruction {
		var out []ssa.Instruction
		ro.la.curFn = fn
		allInstrs(fn, func(in ssa.Instruction) {
			switch x := in.(type) {
			case *ssa.Store:
				if k, base, ok := ro.la.rootField(x.Addr); ok && persistedFields[k] && !ro.la.fresh(base, nil) {
					out = append(out, in)
				}
			case *ssa.MapUpdate:
				if ap := w.AP(x.Map); strings.HasSuffix(ap, ".jobsByID") {
					out = append(out, in)
				}
			}
		})
		return out
	}
	// selfClean: every dirty point of fn (own stores and calls of non-self-clean dirty callees) is cleaned before return
	memo := map[*ssa.Function]int{} // 0 unknown, 1 in progress, 2 clean-or-not-dirty, 3 leaves dirty
	var leavesDirty func(fn *ssa.Function) (bool, ssa.Instruction, PathResult)
	leavesDirty = func(fn *ssa.Function) (bool, ssa.Instruction, PathResult) {
		if fn == nil || fn.Blocks == nil || !w.InModule(fn) || isClean(fn) {
			return false, nil, PathResult{}
		}
		if memo[fn] == 1 {
			return false, nil, PathResult{}
		}
		memo[fn] = 1
		points := dirtyInstrs(fn)
		allInstrs(fn, func(in ssa.Instruction) {
			if c, ok := in.(*ssa.Call); ok {
				if f := c.Call.StaticCallee(); f != nil && w.InModule(f) && f.Package() == ro.Root && f != fn {
					if d, _, _ := leavesDirty(f); d {
						points = append(points, in)
					}
				}
			}
		})
		cleans := map[ssa.Instruction]bool{}
		var deferredCleans []ssa.Instruction
		allInstrs(fn, func(in ssa.Instruction) {
			switch x := in.(type) {
			case *ssa.Call:
				if isClean(x.Call.StaticCallee()) {
					cleans[in] = true
				}
			case *ssa.Defer:
				if isClean(x.Call.StaticCallee()) {
					deferredCleans = append(deferredCleans, in)
				}
				if cl := funcValue(x.Call.Value); cl != nil {
					allInstrs(cl, func(y ssa.Instruction) {
						if c := callCommonOf(y); c != nil && isClean(c.StaticCallee()) {
							deferredCleans = append(deferredCleans, in)
						}
					})
				}
			}
		})
		for _, p := range points {
			covered := false
			for _, d := range deferredCleans {
				if instrDominates(d, p) {
					covered = true
				}
			}
			if covered {
				continue
			}
			res := PathQuery{Fn: fn, Start: []ssa.Instruction{p}, Target: isReturn, BlockInstr: func(x ssa.Instruction) bool { return cleans[x] }}.Find()
			if res.Found {
				memo[fn] = 3
				return true, p, res
			}
		}
		memo[fn] = 2
		return false, nil, PathResult{}
	}
	n := 0
	var entries []*ssa.Function
	lifted, seenEntry := map[*ssa.Function]bool{}, map[*ssa.Function]bool{}
	for _, fn := range ro.rootFuncs() {
		if !ro.la.locksMx(fn) || fn == ro.Save {
			continue
		}
		seenEntry[fn] = true
		// only write-locking functions
		writeLocks := false
		allInstrs(fn, func(in ssa.Instruction) {
			if c := callCommonOf(in); c != nil && ro.la.mxOp(c) == "Lock" {
				writeLocks = true
			}
		})
		if !writeLocks {
			continue
		}
		entries = append(entries, fn)
	}
	// an unexported helper with its own lock region is judged in its callers (a call that leaves
	// persisted state dirty is a point of the caller): the operation as a whole must request the save
	for i := 0; i < len(entries); i++ {
		fn := entries[i]
		if fn.Object() != nil && !fn.Object().Exported() {
			var callers []*ssa.Function
			asValue := false
			for _, g := range w.ModFuncs {
				allInstrs(g, func(in ssa.Instruction) {
					if c := callCommonOf(in); c != nil {
						if c.StaticCallee() == fn && (len(callers) == 0 || callers[len(callers)-1] != g) {
							callers = append(callers, g)
						}
						for _, a := range c.Args {
							if funcValue(a) == fn {
								asValue = true
							}
						}
						if _, isGo := in.(*ssa.Go); isGo && c.StaticCallee() == fn {
							asValue = true
						}
					}
					if mc, ok := in.(*ssa.MakeClosure); ok && mc.Fn == ssa.Value(fn) {
						asValue = true
					}
				})
			}
			if !asValue && len(callers) > 0 && len(entries) < 200 {
				lifted[fn] = true
				for _, c := range callers {
					if !seenEntry[c] && c != ro.Save {
						seenEntry[c] = true
						entries = append(entries, c)
					}
				}
			}
		}
	}
	for _, fn := range entries {
		if lifted[fn] {
			continue
		}
		n++
		for k := range memo {
			delete(memo, k)
		}
		dirty, at, res := leavesDirty(fn)
		pos := w.Pos(fn.Pos())
		if at != nil {
			pos = w.InstrPos(at)
		}
		r.Check(!dirty, "persist.coverage", FuncName(fn)+": every change of persisted state requests a save", pos, "every store to a persisted field (and every call that leaves persisted state dirty) is followed by a persist request or save, or dominated by a deferred one", "persisted state is changed here and a return is reachable without a persist request ("+res.String()+"): the change reaches the store only when something else triggers a save")
	}
	// the persist loop exists: receives on the request channel and calls the save
	loop := false
	// functions started with `go` (a method run as the persist loop counts like a closure)
	goTargets := map[*ssa.Function]bool{}
	for _, g := range w.ModFuncs {
		allInstrs(g, func(in ssa.Instruction) {
			if gi, ok := in.(*ssa.Go); ok {
				if f := gi.Call.StaticCallee(); f != nil {
					goTargets[f] = true
				}
			}
		})
	}
	for _, fn := range w.ModFuncs {
		if fn.Parent() == nil && !goTargets[fn] {
			continue
		}
		recvs, saves := false, false
		allInstrs(fn, func(in ssa.Instruction) {
			if sel, ok := in.(*ssa.Select); ok {
				for _, st := range sel.States {
					if strings.HasSuffix(w.AP(st.Chan), ".persistRequests") {
						recvs = true
					}
				}
			}
			if c := callCommonOf(in); c != nil && c.StaticCallee() == ro.Save {
				saves = true
			}
		})
		if recvs && saves {
			loop = true
		}
	}
	// token rule: between two receives on the request channel there is always a save
	for _, fn := range w.ModFuncs {
		var recvs []ssa.Instruction
		allInstrs(fn, func(in ssa.Instruction) {
			switch x := in.(type) {
			case *ssa.Select:
				for _, st := range x.States {
					if st.Dir == types.RecvOnly && strings.HasSuffix(w.AP(st.Chan), ".persistRequests") {
						recvs = append(recvs, in)
					}
				}
			case *ssa.UnOp:
				if x.Op == token.ARROW && strings.HasSuffix(w.AP(x.X), ".persistRequests") {
					recvs = append(recvs, in)
				}
			}
		})
		for _, rc := range recvs {
			saves := func(x ssa.Instruction) bool {
				c := callCommonOf(x)
				return c != nil && c.StaticCallee() == ro.Save
			}
			// a select may also take another branch (ctx.Done → return): only paths that come back to a receive matter
			res := PathQuery{Fn: fn, Start: []ssa.Instruction{rc}, Target: func(x ssa.Instruction) bool {
				for _, r2 := range recvs {
					if r2 == x {
						return true
					}
				}
				return false
			}, BlockInstr: saves}.Find()
			r.Check(!res.Found, "persist.request-consumed-implies-save", FuncName(fn)+": receive on the persist-request channel", w.InstrPos(rc), "every path from this receive to the next receive passes a save: a consumed request is never dropped", "a persist request can be consumed and the next one awaited without a save in between ("+res.String()+"): a change made while a save was in progress never reaches the store")
		}
	}
	r.Check(loop, "persist.loop", "persist loop: receives requests and saves", w.Pos(ro.Persist.Pos()), "a goroutine receives on the persist-request channel and calls the save", "no goroutine turns persist requests into saves")
	// the request is a non-blocking send on a buffered channel
	okSend := false
	allInstrs(ro.Persist, func(in ssa.Instruction) {
		if sel, ok := in.(*ssa.Select); ok && !sel.Blocking {
			okSend = true
		}
	})
	r.Check(okSend, "persist.request-nonblocking", FuncName(ro.Persist)+": non-blocking request", w.Pos(ro.Persist.Pos()), "select with default: a request never blocks the caller that holds the state lock", "a persist request can block while the state lock is held")
	r.Count("write_locking_functions", n)
}

func checkSignals(w *World, r *Report, ro *Roles) {
	app := w.FuncByRole("app", "appAction", func(f *ssa.Function) bool {
		return callsNamed(f, "prunner.NewPipelineRunner") && callsNamed(f, "signal.NotifyContext")
	})
	if app == nil {
		r.Undecided("signals.anchors", "app.appAction", "-", "not found")
		return
	}
	sigName := func(v ssa.Value) string {
		v = w.Resolve(v)
		if mi, ok := v.(*ssa.MakeInterface); ok {
			v = mi.X
		}
		if c, ok := v.(*ssa.Const); ok && c.Value != nil && c.Value.Kind() == constant.Int {
			n, _ := constant.Int64Val(c.Value)
			switch n {
			case 2:
				return "SIGINT"
			case 15:
				return "SIGTERM"
			}
			return fmt.Sprint("signal", n)
		}
		return w.AP(v)
	}
	type nctx struct {
		call *ssa.Call
		sigs map[string]bool
	}
	var ctxs []nctx
	allInstrs(app, func(in ssa.Instruction) {
		if c, ok := in.(*ssa.Call); ok && calleeName(&c.Call) == "os/signal.NotifyContext" {
			sigs := map[string]bool{}
			for _, e := range w.variadicElems(c.Call.Args[1]) {
				sigs[sigName(e)] = true
			}
			ctxs = append(ctxs, nctx{c, sigs})
		}
	})
	var graceful, forced *nctx
	for i := range ctxs {
		s := ctxs[i].sigs
		if len(s) == 2 && s["SIGINT"] && s["SIGTERM"] {
			graceful = &ctxs[i]
		}
		if len(s) == 1 && s["SIGTERM"] {
			forced = &ctxs[i]
		}
	}
	r.Check(graceful != nil, "signals.graceful-context", FuncName(app)+": graceful context", w.Pos(app.Pos()), "a context is cancelled by {SIGINT, SIGTERM}", "no context is built from exactly {SIGINT, SIGTERM}")
	r.Check(forced != nil, "signals.forced-context", FuncName(app)+": forced context", w.Pos(app.Pos()), "a context is cancelled by {SIGTERM} only", "no context is built from exactly {SIGTERM}: SIGINT would force-cancel running jobs, or nothing would")
	if graceful == nil || forced == nil {
		return
	}
	ctxOf := func(n *nctx) ssa.Value {
		for _, ref := range *n.call.Referrers() {
			if ex, ok := ref.(*ssa.Extract); ok && ex.Index == 0 {
				return ex
			}
		}
		return nil
	}
	g, f := ctxOf(graceful), ctxOf(forced)
	// Shutdown receives the forced context, after the graceful one is done
	var sdCall *ssa.Call
	var waitG ssa.Instruction
	allInstrs(app, func(in ssa.Instruction) {
		if c, ok := in.(*ssa.Call); ok && c.Call.StaticCallee() == ro.Shutdown {
			sdCall = c
		}
		if u, ok := in.(*ssa.UnOp); ok && u.Op.String() == "<-" {
			if dc, ok := w.Resolve(u.X).(*ssa.Call); ok && dc.Call.IsInvoke() && dc.Call.Method.Name() == "Done" && w.Resolve(dc.Call.Value) == g {
				waitG = in
			}
		}
	})
	okSd := sdCall != nil && w.Resolve(sdCall.Call.Args[len(sdCall.Call.Args)-1]) == f && waitG != nil && instrDominates(waitG, sdCall)
	pos := w.Pos(app.Pos())
	if sdCall != nil {
		pos = w.InstrPos(sdCall)
	}
	r.Check(okSd, "signals.shutdown-wiring", FuncName(app)+": Shutdown(forced context) after <-graceful.Done()", pos, "the runner is shut down when the graceful context is done, with the forced context as deadline", "Shutdown is not called with the forced (SIGTERM) context after waiting for the graceful context: SIGINT cancels running jobs, or SIGTERM does not")
	// the runner (persist loop) is constructed with the graceful context
	okNew := false
	allInstrs(app, func(in ssa.Instruction) {
		if c, ok := in.(*ssa.Call); ok && strings.HasSuffix(calleeName(&c.Call), "prunner.NewPipelineRunner") {
			okNew = w.Resolve(c.Call.Args[0]) == g
		}
	})
	r.Check(okNew, "signals.runner-context", FuncName(app)+": runner constructed with the graceful context", w.Pos(app.Pos()), "the persist loop stops when shutdown begins; the final save is done by Shutdown", "the runner is not constructed with the graceful context")
	// HTTP 503 while shutting down
	if h := w.FuncByRole("server", "(*server).pipelinesSchedule", func(f *ssa.Function) bool { return callsNamed(f, "PipelineRunner).ScheduleAsync") }); h != nil {
		pr := w.EnumPaths(h, EnumOpts{})
		ok503 := false
		for _, p := range pr.Paths {
			sd := false
			for _, l := range p.Lits {
				if l.Atom.Op == "true" && strings.Contains(l.Atom.L, "errors.Is(") && strings.Contains(l.Atom.L, "ErrShuttingDown") && l.Val {
					sd = true
				}
			}
			if sd {
				for _, e := range p.Effects {
					if e.Kind == "call" && strings.HasSuffix(e.Target, ".sendError") && strings.Contains(e.Val, ",503,") {
						ok503 = true
					}
				}
			}
		}
		r.Check(ok503, "signals.http-503", FuncName(h)+": shutting down → 503", w.Pos(h.Pos()), "ErrShuttingDown is answered with 503", "the schedule endpoint does not answer 503 while the runner is shutting down")
	}
}

// saveIsUnconditional decides whether every call of the save hands the snapshot to the store. If a return of the save (or of
// an exported wrapper) is reachable without the store's Save — a "nothing changed" short cut — the short cut must be tied to
// the persist request: the skipping branch reads a runner field that the persist-request function writes. Then the caller
// demands a persist request (not merely a later save) behind every change of persisted state, Shutdown's purge included.
func saveIsUnconditional(w *World, r *Report, ro *Roles) bool {
	if ro.Save == nil {
		return true
	}
	type site struct {
		fn     *ssa.Function
		isSave func(*ssa.CallCommon) bool
	}
	sites := []site{{ro.Save, func(c *ssa.CallCommon) bool {
		return c.IsInvoke() && c.Method.Name() == "Save" && strings.HasSuffix(c.Value.Type().String(), "store.DataStore")
	}}}
	for _, g := range ro.rootFuncs() {
		if g == ro.Save || g == ro.Shutdown || g.Parent() != nil || g.Object() == nil || !g.Object().Exported() {
			continue
		}
		if len(findCalls(g, func(_ string, c *ssa.CallCommon) bool { return c.StaticCallee() == ro.Save })) > 0 {
			sites = append(sites, site{g, func(c *ssa.CallCommon) bool { return c.StaticCallee() == ro.Save }})
		}
	}
	// runner fields the persist request writes
	marks := map[string]bool{}
	if ro.Persist != nil {
		allInstrs(ro.Persist, func(in ssa.Instruction) {
			if st, ok := in.(*ssa.Store); ok {
				if fa, ok := st.Addr.(*ssa.FieldAddr); ok {
					marks[fieldNameOf(fa)] = true
				}
			}
		})
	}
	unconditional := true
	for _, s := range sites {
		ok, res := saveReachesStore(w, s.fn, s.isSave)
		if ok {
			r.Check(true, "persist.save-unconditional", FuncName(s.fn)+": every path hands the snapshot to the store", w.Pos(s.fn.Pos()),
				"no return is reachable without the store's Save (except for a runner without store)", "")
			continue
		}
		unconditional = false
		// the branch that skips: the last If on the found path; it must read a field the persist request writes
		tied := false
		for i := len(res.Blocks) - 1; i >= 0 && !tied; i-- {
			b := s.fn.Blocks[res.Blocks[i]]
			if ifi, ok := b.Instrs[len(b.Instrs)-1].(*ssa.If); ok {
				var walk func(v ssa.Value, d int)
				walk = func(v ssa.Value, d int) {
					if d > 6 || v == nil {
						return
					}
					switch x := v.(type) {
					case *ssa.UnOp:
						if fa, ok := x.X.(*ssa.FieldAddr); ok && marks[fieldNameOf(fa)] {
							tied = true
						}
						walk(x.X, d+1)
					case *ssa.BinOp:
						walk(x.X, d+1)
						walk(x.Y, d+1)
					case *ssa.Phi:
						for _, e := range x.Edges {
							walk(e, d+1)
						}
					}
				}
				walk(ifi.Cond, 0)
			}
		}
		r.Check(tied, "persist.save-unconditional", FuncName(s.fn)+": every path hands the snapshot to the store", w.Pos(s.fn.Pos()),
			"the save can be skipped, on a condition over state the persist request writes: every change of persisted state must then be followed by a persist request itself (checked by persist.coverage, Shutdown included)",
			"a return is reachable without calling the store's Save ("+res.String()+") and the skipping condition reads nothing the persist request writes: changes made since the last save can be left out of the store")
	}
	return unconditional
}

func fieldNameOf(fa *ssa.FieldAddr) string {
	t := fa.X.Type().Underlying()
	if p, ok := t.(*types.Pointer); ok {
		t = p.Elem().Underlying()
	}
	if st, ok := t.(*types.Struct); ok && fa.Field < st.NumFields() {
		return st.Field(fa.Field).Name()
	}
	return ""
}

// saveReachesStore: in fn no return is reachable from the entry without passing a call matched by isSave, except over
// the nil edge of a test of the store itself (a runner without a store has nothing to save).
func saveReachesStore(w *World, fn *ssa.Function, isSave func(*ssa.CallCommon) bool) (bool, PathResult) {
	n := 0
	allInstrs(fn, func(x ssa.Instruction) {
		if c := callCommonOf(x); c != nil {
			if _, isDefer := x.(*ssa.Defer); !isDefer && isSave(c) {
				n++
			}
		}
	})
	res := PathQuery{Fn: fn, Target: isReturn,
		BlockInstr: func(x ssa.Instruction) bool {
			if c := callCommonOf(x); c != nil {
				if _, isDefer := x.(*ssa.Defer); !isDefer && isSave(c) {
					return true
				}
			}
			return false
		},
		BlockEdge: func(b *ssa.BasicBlock, si int) bool {
			ifi, ok := b.Instrs[len(b.Instrs)-1].(*ssa.If)
			if !ok {
				return false
			}
			op, l, rr, neg, konst := w.condAtom(ifi.Cond, 0)
			if konst != nil {
				return false
			}
			at, tv := canonAtom(op, l, rr, !neg)
			if at.Op != "==" || at.R != "nil" || !strings.HasSuffix(at.L, ".store") {
				return false
			}
			nilSucc := 1
			if tv {
				nilSucc = 0
			}
			return si == nilSucc
		}}.Find()
	return !res.Found && n > 0, res
}
