package main

import (
	"fmt"
	"strings"

	"golang.org/x/tools/go/ssa"
)

// ---------------------------------------------------------------------------------
// C05.4 / C01.4: every site that marks a job canceled, with its wait-list effect.

// removesFromWaitList: does fn (or a module callee, depth ≤ 2) contain an order-preserving
// removal (delete-at-i) from the wait list?
func (ro *Roles) removesFromWaitList(fn *ssa.Function, depth int) (ssa.Instruction, bool) {
	var found ssa.Instruction
	allInstrs(fn, func(in ssa.Instruction) {
		if mu, ok := in.(*ssa.MapUpdate); ok && ro.isWaitListMap(mu.Map) {
			if f := ro.formOf(mu.Value, ro.w.AP(mu.Key), 0); strings.HasPrefix(f, "delete-at-i") {
				found = in
			}
		}
	})
	if found != nil {
		return found, true
	}
	return nil, false
}

// callsThat returns the call instructions of fn whose (static, module) callee satisfies pred transitively (depth ≤ 2).
func (ro *Roles) callsReaching(fn *ssa.Function, pred func(*ssa.Function) bool) []ssa.Instruction {
	var out []ssa.Instruction
	allInstrs(fn, func(in ssa.Instruction) {
		c, ok := in.(*ssa.Call)
		if !ok {
			return
		}
		f := c.Call.StaticCallee()
		if f == nil || !ro.w.InModule(f) {
			return
		}
		if pred(f) {
			out = append(out, in)
			return
		}
		// one more level
		inner := false
		allInstrs(f, func(in2 ssa.Instruction) {
			if c2, ok := in2.(*ssa.Call); ok {
				if f2 := c2.Call.StaticCallee(); f2 != nil && ro.w.InModule(f2) && pred(f2) {
					inner = true
				}
			}
		})
		if inner {
			out = append(out, in)
		}
	})
	return out
}

func (ro *Roles) isDequeue(f *ssa.Function) bool {
	for _, d := range ro.Dequeue {
		if d == f && f != ro.Start {
			return true
		}
	}
	return false
}

// helpersOf lists the inlinable static callees of fn (transitively, depth ≤ 2): the helpers
// whose bodies EnumPaths splices into fn's paths.
func (ro *Roles) helpersOf(fn *ssa.Function) []*ssa.Function {
	var out []*ssa.Function
	seen := map[*ssa.Function]bool{fn: true}
	var rec func(f *ssa.Function, d int)
	rec = func(f *ssa.Function, d int) {
		if d >= 2 {
			return
		}
		allInstrs(f, func(in ssa.Instruction) {
			if c, ok := in.(*ssa.Call); ok {
				if g := c.Call.StaticCallee(); g != nil && !seen[g] && ro.w.inlinable(g) {
					seen[g] = true
					out = append(out, g)
					rec(g, d+1)
				}
			}
		})
	}
	rec(fn, 0)
	return out
}

// liftTo returns the instruction of fn that stands for in: in itself when it belongs to fn,
// else the call in fn of the helper (helpersOf) whose body contains in; nil if there is none.
func (ro *Roles) liftTo(fn *ssa.Function, in ssa.Instruction) ssa.Instruction {
	if in == nil || in.Parent() == fn {
		return in
	}
	var contains func(f *ssa.Function, d int) bool
	contains = func(f *ssa.Function, d int) bool {
		if f == in.Parent() {
			return true
		}
		if d >= 2 {
			return false
		}
		found := false
		allInstrs(f, func(x ssa.Instruction) {
			if c, ok := x.(*ssa.Call); ok {
				if g := c.Call.StaticCallee(); g != nil && g != f && ro.w.inlinable(g) && contains(g, d+1) {
					found = true
				}
			}
		})
		return found
	}
	var out ssa.Instruction
	n := 0
	allInstrs(fn, func(x ssa.Instruction) {
		if c, ok := x.(*ssa.Call); ok {
			if g := c.Call.StaticCallee(); g != nil && ro.w.inlinable(g) && contains(g, 1) {
				out = x
				n++
			}
		}
	})
	if n == 1 {
		return out
	}
	return nil
}

// liftAll returns every instruction of fn that stands for in: in itself when it belongs to
// fn, else all calls in fn of helpers whose body (transitively) contains in.
func (ro *Roles) liftAll(fn *ssa.Function, in ssa.Instruction) []ssa.Instruction {
	if in == nil {
		return nil
	}
	if in.Parent() == fn {
		return []ssa.Instruction{in}
	}
	var contains func(f *ssa.Function, d int) bool
	contains = func(f *ssa.Function, d int) bool {
		if f == in.Parent() {
			return true
		}
		if d >= 3 || f.Blocks == nil {
			return false
		}
		found := false
		allInstrs(f, func(x ssa.Instruction) {
			if c, ok := x.(*ssa.Call); ok {
				if g := c.Call.StaticCallee(); g != nil && g != f && ro.w.InModule(g) && contains(g, d+1) {
					found = true
				}
			}
		})
		return found
	}
	var out []ssa.Instruction
	allInstrs(fn, func(x ssa.Instruction) {
		if c, ok := x.(*ssa.Call); ok {
			if g := c.Call.StaticCallee(); g != nil && ro.w.InModule(g) && contains(g, 1) {
				out = append(out, x)
			}
		}
	})
	return out
}

// roleFuncs lists the resolved anchors.
func (ro *Roles) roleFuncs() []*ssa.Function {
	var out []*ssa.Function
	seen := map[*ssa.Function]bool{}
	for _, f := range append([]*ssa.Function{ro.Accept, ro.Start, ro.StartGo, ro.Admit, ro.Count, ro.RunPred, ro.PipeRunning, ro.DequeueDecision, ro.Completed, ro.CancelInt, ro.CancelAPI, ro.Expiry, ro.MarkCanceled, ro.Shutdown, ro.Save, ro.Load, ro.Replace, ro.Persist, ro.TaskChange, ro.StageChange, ro.GraphBuild}, ro.Dequeue...) {
		if f != nil && !seen[f] {
			seen[f] = true
			out = append(out, f)
		}
	}
	return out
}

// hostsOf returns the anchors into whose paths fn's body is spliced (fn itself when it is an
// anchor), and whether some other module function calls fn too.
func (ro *Roles) hostsOf(fn *ssa.Function) (hosts []*ssa.Function, otherCaller bool) {
	roles := ro.roleFuncs()
	for _, r := range roles {
		if r == fn {
			return []*ssa.Function{fn}, false
		}
	}
	covered := map[*ssa.Function]bool{}
	for _, r := range roles {
		hs := ro.helpersOf(r)
		for _, h := range hs {
			if h == fn {
				hosts = append(hosts, r)
				covered[r] = true
				for _, h2 := range hs {
					covered[h2] = true
				}
			}
		}
	}
	for _, f := range ro.w.ModFuncs {
		if covered[f] || f == fn {
			continue
		}
		allInstrs(f, func(in ssa.Instruction) {
			if c := callCommonOf(in); c != nil && c.StaticCallee() == fn {
				otherCaller = true
			}
			if mc, ok := in.(*ssa.MakeClosure); ok && mc.Fn == ssa.Value(fn) {
				otherCaller = true
			}
		})
	}
	return hosts, otherCaller
}

// canceledSites enumerates every store of Canceled = true and checks the site kind. A site
// in a helper is judged in the anchor(s) the helper is spliced into (EnumPaths inlining).
func (ro *Roles) canceledSites(r *Report, rule string) {
	w := ro.w
	if !ro.need(r, rule, map[string]*ssa.Function{"completion handler": ro.Completed, "start function": ro.Start, "accept function": ro.Accept, "internal cancel": ro.CancelInt, "shutdown": ro.Shutdown, "load": ro.Load}) {
		return
	}
	type site struct {
		fn *ssa.Function
		in ssa.Instruction // the store, or the call of the marking helper
	}
	var sites []site
	for _, fn := range ro.rootFuncs() {
		for _, st := range ro.storesTo(fn, "PipelineJob.Canceled", func(s *ssa.Store) bool { return !isBoolConst(s.Val, false) }) {
			if fn == ro.MarkCanceled {
				continue
			}
			sites = append(sites, site{fn, st})
		}
		if ro.MarkCanceled != nil {
			for _, ci := range findCalls(fn, func(_ string, c *ssa.CallCommon) bool { return c.StaticCallee() == ro.MarkCanceled }) {
				sites = append(sites, site{fn, ci})
			}
		}
	}
	enumMemo := map[*ssa.Function]EnumResult{}
	enum := func(f *ssa.Function) EnumResult {
		if e, ok := enumMemo[f]; ok {
			return e
		}
		e := w.EnumPaths(f, EnumOpts{Inline: true, Opaque: w.statelessCallee, MaxPaths: 20000})
		enumMemo[f] = e
		return e
	}
	// pathsWith: the paths of host on which the site executes, with the index of its effect
	type hit struct {
		p *Path
		i int
	}
	pathsWith := func(host *ssa.Function, in ssa.Instruction) (hits []hit, truncated bool) {
		res := enum(host)
		for _, p := range res.Paths {
			for i, e := range p.Effects {
				if e.In == in {
					hits = append(hits, hit{p, i})
					break
				}
			}
		}
		return hits, res.Truncated
	}
	for _, s := range sites {
		fname := FuncName(s.fn)
		pos := w.InstrPos(s.in)
		key := fname + ": job marked canceled"
		hosts, other := ro.hostsOf(s.fn)
		if len(hosts) == 0 || other {
			r.Undecided(rule, key+" (unknown site)", pos, "a job is marked canceled at a site of unknown kind: its effect on the wait list is not classified")
			continue
		}
		for _, host := range hosts {
			hkey := key
			if host != s.fn {
				hkey = fname + " (in " + FuncName(host) + "): job marked canceled"
			}
			switch host {
			case ro.Completed:
				r.OK(rule, hkey+" (completion)", pos, "completion handler: the job was started, hence is not on the wait list")
			case ro.Load:
				r.OK(rule, hkey+" (load)", pos, "load normalisation in the constructor: no wait list exists yet")
			case ro.Start:
				// graph-error path: neither the Start store nor the go statement is reachable afterwards
				var startStore ssa.Instruction
				for _, st := range ro.storesTo(ro.Start, "PipelineJob.Start", nil) {
					startStore = st
				}
				from := ro.liftTo(host, s.in)
				if from == nil {
					r.Undecided(rule, hkey+" (failed start)", pos, "cannot locate the site in the start function")
					continue
				}
				res := PathQuery{Fn: host, Start: []ssa.Instruction{from}, Target: func(x ssa.Instruction) bool {
					_, isGo := x.(*ssa.Go)
					return x == startStore || isGo
				}}.Find()
				r.Check(!res.Found, rule, hkey+" (failed start)", pos, "failed start: the job was already popped (or never pushed) and is not started afterwards", "after marking the job canceled the start function can still start it ("+res.String()+")")
			case ro.Accept:
				// replace: followed on every path by the overwrite of the same slot
				hits, trunc := pathsWith(host, s.in)
				okR := len(hits) > 0 && !trunc
				for _, h := range hits {
					e := h.p.Effects[h.i]
					slot := strings.TrimSuffix(e.Target, ".Canceled")
					if e.Kind != "store" || !strings.Contains(slot, waitListField) {
						okR = false
						continue
					}
					over := false
					for _, e2 := range h.p.Effects[h.i+1:] {
						if e2.Kind == "store" && e2.Target == slot {
							over = true
						}
					}
					if !over && h.p.End == "return" {
						okR = false
					}
				}
				r.Check(okR, rule, hkey+" (replace)", pos, "replace: the canceled job's wait-list slot is overwritten on every path to the return", "a waiting job is marked canceled in the accept function but its wait-list slot is not overwritten on every path: a canceled job keeps a queue slot")
			case ro.Shutdown:
				// the list is deleted in the same lock region
				hits, trunc := pathsWith(host, s.in)
				okS := len(hits) > 0 && !trunc
				for _, h := range hits {
					deleted := false
					for _, e2 := range h.p.Effects[h.i+1:] {
						if e2.Kind == "delete" && strings.Contains(e2.Val, "."+waitListField) {
							deleted = true
						}
						if e2.Kind == "call" && strings.HasSuffix(e2.Target, "RWMutex).Unlock") {
							break
						}
					}
					if !deleted {
						okS = false
					}
				}
				r.Check(okS, rule, hkey+" (shutdown)", pos, "shutdown: the pipeline's wait list is deleted before the lock is released", "shutdown marks waiting jobs canceled but can release the lock without deleting their wait list")
			case ro.CancelInt:
				// only for an unstarted job, and it must leave the wait list in the same region
				hits, trunc := pathsWith(host, s.in)
				okUnstarted, okRemoved := len(hits) > 0 && !trunc, len(hits) > 0 && !trunc
				detail := ""
				for _, h := range hits {
					p := h.p
					removed := false
					for _, e := range p.Effects[h.i:] {
						if e.Kind == "call" && e.Callee != nil {
							if _, ok := ro.removesFromWaitList(e.Callee, 0); ok {
								removed = true
							}
						}
						if e.Kind == "mapupdate" && strings.Contains(e.Target, waitListField) {
							if mu, ok := e.In.(*ssa.MapUpdate); ok && strings.HasPrefix(ro.formOf(mu.Value, w.AP(mu.Key), 0), "delete-at-i") {
								removed = true
							}
						}
					}
					unstarted := false
					for _, l := range p.Lits {
						if strings.HasSuffix(l.Atom.L, ".Start") && l.Atom.R == "nil" && l.Atom.Op == "==" && l.Val {
							unstarted = true
						}
					}
					if !unstarted {
						okUnstarted = false
						detail = p.LitString()
					}
					if !removed && p.End == "return" {
						// nothing to remove if the job is not on the list: the path compared the list's
						// elements with the job and found none (no such comparison holds on it)
						onList := false
						for _, l := range p.Lits {
							if l.Atom.Op == "==" && l.Val && (strings.Contains(l.Atom.L, waitListField) || strings.Contains(l.Atom.R, waitListField)) && !strings.HasPrefix(l.Atom.L, "len(") {
								onList = true
							}
						}
						searched := false
						for _, l := range p.Lits {
							if strings.Contains(l.Atom.L, waitListField) || strings.Contains(l.Atom.R, waitListField) {
								searched = true
							}
						}
						if onList || !searched {
							okRemoved = false
							detail = p.LitString()
						}
					}
				}
				r.Check(okUnstarted, "canceled-site.cancel-unstarted-only", hkey+" (cancel request)", pos, "the cancel request marks a job canceled directly only on the `Start == nil` path (a started job is canceled through its scheduler and the completion handler)", "the cancel request marks a possibly started job canceled directly (path "+detail+"): its slot is freed while its tasks still run")
				r.Check(okRemoved, rule, hkey+" (cancel of a waiting job)", pos, "cancel of a waiting job removes it from the wait list (order-preserving) in the same lock region", "the cancel request marks a waiting job canceled but leaves it on the wait list: the canceled job keeps a queue slot (queue_limit reports 'queue full' with an empty queue) and, at the head with a pending delay timer, blocks every later job")
			default:
				r.Undecided(rule, hkey+" (unknown site)", pos, "a job is marked canceled at a site of unknown kind: its effect on the wait list is not classified")
			}
		}
	}
	r.Count("canceled_sites", len(sites))
}

var _ = fmt.Sprint
