package main

import (
	"fmt"
	"strings"

	"golang.org/x/tools/go/ssa"
)

// ---------------------------------------------------------------------------------
// C05.4 / C01.4: every site that marks a job canceled, with its wait-list effect.

// removesFromWaitList: does fn (or a module callee, depth ≤ 2) contain an order-preserving
// removal (delete-at-i) from the wait list?
func (ro *Roles) removesFromWaitList(fn *ssa.Function, depth int) (ssa.Instruction, bool) {
	var found ssa.Instruction
	allInstrs(fn, func(in ssa.Instruction) {
		if mu, ok := in.(*ssa.MapUpdate); ok && ro.isWaitListMap(mu.Map) {
			if f := ro.formOf(mu.Value, ro.w.AP(mu.Key), 0); f == "delete-at-i" {
				found = in
			}
		}
	})
	if found != nil {
		return found, true
	}
	return nil, false
}

// callsThat returns the call instructions of fn whose (static, module) callee satisfies pred transitively (depth ≤ 2).
func (ro *Roles) callsReaching(fn *ssa.Function, pred func(*ssa.Function) bool) []ssa.Instruction {
	var out []ssa.Instruction
	allInstrs(fn, func(in ssa.Instruction) {
		c, ok := in.(*ssa.Call)
		if !ok {
			return
		}
		f := c.Call.StaticCallee()
		if f == nil || !ro.w.InModule(f) {
			return
		}
		if pred(f) {
			out = append(out, in)
			return
		}
		// one more level
		inner := false
		allInstrs(f, func(in2 ssa.Instruction) {
			if c2, ok := in2.(*ssa.Call); ok {
				if f2 := c2.Call.StaticCallee(); f2 != nil && ro.w.InModule(f2) && pred(f2) {
					inner = true
				}
			}
		})
		if inner {
			out = append(out, in)
		}
	})
	return out
}

func (ro *Roles) isDequeue(f *ssa.Function) bool {
	for _, d := range ro.Dequeue {
		if d == f && f != ro.Start {
			return true
		}
	}
	return false
}

// canceledSites enumerates every store of Canceled = true and checks the site kind.
func (ro *Roles) canceledSites(r *Report, rule string) {
	w := ro.w
	if !ro.need(r, rule, map[string]*ssa.Function{"completion handler": ro.Completed, "start function": ro.Start, "accept function": ro.Accept, "internal cancel": ro.CancelInt, "shutdown": ro.Shutdown, "load": ro.Load}) {
		return
	}
	type site struct {
		fn *ssa.Function
		in ssa.Instruction // the store, or the call of the marking helper
	}
	var sites []site
	for _, fn := range ro.rootFuncs() {
		for _, st := range ro.storesTo(fn, "PipelineJob.Canceled", func(s *ssa.Store) bool { return !isBoolConst(s.Val, false) }) {
			if fn == ro.MarkCanceled {
				continue
			}
			sites = append(sites, site{fn, st})
		}
		if ro.MarkCanceled != nil {
			for _, ci := range findCalls(fn, func(_ string, c *ssa.CallCommon) bool { return c.StaticCallee() == ro.MarkCanceled }) {
				sites = append(sites, site{fn, ci})
			}
		}
	}
	for _, s := range sites {
		fname := FuncName(s.fn)
		pos := w.InstrPos(s.in)
		key := fname + ": job marked canceled"
		switch s.fn {
		case ro.Completed:
			r.OK(rule, key+" (completion)", pos, "completion handler: the job was started, hence is not on the wait list")
		case ro.Load:
			r.OK(rule, key+" (load)", pos, "load normalisation in the constructor: no wait list exists yet")
		case ro.Start:
			// graph-error path: neither the Start store nor the go statement is reachable afterwards
			var startStore ssa.Instruction
			for _, st := range ro.storesTo(ro.Start, "PipelineJob.Start", nil) {
				startStore = st
			}
			res := PathQuery{Fn: s.fn, Start: []ssa.Instruction{s.in}, Target: func(x ssa.Instruction) bool {
				_, isGo := x.(*ssa.Go)
				return x == startStore || isGo
			}}.Find()
			r.Check(!res.Found, rule, key+" (failed start)", pos, "failed start: the job was already popped (or never pushed) and is not started afterwards", "after marking the job canceled the start function can still start it ("+res.String()+")")
		case ro.Accept:
			// replace: followed on every path by the overwrite of the same slot
			st, _ := s.in.(*ssa.Store)
			okR := false
			if st != nil {
				slot := strings.TrimSuffix(w.apAddr(st.Addr), ".Canceled")
				res := PathQuery{Fn: s.fn, Start: []ssa.Instruction{s.in}, Target: isReturn,
					BlockInstr: func(x ssa.Instruction) bool {
						if st2, ok := x.(*ssa.Store); ok && w.apAddr(st2.Addr) == slot {
							return true
						}
						return false
					}}.Find()
				okR = !res.Found && strings.Contains(slot, waitListField)
			}
			r.Check(okR, rule, key+" (replace)", pos, "replace: the canceled job's wait-list slot is overwritten on every path to the return", "a waiting job is marked canceled in the accept function but its wait-list slot is not overwritten on every path: a canceled job keeps a queue slot")
		case ro.Shutdown:
			// the list is deleted in the same lock region
			res := PathQuery{Fn: s.fn, Start: []ssa.Instruction{s.in}, Target: func(x ssa.Instruction) bool {
				c := callCommonOf(x)
				return c != nil && strings.HasSuffix(calleeName(c), "RWMutex).Unlock")
			}, BlockInstr: func(x ssa.Instruction) bool {
				if c, ok := x.(*ssa.Call); ok {
					if b, ok := c.Call.Value.(*ssa.Builtin); ok && b.Name() == "delete" && ro.isWaitListMap(c.Call.Args[0]) {
						return true
					}
				}
				return false
			}}.Find()
			r.Check(!res.Found, rule, key+" (shutdown)", pos, "shutdown: the pipeline's wait list is deleted before the lock is released", "shutdown marks waiting jobs canceled but can release the lock without deleting their wait list")
		case ro.CancelInt:
			// only for an unstarted job, and it must leave the wait list in the same region
			res := w.EnumPaths(s.fn, EnumOpts{})
			okUnstarted, okRemoved := true, true
			detail := ""
			for _, p := range res.Paths {
				marks := false
				removed := false
				for _, e := range p.Effects {
					if e.In == s.in {
						marks = true
					}
					if marks && e.Kind == "call" && e.Callee != nil {
						if _, ok := ro.removesFromWaitList(e.Callee, 0); ok {
							removed = true
						}
					}
					if marks && e.Kind == "mapupdate" && strings.Contains(e.Target, waitListField) {
						if mu, ok := e.In.(*ssa.MapUpdate); ok && ro.formOf(mu.Value, w.AP(mu.Key), 0) == "delete-at-i" {
							removed = true
						}
					}
				}
				if !marks {
					continue
				}
				unstarted := false
				for _, l := range p.Lits {
					if strings.HasSuffix(l.Atom.L, ".Start") && l.Atom.R == "nil" && l.Atom.Op == "==" && l.Val {
						unstarted = true
					}
				}
				if !unstarted {
					okUnstarted = false
					detail = p.LitString()
				}
				if !removed {
					okRemoved = false
					detail = p.LitString()
				}
			}
			r.Check(okUnstarted, "canceled-site.cancel-unstarted-only", key+" (cancel request)", pos, "the cancel request marks a job canceled directly only on the `Start == nil` path (a started job is canceled through its scheduler and the completion handler)", "the cancel request marks a possibly started job canceled directly (path "+detail+"): its slot is freed while its tasks still run")
			r.Check(okRemoved, rule, key+" (cancel of a waiting job)", pos, "cancel of a waiting job removes it from the wait list (order-preserving) in the same lock region", "the cancel request marks a waiting job canceled but leaves it on the wait list: the canceled job keeps a queue slot (queue_limit reports 'queue full' with an empty queue) and, at the head with a pending delay timer, blocks every later job")
		default:
			r.Undecided(rule, key+" (unknown site)", pos, "a job is marked canceled at a site of unknown kind: its effect on the wait list is not classified")
		}
	}
	r.Count("canceled_sites", len(sites))
}

var _ = fmt.Sprint
