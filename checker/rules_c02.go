package main

import (
	"fmt"
	"go/constant"
	"go/types"
	"sort"
	"strings"

	"golang.org/x/tools/go/ssa"
)

func init() {
	register(&PropDef{
		ID:          "C02",
		Level:       "other",
		Explanation: "Decided shapes behind 'at most once, only after dependencies': LAUNCH-GATE — in the scheduler every go statement that runs a stage lies on a path that observed ReadStatus()==Waiting and a true dependency check for that stage, and sets the stage Running in the scheduling goroutine before the go (so the next poll cannot relaunch it); the stage goroutine never sets Waiting; DEP-VERDICT — one iteration of the dependency loop is evaluated on every (status ∈ the upstream status constants) × allow_failure: ready survives only for Done, Skipped and Error∧allow; Error∧¬allow and Canceled additionally mark the stage Canceled; the loop ranges over all predecessors g.To(stage); STAGE-WIRING — each Stage/Task takes name, depends_on, allow_failure, script and env from the same element of the job's own task snapshot, stages are appended in slice order and handed to NewExecutionGraph, the snapshot is sorted by dependencies before use; CYCLE PATH — on the graph builder's error edge the start function stores the error, marks the job canceled, re-runs the dequeue and can reach neither the Start store nor the go statement; ONCE — one scheduling goroutine per start, a popped job cannot reappear (no lost update); GRAPH INPUT — the dependency lists the graph is built from are the definition's own slices (shared by reference): nothing in the module writes through them (no element store, in-place filter append, sort or copy, directly or in a callee), so the cycle check sees the depends_on that was defined.",
		Trusted:     []string{"upstream ExecutionGraph cycle detection for stages added in topological order", "upstream Stage status accessors are atomic", "C13"},
		NotDecided:  []string{"that the dependency sort is topological and the upstream graph accepts every DAG", "exactly-once on success beyond the launch gate"},
		Check:       checkC02,
	})
}

func statusConsts(w *World) (map[string]int64, map[int64]string) {
	byName, byVal := map[string]int64{}, map[int64]string{}
	p := w.TPkg("github.com/taskctl/taskctl/pkg/scheduler")
	if p == nil {
		return byName, byVal
	}
	for _, n := range p.Scope().Names() {
		if c, ok := p.Scope().Lookup(n).(*types.Const); ok && strings.HasPrefix(n, "Status") {
			if v, ok := constant.Int64Val(c.Val()); ok {
				byName[strings.TrimPrefix(n, "Status")] = v
				byVal[v] = strings.TrimPrefix(n, "Status")
			}
		}
	}
	return byName, byVal
}

func checkC02(w *World, r *Report) {
	ro := resolveRoles(w)
	ro.record(r)
	if ro.la == nil {
		r.Undecided("anchors", "roles", "-", "roles unresolved")
		return
	}
	launchGate(w, r, "launch-gate")
	depVerdict(w, r, "dep-verdict")
	stageWiring(w, r, ro, "stage-wiring")
	cyclePath(w, r, ro, "cycle-path")
	ro.slotEnd(r, "once")
	ro.noLostUpdate(r, "once.no-lost-update")
	ro.dequeueLoop(r, map[string]bool{"pop-on-start": true, "head-only": true})
	ro.orderRules(r, "snapshot-sorted")
	// the dependency lists the graph is built from are the definition's own (shared by reference)
	ro.sharedSlices(r, "graph-input.slices-read-only")
	r.Floor("launch-gate", 2)
	r.Floor("dep-verdict", 2)
	r.Floor("stage-wiring", 6)
	r.Floor("cycle-path", 2)
}

// depCheckFn: the dependency check of the scheduler — (graph, stage) → bool, whatever its name.
func depCheckFn(w *World) *ssa.Function {
	return w.FuncByRole("taskctl", "checkStatus", func(f *ssa.Function) bool {
		if f.Signature.Results().Len() != 1 || f.Signature.Results().At(0).Type().String() != "bool" || f.Signature.Params().Len() != 2 {
			return false
		}
		if f.Signature.Recv() != nil && !recvIs(f, "Scheduler") {
			return false
		}
		g, st := 0, 0
		for i := 0; i < 2; i++ {
			switch {
			case strings.HasSuffix(f.Signature.Params().At(i).Type().String(), "scheduler.ExecutionGraph"):
				g++
			case strings.HasSuffix(f.Signature.Params().At(i).Type().String(), "scheduler.Stage"):
				st++
			}
		}
		return g == 1 && st == 1
	})
}

// stageParamAP: the access path of fn's *scheduler.Stage parameter.
func stageParamAP(w *World, fn *ssa.Function) string {
	for _, p := range fn.Params {
		if strings.HasSuffix(p.Type().String(), "scheduler.Stage") {
			return w.AP(p)
		}
	}
	return "arg1"
}

// runStageFn: the scheduler method that runs one stage — (*Stage) → error, whatever its name.
func runStageFn(w *World) *ssa.Function {
	return w.FuncByRole("taskctl", "(*Scheduler).runStage", func(f *ssa.Function) bool {
		return recvIs(f, "Scheduler") && f.Signature.Params().Len() == 1 && typeShort(f.Signature.Params().At(0).Type()) == "Stage" &&
			f.Signature.Results().Len() == 1 && f.Signature.Results().At(0).Type().String() == "error"
	})
}

// stageGoroutines: the functions the scheduling function launches with a go statement
// (closures or methods), with the go instructions.
func stageGoroutines(s *ssa.Function) (fns []*ssa.Function, gos []*ssa.Go) {
	seen := map[*ssa.Function]bool{}
	allInstrs(s, func(in ssa.Instruction) {
		g, ok := in.(*ssa.Go)
		if !ok {
			return
		}
		gos = append(gos, g)
		f := funcValue(g.Call.Value)
		if f == nil {
			f = g.Call.StaticCallee()
		}
		if f != nil && !seen[f] {
			seen[f] = true
			fns = append(fns, f)
		}
	})
	return fns, gos
}

// stageArgAP: the access path of the *scheduler.Stage argument of a go statement.
func (w *World) stageArgAP(g *ssa.Go) string {
	for _, a := range g.Call.Args {
		if strings.HasSuffix(a.Type().String(), "scheduler.Stage") {
			return w.AP(a)
		}
	}
	return ""
}

func launchGate(w *World, r *Report, rule string) {
	s := w.FuncByName("taskctl", "(*Scheduler).Schedule")
	if s == nil {
		r.Undecided(rule, "taskctl.Scheduler.Schedule", "-", "not found")
		return
	}
	st, _ := statusConsts(w)
	waiting, running := fmt.Sprint(st["Waiting"]), fmt.Sprint(st["Running"])
	res := w.EnumPaths(s, EnumOpts{MaxPaths: 20000})
	r.Count("paths", len(res.Paths))
	depName := ""
	if dc := depCheckFn(w); dc != nil {
		depName = FuncName(dc)
	}
	nGo := 0
	bad := ""
	for _, p := range res.Paths {
		for i, ev := range p.Events {
			if ev.Eff == nil || ev.Eff.Kind != "go" {
				continue
			}
			nGo++
			stage := ev.Eff.Val
			if g, ok := ev.Eff.In.(*ssa.Go); ok {
				w.phiEnv = p.phi
				if sa := w.stageArgAP(g); sa != "" {
					stage = sa
				}
				w.phiEnv = nil
			}
			sawWaiting, depOK, setRunning := false, false, false
			for _, prev := range p.Events[:i] {
				if prev.Lit != nil {
					a := prev.Lit.Atom
					if a.Op == "==" && strings.HasSuffix(a.L, ".ReadStatus("+stage+")") && a.R == waiting && prev.Lit.Val {
						sawWaiting = true
					}
					// the dependency check applied to this stage and the scheduled graph (arguments in either order, with or without receiver)
					if a.Op == "true" && depName != "" && prev.Lit.Val && strings.Contains(a.L, depName+"(") && strings.HasSuffix(a.L, ")") {
						args := splitArgs(a.L[strings.Index(a.L, depName+"(")+len(depName)+1 : len(a.L)-1])
						hasStage, hasGraph := false, false
						for _, x := range args {
							hasStage = hasStage || x == stage
							hasGraph = hasGraph || x == "arg0"
						}
						if hasStage && hasGraph {
							depOK = true
						}
					}
				}
				if prev.Eff != nil && prev.Eff.Kind == "call" && strings.HasSuffix(prev.Eff.Target, ".UpdateStatus") && prev.Eff.Val == stage+","+running {
					setRunning = true
				}
			}
			if !(sawWaiting && depOK && setRunning) {
				bad = fmt.Sprintf("a stage is launched on a path with waiting-observed=%v, dependencies-ready=%v, set-running-before-go=%v (%s)", sawWaiting, depOK, setRunning, p.LitString())
			}
		}
	}
	r.Check(bad == "" && nGo > 0, rule+".gate", FuncName(s)+": stage launch", w.Pos(s.Pos()), fmt.Sprintf("all %d launching paths observed Waiting, passed the dependency check and set Running before the go statement", nGo), bad+": a task can run twice or before its dependencies finished")
	// the stage goroutine never sets Waiting (nor Running)
	stageFns, _ := stageGoroutines(s)
	for _, cl := range stageFns {
		okC := true
		allInstrs(cl, func(in ssa.Instruction) {
			if c := callCommonOf(in); c != nil && strings.HasSuffix(calleeName(c), "scheduler.(Stage).UpdateStatus") {
				if k, ok := c.Args[1].(*ssa.Const); !ok || k.Int64() == st["Waiting"] || k.Int64() == st["Running"] {
					okC = false
				}
			}
		})
		r.Check(okC, rule+".no-reset", FuncName(cl)+": statuses set by the stage goroutine", w.Pos(cl.Pos()), "only terminal statuses are set", "the stage goroutine can set a stage back to waiting/running: it would be launched again")
	}
	// the only place that sets Running is the scheduling loop
	for _, fn := range w.ModFuncs {
		allInstrs(fn, func(in ssa.Instruction) {
			if c := callCommonOf(in); c != nil && strings.HasSuffix(calleeName(c), "scheduler.(Stage).UpdateStatus") {
				if k, ok := c.Args[1].(*ssa.Const); ok && k.Int64() == st["Waiting"] {
					r.Viol(rule+".no-reset", FuncName(fn)+": sets a stage to waiting", w.InstrPos(in), "a stage is put back to waiting: it is launched a second time")
				}
			}
		})
	}
}

func depVerdict(w *World, r *Report, rule string) {
	cs := depCheckFn(w)
	if cs == nil {
		r.Undecided(rule, "taskctl.checkStatus", "-", "not found")
		return
	}
	st, byVal := statusConsts(w)
	if len(st) < 6 {
		r.Undecided(rule, "upstream status constants", "-", "cannot enumerate scheduler.Status* constants")
		return
	}
	// loop header: the block with the range index phi; body start: its true successor
	var header, body *ssa.BasicBlock
	for _, b := range cs.Blocks {
		if len(b.Instrs) == 0 || header != nil {
			continue
		}
		backEdge := false
		for _, p := range b.Preds {
			if b.Dominates(p) {
				backEdge = true
			}
		}
		if _, ok := b.Instrs[len(b.Instrs)-1].(*ssa.If); ok && backEdge {
			header, body = b, b.Succs[0]
		}
	}
	if header == nil {
		r.Undecided(rule, FuncName(cs), w.Pos(cs.Pos()), "dependency loop not recognised")
		return
	}
	res := w.EnumPaths(cs, EnumOpts{Inline: true, Start: body, StopBlock: func(b *ssa.BasicBlock) bool { return b == header }})
	r.Count("paths", len(res.Paths))
	// identify the dependency stage access path from a ReadStatus literal
	D := ""
	for _, p := range res.Paths {
		for _, l := range p.Lits {
			if i := strings.Index(l.Atom.L, ".ReadStatus("); i >= 0 && D == "" {
				D = strings.TrimSuffix(l.Atom.L[i+len(".ReadStatus("):], ")")
			}
		}
	}
	vars := map[string]string{"(*github.com/taskctl/taskctl/pkg/scheduler.Stage).ReadStatus(" + D + ")": "status", D + ".AllowFailure": "allow"}
	if depVerdictDebug {
		fmt.Println("D =", D)
		for i, p := range res.Paths {
			for _, l := range p.Lits {
				_, known := vars[l.Atom.L]
				short := strings.ReplaceAll(l.Atom.L, D, "D")
				fmt.Println(i, p.End, short, l.Atom.Op, l.Atom.R, l.Val, "known:", known)
			}
			fmt.Println(i, p.BackPhi)
		}
	}
	// one read of the dependency's status per iteration: two reads (e.g. one in each of two
	// predicates) can see different values when the dependency changes state in between
	for _, p := range res.Paths {
		reads := 0
		for _, e := range p.Effects {
			if e.Kind == "call" && strings.HasSuffix(e.Target, ".ReadStatus") && e.Val == D {
				reads++
			}
		}
		if reads > 1 {
			r.Viol(rule+".table", FuncName(cs)+": dependency verdict", w.Pos(cs.Pos()), fmt.Sprintf("the status of one dependency is read %d times in one iteration (path %s): the verdict combines two observations that need not agree — a dependent can be launched although the dependency just failed", reads, p.LitString()))
			return
		}
	}
	// the loop-carried flag: the header phi the function's result comes from (whatever its name)
	flag := "ready"
	allInstrs(cs, func(in ssa.Instruction) {
		rt, ok := in.(*ssa.Return)
		if !ok || len(rt.Results) != 1 {
			return
		}
		var find func(v ssa.Value, d int) *ssa.Phi
		find = func(v ssa.Value, d int) *ssa.Phi {
			ph, ok := v.(*ssa.Phi)
			if !ok || d > 3 {
				return nil
			}
			if ph.Block() == header {
				return ph
			}
			for _, e := range ph.Edges {
				if r := find(e, d+1); r != nil {
					return r
				}
			}
			return nil
		}
		if ph := find(rt.Results[0], 0); ph != nil {
			flag = ph.Comment
			if flag == "" {
				flag = ph.Name()
			}
		}
	})
	bad := ""
	n := 0
	var names []string
	for k := range st {
		names = append(names, k)
	}
	sort.Strings(names)
	for _, name := range names {
		for _, allow := range []int64{0, 1} {
			n++
			r.Count("valuations", 1)
			sel, problem := selectPaths(res.Paths, vars, map[string]int64{"status": st[name], "allow": allow}, true)
			var live []PathEval
			for _, pe := range sel {
				if pe.Path.End != "panic" {
					live = append(live, pe)
				}
			}
			if problem != "" || len(live) != 1 {
				r.Undecided(rule+".table", FuncName(cs)+": dependency verdict", w.Pos(cs.Pos()), fmt.Sprintf("status=%s allow=%d: %s (%d paths)", name, allow, problem, len(live)))
				return
			}
			p := live[0].Path
			cleared := p.BackPhi[flag] == "false"
			kept := p.BackPhi[flag] == "<unchanged>"
			marked := false
			for _, e := range p.Effects {
				if e.Kind == "call" && strings.HasSuffix(e.Target, ".UpdateStatus") && e.Val == stageParamAP(w, cs)+","+fmt.Sprint(st["Canceled"]) {
					marked = true
				} else if e.Kind == "call" && strings.HasSuffix(e.Target, ".UpdateStatus") {
					bad = "sets the waiting stage to status " + e.Val
				}
			}
			wantKeep := name == "Done" || name == "Skipped" || (name == "Error" && allow == 1)
			wantMark := name == "Canceled" || (name == "Error" && allow == 0)
			if wantKeep != kept || (!wantKeep && !cleared) || wantMark != marked {
				bad = fmt.Sprintf("dependency in status %s (allow_failure=%v): ready kept=%v cleared=%v, dependent marked canceled=%v; expected keep=%v mark=%v", name, allow == 1, kept, cleared, marked, wantKeep, wantMark)
			}
		}
	}
	_ = byVal
	r.Check(bad == "", rule+".table", FuncName(cs)+": dependency verdict", w.Pos(cs.Pos()), fmt.Sprintf("%d rows (status × allow_failure): ready survives only for Done, Skipped, Error∧allow; Error∧¬allow and Canceled mark the dependent canceled", n), "the dependency verdict is wrong: "+bad+" — a task can start although a dependency has not finished successfully, or dependents of a failed task are launched")
	// all predecessors are iterated, and the result is the loop-carried flag
	okTo := false
	allInstrs(cs, func(in ssa.Instruction) {
		if c, ok := in.(*ssa.Call); ok && strings.HasSuffix(calleeName(&c.Call), "scheduler.(ExecutionGraph).To") && w.AP(c.Call.Args[1]) == stageParamAP(w, cs)+".Name" {
			okTo = true
		}
	})
	retOK := true
	allInstrs(cs, func(in ssa.Instruction) {
		if rt, ok := in.(*ssa.Return); ok {
			if k, isC := rt.Results[0].(*ssa.Const); isC && isBoolConst(k, true) {
				// a constant true return is fine only when no dependency was inspected (empty loop) — SSA folds that into the phi; a literal `return true` elsewhere is not
				retOK = retOK && rt.Block() != body
			}
		}
	})
	r.Check(okTo && retOK, rule+".all-predecessors", FuncName(cs)+": iterates g.To(stage.Name)", w.Pos(cs.Pos()), "the loop ranges over all predecessors of the stage and returns the accumulated flag", "the dependency check does not range over all predecessors of the stage (g.To(stage.Name))")
}

func stageWiring(w *World, r *Report, ro *Roles, rule string) {
	gb := ro.GraphBuild
	if gb == nil {
		r.Undecided(rule, "graph builder", "-", "not resolved")
		return
	}
	fname := FuncName(gb)
	// (helpers that build the task, the stage or the variables of one element are spliced in)
	res := w.EnumPaths(gb, EnumOpts{Inline: true, MaxPaths: 20000})
	r.Count("paths", len(res.Paths))
	// take a path that reaches NewExecutionGraph
	var p *Path
	for _, q := range res.Paths {
		for _, e := range q.Effects {
			if e.Kind == "call" && strings.HasSuffix(e.Target, "scheduler.NewExecutionGraph") && (p == nil || len(q.Effects) > len(p.Effects)) {
				p = q
			}
		}
	}
	if p == nil {
		r.Viol(rule, fname+": NewExecutionGraph", w.Pos(gb.Pos()), "the graph builder never calls scheduler.NewExecutionGraph")
		return
	}
	// the element of the task snapshot: the tasks parameter is the one of slice type with jobTask elements
	E := ""
	for _, e := range p.Effects {
		if e.Kind == "store" && e.Target == "local:taskDef" {
			E = e.Val
		}
	}
	if E == "" {
		for _, e := range p.Effects {
			if e.Kind == "store" && strings.HasSuffix(e.Target, ".Name") && strings.HasSuffix(e.Val, ".Name") {
				E = strings.TrimSuffix(e.Val, ".Name")
			}
		}
	}
	want := map[string][]string{
		"Stage.Name":         {E + ".Name"},
		"Stage.DependsOn":    {E + ".TaskDef.DependsOn", E + ".DependsOn"},
		"Stage.AllowFailure": {E + ".TaskDef.AllowFailure", E + ".AllowFailure"},
		"Task.Name":          {E + ".Name"},
		"Task.AllowFailure":  {E + ".TaskDef.AllowFailure", E + ".AllowFailure"},
		"Task.Env":           {"github.com/taskctl/taskctl/pkg/variables.FromMap(" + E + ".TaskDef.Env)", "github.com/taskctl/taskctl/pkg/variables.FromMap(" + E + ".Env)"},
	}
	got := map[string]string{}
	taskAP := ""
	for _, e := range p.Effects {
		if e.Kind == "call" && strings.HasSuffix(e.Target, "task.FromCommands") {
			taskAP = e.Target + "(" + e.Val + ")"
			got["Task.Script"] = e.Val
		}
	}
	for _, e := range p.Effects {
		if e.Kind != "store" {
			continue
		}
		for _, f := range []string{"Name", "DependsOn", "AllowFailure", "Task", "Variables"} {
			if e.Target == "local:complit."+f {
				got["Stage."+f] = e.Val
			}
		}
		for _, f := range []string{"Name", "AllowFailure", "Env"} {
			if taskAP != "" && e.Target == taskAP+"."+f {
				got["Task."+f] = e.Val
			}
		}
	}
	want["Task.Script"] = []string{E + ".TaskDef.Script", E + ".Script"}
	want["Stage.Task"] = []string{taskAP}
	var keys []string
	for k := range want {
		keys = append(keys, k)
	}
	sort.Strings(keys)
	for _, k := range keys {
		ok := false
		for _, wv := range want[k] {
			if got[k] == wv && wv != "" {
				ok = true
			}
		}
		r.Check(ok, rule+".fields", fname+": "+k, w.Pos(gb.Pos()), k+" ← "+got[k], fmt.Sprintf("%s is wired to %q, expected the same task element's %s: a task runs another task's script, dependencies or failure policy", k, got[k], strings.Join(want[k], " | ")))
	}
	// the element ranges over the tasks parameter; stages are pushed back and passed on
	// (the task snapshot: the builder's task-list parameter, or the Tasks field of its job parameter)
	okElem := false
	for _, prm := range gb.Params {
		ap := w.AP(prm)
		t := shapeString(prm.Type())
		if strings.HasPrefix(t, "[]") && strings.HasPrefix(E, ap+"[") {
			okElem = true
		}
		if strings.HasSuffix(t, "PipelineJob") && strings.HasPrefix(E, ap+".Tasks[") {
			okElem = true
		}
	}
	push, passed := false, false
	for _, e := range p.Effects {
		if e.Kind == "call" && e.Target == "append" && strings.HasSuffix(e.Val, ",[&local:complit]") {
			push = true
		}
		if e.Kind == "call" && strings.HasSuffix(e.Target, "scheduler.NewExecutionGraph") && strings.Contains(e.Val, "append(") {
			passed = true
		}
	}
	r.Check(okElem && push && passed, rule+".order", fname+": stages in snapshot order", w.Pos(gb.Pos()), "stages are built from the elements of the job's task snapshot in slice order and handed to NewExecutionGraph", "stages are not built from the task snapshot in its (topological) slice order: the upstream cycle detector reports false cycles for graphs added out of order")
}

func cyclePath(w *World, r *Report, ro *Roles, rule string) {
	if ro.Start == nil || ro.GraphBuild == nil {
		r.Undecided(rule, "start function / graph builder", "-", "not resolved")
		return
	}
	fn := ro.Start
	// (helpers of the start function — `abortJobStart(job, err)`, `runJob(job, graph)` — are spliced into its paths; the
	// dequeue function is an anchor and stays a call)
	res := w.EnumPaths(fn, EnumOpts{Inline: true, MaxPaths: 20000})
	if res.Truncated || len(res.Paths) == 0 {
		res = w.EnumPaths(fn, EnumOpts{})
	}
	r.Count("paths", len(res.Paths))
	okErr, okOK := false, false
	detail := ""
	gbName := FuncName(ro.GraphBuild)
	for _, p := range res.Paths {
		var errLit *Lit
		for i, l := range p.Lits {
			if strings.HasPrefix(l.Atom.L, gbName+"(") && strings.HasSuffix(l.Atom.L, "#1") && l.Atom.R == "nil" {
				errLit = &p.Lits[i]
			}
		}
		if errLit == nil {
			continue
		}
		lastErr, canceled, started, spawned, dq := false, false, false, false, false
		for _, e := range p.Effects {
			switch {
			case e.Kind == "store" && e.Target == "arg0.LastError" && strings.HasSuffix(e.Val, "#1"):
				lastErr = true
			case e.Kind == "store" && e.Target == "arg0.Canceled" && e.Val == "true":
				canceled = true
			case e.Kind == "store" && e.Target == "arg0.Start":
				started = true
			case e.Kind == "go":
				spawned = true
			case e.Kind == "call" && ro.alwaysDequeues(e.Callee, 0):
				dq = true
			}
		}
		if !errLit.Val { // err != nil
			if lastErr && canceled && !started && !spawned && dq {
				okErr = true
			} else {
				detail = fmt.Sprintf("error path: LastError stored=%v, canceled=%v, Start stored=%v, goroutine spawned=%v, dequeue re-run=%v", lastErr, canceled, started, spawned, dq)
			}
		} else if started && spawned {
			okOK = true
		}
	}
	r.Check(okErr && detail == "", rule+".error-edge", FuncName(fn)+": graph cannot be built", w.Pos(fn.Pos()), "on the builder's error edge the error is stored, the job is marked canceled, the dequeue is re-run, and neither Start nor the goroutine is reached", "a job whose graph cannot be built (cycle, reserved variable) is not ended as canceled-with-error without running anything: "+detail)
	r.Check(okOK, rule+".ok-edge", FuncName(fn)+": graph built", w.Pos(fn.Pos()), "on the ok edge Start is stored and the scheduling goroutine is spawned", "the ok edge of the graph builder does not start the job")
}
