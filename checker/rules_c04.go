package main

import (
	"fmt"
	"strings"

	"golang.org/x/tools/go/ssa"
)

func init() {
	register(&PropDef{
		ID:          "C04",
		Level:       "other",
		Explanation: "Cancel as decision/effect table plus ordering rules: (1) the internal cancel function is evaluated on all classes of (found, canceled, completed, started, scheduler present): unknown id → not-found error without effect; already canceled → nil without effect; completed → error without effect; unstarted → the job is marked canceled (and, by the canceled-site rule, leaves the wait list) → nil; running → the scheduler's Cancel is delivered on a WaitGroup-paired goroutine → nil; the HTTP handler maps not-found to 404; (2) the start function refuses canceled jobs before creating the scheduler, storing Start or spawning; (3) Scheduler.Cancel stores the flag before delegating; the scheduling loop tests the flag on every iteration before any launch; TaskRunner.Run tests ctx.Err() before compiling or executing anything; TaskRunner.Cancel cancels and then waits for all runs, and every Lock in package taskctl is released on every path to a return of its function (a second Cancel must not block forever); (4) on no path of the scheduler that took the `cancelled == 1` edge is a possibly-nil result returned while stages may be unfinished (dischargers: a non-nil error stored to the result, the result != nil edge, the isDone == true edge; the flag is only ever set to 1), and the completion handler sets Canceled iff the result is context.Canceled. SURVIVES A RESTART — the load normalisation table: every job found in the store ends terminal and is neither queued nor started again (an acknowledged cancel that had not been saved yet cannot be undone by a crash).",
		Trusted:     []string{"C13", "context cancellation reaches running commands (C20)", "upstream runner returns context.Canceled for canceled runs"},
		NotDecided:  []string{"timing of delivery", "that the runner's Cancel actually stops processes (C20)"},
		Check:       checkC04,
	})
}

func checkC04(w *World, r *Report) {
	ro := resolveRoles(w)
	ro.record(r)
	if ro.la == nil || ro.CancelInt == nil {
		r.Undecided("anchors", "roles", "-", "internal cancel unresolved: "+strings.Join(ro.Errs, "; "))
		return
	}
	// ---- 0. an acknowledged cancel survives a restart: the cancel reaches the store only with the next (debounced) save; a
	// restart in between must not let the job run after all — every job found in the store ends terminal and is never
	// queued or started again (load normalisation table, shared with C10/C03)
	checkLoadNormalisation(w, r)
	// ---- 1. cancel table
	// evaluated on the exported cancel with the internal cancel (and any wrapper between them)
	// spliced in: the table is about what a cancel request by id does, however the work is
	// divided between the functions
	fn := ro.CancelInt
	if ro.CancelAPI != nil {
		fn = ro.CancelAPI
	}
	fname := FuncName(ro.CancelInt)
	res := w.EnumPaths(fn, EnumOpts{Inline: true, MaxPaths: 20000, Opaque: w.statelessCallee, ForceInline: func(f *ssa.Function) bool { return f == ro.CancelInt }})
	r.Count("paths", len(res.Paths))
	J := "recv.jobsByID[arg0]"
	vars := map[string]string{"has(" + J + ")": "found", J + ".Canceled": "canceled", J + ".Completed": "completed", J + ".Start": "startptr", J + ".sched": "schedptr", J: "found"}
	type row struct{ found, canceled, completed, start, sched int64 }
	bad := ""
	n := 0
	for _, fd := range []int64{0, 1} {
		for _, ca := range []int64{0, 1} {
			for _, co := range []int64{0, 1} {
				for _, st := range []int64{0, 1} {
					for _, sc := range []int64{0, 1} {
						if fd == 0 && (ca+co+st+sc) > 0 {
							continue
						}
						n++
						r.Count("valuations", 1)
						env := map[string]int64{"found": fd, "canceled": ca, "completed": co, "startptr": st, "schedptr": sc}
						// other inputs (the list position of the job, its timer, its tasks) are unconstrained: every consistent path must conform
						sel, problem := selectPaths(res.Paths, vars, env, true)
						if problem != "" || len(sel) == 0 {
							r.Undecided("cancel.table", fname+": cancel table", w.Pos(fn.Pos()), fmt.Sprintf("cannot evaluate on %+v: %s (%d paths)", env, problem, len(sel)))
							return
						}
						// several paths only where an inlined helper branches on something else: each must conform
						for _, pe := range sel {
							p := pe.Path
							marks, delivers, other := false, false, ""
							for _, e := range p.Effects {
								switch {
								case e.Kind == "call" && e.Callee == ro.MarkCanceled, e.Kind == "store" && strings.HasSuffix(e.Target, ".Canceled") && e.Val == "true":
									marks = true
								case e.Kind == "go":
									delivers = w.deliversSchedulerCancel(e.In.(*ssa.Go))
									if !delivers {
										other = "spawns a goroutine that does not call the scheduler's Cancel"
									}
								case e.Kind == "call" && e.Callee != nil && (e.Callee == ro.Persist || ro.callsWaitListRemoval(e.Callee)):
								case e.Kind == "call" && isWGMethod(callCommonOf(e.In), "Add"):
								case (e.Kind == "call" || e.Kind == "defer") && strings.Contains(e.Target, "sync.RWMutex)"):
								case e.Kind == "call" && e.Spliced:
									// (kept call effect of a spliced function: its body follows)
								case e.Kind == "store" && e.Val == "true" && strings.HasPrefix(e.Target, J+".") && !strings.HasSuffix(e.Target, ".Canceled") && !strings.HasSuffix(e.Target, ".Completed"):
								// the request flag (verdict rule)
								case e.Kind == "store" && strings.HasPrefix(e.Target, "local"):
								case e.Kind == "call" || e.Kind == "store" || e.Kind == "mapupdate" || e.Kind == "delete" || e.Kind == "defer":
									other = e.String()
								}
							}
							ret := ""
							if len(p.Ret) == 1 {
								ret = p.Ret[0]
							}
							var want string
							switch {
							case fd == 0:
								want = "not-found error, no effect"
								if !strings.Contains(ret, "NotFound") || marks || delivers || other != "" {
									bad = fmt.Sprintf("unknown id: returns %s, marks=%v delivers=%v other=%s", ret, marks, delivers, other)
								}
							case ca == 1:
								want = "nil, no effect"
								if ret != "nil" || marks || delivers || other != "" {
									bad = fmt.Sprintf("already canceled job: returns %s, marks=%v delivers=%v other=%s (must be a no-op without error)", ret, marks, delivers, other)
								}
							case co == 1:
								want = "already-completed error, no effect"
								if ret == "nil" || marks || delivers || other != "" {
									bad = fmt.Sprintf("finished job: returns %s, marks=%v delivers=%v other=%s (a finished job must be left unchanged)", ret, marks, delivers, other)
								}
							case st == 0:
								want = "marked canceled, nil"
								if ret != "nil" || !marks || delivers {
									bad = fmt.Sprintf("unstarted job: returns %s, marked canceled=%v delivers=%v (an acknowledged cancel of a waiting job must mark it canceled)", ret, marks, delivers)
								}
							case sc == 1:
								want = "scheduler cancel delivered, nil"
								if ret != "nil" || !delivers || marks {
									bad = fmt.Sprintf("running job: returns %s, scheduler cancel delivered=%v, marked directly=%v (an acknowledged cancel of a running job must tell its scheduler to stop)", ret, delivers, marks)
								}
							default:
								want = "nil (unreachable: a started, uncompleted job has a scheduler)"
								if marks || delivers {
									bad = "started job without scheduler: unexpected effect"
								}
							}
							_ = want
						}
					}
				}
			}
		}
	}
	r.Check(bad == "", "cancel.table", fname+": cancel table", w.Pos(fn.Pos()), fmt.Sprintf("%d classes of (found, canceled, completed, started, scheduler) give the stated result and effect", n), "the cancel table is violated: "+bad)
	// the delivering goroutine is WaitGroup-paired
	ro.goPaired(r, "cancel.delivery-paired", ro.CancelInt, false)
	// HTTP: not found → 404
	if h := w.FuncByRole("server", "(*server).jobCancel", func(f *ssa.Function) bool { return callsNamed(f, "PipelineRunner).CancelJob") }); h != nil {
		pr := w.EnumPaths(h, EnumOpts{})
		ok404 := false
		for _, p := range pr.Paths {
			nf := false
			for _, l := range p.Lits {
				if l.Atom.Op == "true" && strings.Contains(l.Atom.L, "errors.Is(") && strings.Contains(l.Atom.L, "ErrJobNotFound") && l.Val {
					nf = true
				}
			}
			if nf {
				for _, e := range p.Effects {
					if e.Kind == "call" && strings.HasSuffix(e.Target, ".sendError") && strings.Contains(e.Val, ",404,") {
						ok404 = true
					}
				}
			}
		}
		r.Check(ok404, "cancel.http-not-found", FuncName(h)+": unknown id → 404", w.Pos(h.Pos()), "ErrJobNotFound is answered with 404", "the cancel endpoint does not map the not-found error to 404")
	}
	// ---- 2. start refusal (+ one goroutine etc.)
	ro.slotEnd(r, "start")
	ro.canceledSites(r, "canceled-site")

	// ---- 3. stop order
	checkStopOrder(w, r)
	// ---- 4. canceled verdict
	checkCanceledVerdict(w, r, ro)
	r.Floor("cancel.", 3)
	r.Floor("stop.", 4)
	r.Floor("stop.locks-released", 2)
	r.Floor("verdict.", 3)
}

// deliversSchedulerCancel: the spawned closure calls (a bound method value of) Scheduler.Cancel.
func (w *World) deliversSchedulerCancel(g *ssa.Go) bool {
	cl := funcValue(g.Call.Value)
	if cl == nil {
		return false
	}
	found := false
	allInstrs(cl, func(in ssa.Instruction) {
		c, ok := in.(*ssa.Call)
		if !ok {
			return
		}
		if strings.HasSuffix(calleeName(&c.Call), "taskctl.(Scheduler).Cancel") {
			found = true
			return
		}
		// a function value bound in the spawner: resolve the closure variable
		v := w.Resolve(c.Call.Value)
		if mc, ok := v.(*ssa.MakeClosure); ok && strings.Contains(mc.Fn.Name(), "Cancel$bound") && strings.Contains(mc.Fn.String(), "Scheduler") {
			found = true
		}
		// the function to run is a parameter of the spawner (a "run this on a tracked goroutine" helper):
		// every caller hands it the scheduler's bound Cancel
		if fv, ok := v.(*ssa.FreeVar); ok {
			for i, x := range cl.FreeVars {
				if x == fv {
					if mc, ok := g.Call.Value.(*ssa.MakeClosure); ok && i < len(mc.Bindings) {
						v = w.Resolve(mc.Bindings[i])
					}
				}
			}
		}
		if prm, ok := v.(*ssa.Parameter); ok && prm.Parent() == g.Parent() {
			pi := paramIdxOf(prm)
			n, all := 0, true
			for _, f := range w.ModFuncs {
				for _, ci := range findCalls(f, func(_ string, cc *ssa.CallCommon) bool { return cc.StaticCallee() == g.Parent() }) {
					n++
					a := w.Resolve(ci.Common().Args[pi])
					if mc, ok := a.(*ssa.MakeClosure); !ok || !strings.Contains(mc.Fn.Name(), "Cancel$bound") || !strings.Contains(mc.Fn.String(), "Scheduler") {
						all = false
					}
				}
			}
			if n > 0 && all {
				found = true
			}
		}
	})
	return found
}

func (ro *Roles) callsWaitListRemoval(f *ssa.Function) bool {
	_, ok := ro.removesFromWaitList(f, 0)
	return ok
}

func checkStopOrder(w *World, r *Report) {
	// Scheduler.Cancel: flag store before delegating
	if c := w.FuncByName("taskctl", "(*Scheduler).Cancel"); c != nil {
		var store, deleg ssa.Instruction
		allInstrs(c, func(in ssa.Instruction) {
			cc := callCommonOf(in)
			if cc == nil {
				return
			}
			if calleeName(cc) == "sync/atomic.StoreInt32" && strings.HasSuffix(w.AP(cc.Args[0]), ".cancelled") && isConstInt(cc.Args[1], 1) {
				store = in
			}
			if cc.IsInvoke() && cc.Method.Name() == "Cancel" {
				deleg = in
			}
		})
		r.Check(store != nil && deleg != nil && instrDominates(store, deleg), "stop.flag-before-delegation", FuncName(c)+": flag then runner cancel", w.Pos(c.Pos()), "the cancelled flag is set to 1 before the task runner is told to cancel", "Scheduler.Cancel does not set the flag before (or does not) delegate to the task runner: a stage can be launched after the stop was delivered")
	} else {
		r.Undecided("stop.flag-before-delegation", "taskctl.Scheduler.Cancel", "-", "not found")
	}
	// every store to the flag stores 1
	okOne := true
	for _, fn := range w.ModFuncs {
		allInstrs(fn, func(in ssa.Instruction) {
			if cc := callCommonOf(in); cc != nil && strings.HasPrefix(calleeName(cc), "sync/atomic.") && len(cc.Args) >= 2 && strings.HasSuffix(w.AP(cc.Args[0]), ".cancelled") {
				if strings.Contains(calleeName(cc), "Store") && !isConstInt(cc.Args[1], 1) {
					okOne = false
				}
				if strings.Contains(calleeName(cc), "Swap") || strings.Contains(calleeName(cc), "Add") {
					okOne = false
				}
			}
		})
	}
	r.Check(okOne, "stop.flag-monotone", "taskctl.Scheduler.cancelled: only ever set to 1", "-", "the cancel flag is never reset", "the cancel flag can be reset: an acknowledged cancel can be lost")
	// loop tests the flag before any launch, every iteration
	if s := w.FuncByName("taskctl", "(*Scheduler).Schedule"); s != nil {
		var flagIf *ifFact
		facts := w.ifFacts(s)
		for i, f := range facts {
			isFlag := strings.Contains(f.Atom.L, "LoadInt32(recv.cancelled)") && f.Atom.R == "1" && f.Atom.Op == "=="
			if !isFlag && f.Atom.Op == "true" {
				// a named predicate whose only result is that comparison
				cond := w.Resolve(f.If.Cond)
				if u, ok := cond.(*ssa.UnOp); ok && u.Op.String() == "!" {
					cond = w.Resolve(u.X)
				}
				if c, ok := cond.(*ssa.Call); ok {
					if g := c.Call.StaticCallee(); g != nil && g.Blocks != nil && w.InModule(g) && len(c.Call.Args) == 1 && w.AP(c.Call.Args[0]) == "recv" {
						pr := w.EnumPaths(g, EnumOpts{})
						isFlag = len(pr.Paths) > 0
						for _, p := range pr.Paths {
							if len(p.RetVals) != 1 {
								isFlag = false
								continue
							}
							op, l, rr, neg, _ := w.condAtom(p.RetVals[0], 0)
							if !(op == "==" && !neg && strings.Contains(l, "LoadInt32(recv.cancelled)") && rr == "1") {
								isFlag = false
							}
						}
					}
				}
			}
			if isFlag {
				// the test that lies on the scheduling loop (a later re-test after the loop is not it)
				if (PathQuery{Fn: s, Start: []ssa.Instruction{f.If}, Target: func(x ssa.Instruction) bool { return x == ssa.Instruction(f.If) }}).Find().Found {
					flagIf = &facts[i]
				}
			}
		}
		if flagIf == nil {
			r.Viol("stop.flag-tested-each-iteration", FuncName(s)+": launch loop tests the flag", w.Pos(s.Pos()), "the scheduling loop never tests the cancel flag: stages keep being launched after a cancel")
		} else {
			okAll := true
			nGo := 0
			allInstrs(s, func(in ssa.Instruction) {
				g, ok := in.(*ssa.Go)
				if !ok {
					return
				}
				nGo++
				blk := func(b *ssa.BasicBlock, succ int) bool { return b == flagIf.If.Block() && succ == flagIf.SuccFalse }
				fromEntry := PathQuery{Fn: s, Target: func(x ssa.Instruction) bool { return x == ssa.Instruction(g) }, BlockEdge: blk}.Find()
				// between two launches of different iterations the test lies on the cycle through the loop header
				if fromEntry.Found {
					okAll = false
				}
			})
			// the flag test must be re-evaluated per outer iteration: it is inside the loop that contains isDone
			inLoop := PathQuery{Fn: s, Start: []ssa.Instruction{flagIf.If}, Target: func(x ssa.Instruction) bool { return x == ssa.Instruction(flagIf.If) }}.Find().Found
			brk := blockReachesReturnWithoutGo(s, flagIf.If.Block().Succs[flagIf.SuccTrue])
			r.Check(okAll && inLoop && brk && nGo > 0, "stop.flag-tested-each-iteration", FuncName(s)+": launch loop tests the flag", w.InstrPos(flagIf.If), "every launch is preceded by the flag test of its iteration; on `cancelled == 1` no further stage is launched", "a stage can be launched without passing the cancel-flag test of its iteration, or the cancel edge can still launch stages")
		}
	}
	// TaskRunner.Run: ctx.Err() first
	if run := w.FuncByName("taskctl", "(*TaskRunner).Run"); run != nil {
		var ctxIf *ifFact
		facts := w.ifFacts(run)
		for i, f := range facts {
			if f.Atom.Op == "==" && strings.HasSuffix(f.Atom.L, ".ctx.Err()") && f.Atom.R == "nil" {
				ctxIf = &facts[i]
			}
		}
		if ctxIf == nil {
			r.Viol("stop.run-tests-context", FuncName(run)+": context test", w.Pos(run.Pos()), "TaskRunner.Run never tests its context: a stage launched in the same iteration as the stop still executes")
		} else {
			bad := ""
			allInstrs(run, func(in ssa.Instruction) {
				c, ok := in.(*ssa.Call)
				if !ok {
					return
				}
				n := calleeName(&c.Call)
				crit := strings.HasSuffix(n, "TaskRunner).execute") || strings.HasSuffix(n, "TaskRunner).before") || strings.HasSuffix(n, "CompileTask") || n == "invoke:Writer" || strings.HasSuffix(n, "contextForTask") || strings.HasSuffix(n, "checkTaskCondition")
				if !crit {
					return
				}
				res := PathQuery{Fn: run, Target: func(x ssa.Instruction) bool { return x == in }, BlockEdge: func(b *ssa.BasicBlock, s int) bool { return b == ctxIf.If.Block() && s == ctxIf.SuccTrue }}.Find()
				if res.Found {
					bad = n + " at " + w.InstrPos(in)
				}
			})
			r.Check(bad == "", "stop.run-tests-context", FuncName(run)+": ctx.Err() before any work", w.InstrPos(ctxIf.If), "every compile/execute/log-open step is reachable only over the ctx.Err() == nil edge", "work is reachable without the context test: "+bad)
		}
		// Run is counted in the runner's WaitGroup: the first two calls of its entry block are
		// wg.Add(1) and the deferred wg.Done() (allocations and stores of locals may precede them)
		okWG := false
		if len(run.Blocks) > 0 {
			var calls []ssa.Instruction
			for _, in := range run.Blocks[0].Instrs {
				switch in.(type) {
				case *ssa.Call, *ssa.Defer, *ssa.Go:
					calls = append(calls, in)
				}
			}
			if len(calls) >= 2 {
				c0, c1 := callCommonOf(calls[0]), callCommonOf(calls[1])
				_, isDefer := calls[1].(*ssa.Defer)
				okWG = strings.HasSuffix(calleeName(c0), "WaitGroup).Add") && isDefer && strings.HasSuffix(calleeName(c1), "WaitGroup).Done") &&
					w.AP(c0.Args[0]) == w.AP(c1.Args[0])
			}
		}
		r.Check(okWG, "stop.run-counted", FuncName(run)+": every run is counted", w.Pos(run.Pos()), "Run starts with wg.Add(1); defer wg.Done()", "a task run is not counted in the runner's WaitGroup from its first statement: Cancel returns while the run is still going")
	}
	// exec handler: a command that ended by a signal while the context is done reports the context's error
	// (that is what marks the task — and through the scheduler's result the job — as canceled, not failed)
	for _, fn := range w.ModFuncs {
		if fn.Parent() == nil || fn.Parent().Parent() != nil || !strings.HasSuffix(fn.Parent().Signature.Results().String(), "interp.ExecHandlerFunc)") {
			continue
		}
		pr := w.EnumPaths(fn, EnumOpts{})
		r.Count("paths", len(pr.Paths))
		n, bad := 0, ""
		for _, p := range pr.Paths {
			signaled, ctxDone := false, false
			for _, l := range p.Lits {
				if l.Atom.Op == "true" && strings.Contains(l.Atom.L, "WaitStatus).Signaled(") && l.Val {
					signaled = true
				}
				if l.Atom.Op == "==" && strings.HasSuffix(l.Atom.L, "arg0.Err()") && l.Atom.R == "nil" && !l.Val {
					ctxDone = true
				}
			}
			if !signaled {
				continue
			}
			if ctxDone {
				n++
				if len(p.Ret) != 1 || !strings.HasSuffix(p.Ret[0], "arg0.Err()") {
					bad = "signaled ∧ ctx.Err() != nil returns " + strings.Join(p.Ret, ",") + " (path " + p.LitString() + ")"
				}
			}
		}
		if n == 0 && len(pr.Paths) > 4 {
			bad = "no path maps a signaled exit under a done context to the context's error"
		}
		if len(pr.Paths) > 4 {
			r.Check(bad == "", "stop.killed-command-reports-context-error", FuncName(fn)+": signaled exit under a done context", w.Pos(fn.Pos()), "every path with Signaled() ∧ ctx.Err() != nil returns ctx.Err()", "a command killed because of the cancel is not reported with the context's error: "+bad+" — the task is reported failed (exit status 128+signal) instead of canceled")
		}
	}
	// TaskRunner.Cancel: cancel then wait
	if c := w.FuncByName("taskctl", "(*TaskRunner).Cancel"); c != nil {
		pr := w.EnumPaths(c, EnumOpts{})
		okC := len(pr.Paths) > 0
		for _, p := range pr.Paths {
			ci, wi := -1, -1
			needCancel := false
			for _, l := range p.Lits {
				if strings.HasSuffix(l.Atom.L, ".canceling") && !l.Val {
					needCancel = true
				}
			}
			for i, e := range p.Effects {
				if e.Kind == "call" && strings.HasSuffix(e.Target, ".cancelFunc") {
					ci = i
				}
				if e.Kind == "call" && strings.HasSuffix(e.Target, "WaitGroup).Wait") {
					wi = i
				}
			}
			if wi < 0 || (needCancel && (ci < 0 || ci > wi)) {
				okC = false
			}
		}
		r.Check(okC, "stop.cancel-then-wait", FuncName(c)+": cancel the context, then wait for all runs", w.Pos(c.Pos()), "every path waits for the runs; the first caller cancels the context before waiting", "TaskRunner.Cancel does not cancel the context and then wait for all task runs on every path")
	}
	checkLocksReleased(w, r, "stop.locks-released", "taskctl")
}

// blockReachesReturnWithoutGo: from b no go statement is reachable.
func blockReachesReturnWithoutGo(fn *ssa.Function, b *ssa.BasicBlock) bool {
	if len(b.Instrs) == 0 {
		return false
	}
	res := PathQuery{Fn: fn, Start: []ssa.Instruction{b.Instrs[0]}, Target: func(x ssa.Instruction) bool { _, ok := x.(*ssa.Go); return ok }}.Find()
	if _, ok := b.Instrs[0].(*ssa.Go); ok {
		return false
	}
	return !res.Found
}

func checkCanceledVerdict(w *World, r *Report, ro *Roles) {
	s := w.FuncByName("taskctl", "(*Scheduler).Schedule")
	if s == nil {
		r.Undecided("verdict.acknowledged-cancel-is-reported", "taskctl.Scheduler.Schedule", "-", "not found")
		return
	}
	res := w.EnumPaths(s, EnumOpts{MaxPaths: 20000})
	r.Count("paths", len(res.Paths))
	if res.Truncated {
		r.Undecided("verdict.acknowledged-cancel-is-reported", FuncName(s), w.Pos(s.Pos()), "path cap exceeded")
		return
	}
	// (A) every cancel REQUEST (exported cancel, forced shutdown) goes through a function W in
	// which every acknowledging path records the request on the job under the lock, and the
	// completion handler turns it into Canceled = true. W is the internal cancel itself (every
	// delivering path stores the flag) or a wrapper of it (every path with result == nil stores it).
	// The internal fail-fast cancel after a task failure is not a request (C08: the job ends errored).
	// Evaluated on the spliced path streams of the request entries: wherever an entry calls the
	// internal cancel and that call can have acknowledged (result nil — no literal says it is
	// non-nil), a `<job>.<flag> = true` store of a bool field of the job follows on the path.
	// recorded = the flags stored after every such call, in every entry.
	recorded := map[string]bool{}
	nDeliver := 0
	requestsOK := true
	requestDetail := ""
	jobFlag := func(e Effect) string {
		if e.Kind != "store" || e.Val != "true" {
			return ""
		}
		st, ok := e.In.(*ssa.Store)
		if !ok {
			return ""
		}
		fa, ok := w.resolveAddr(st.Addr).(*ssa.FieldAddr)
		if !ok || fieldOfAddr(fa).Owner == nil || fieldOfAddr(fa).Owner.Obj().Name() != "PipelineJob" {
			return ""
		}
		return fieldOfAddr(fa).Name
	}
	meet := func(here map[string]bool) {
		nDeliver++
		if nDeliver == 1 {
			for k := range here {
				recorded[k] = true
			}
			return
		}
		for k := range recorded {
			if !here[k] {
				delete(recorded, k)
			}
		}
	}
	if ro.CancelInt != nil {
		prefix := FuncName(ro.CancelInt) + "("
		for _, entry := range []*ssa.Function{ro.CancelAPI, ro.Shutdown} {
			if entry == nil {
				continue
			}
			er := w.EnumPaths(entry, EnumOpts{Inline: true, MaxPaths: 20000, Opaque: func(f *ssa.Function) bool { return f == ro.CancelInt || w.statelessCallee(f) }})
			if er.Truncated {
				requestsOK, requestDetail = false, "cannot enumerate "+FuncName(entry)
				continue
			}
			calls := 0
			for _, p := range er.Paths {
				for i, e := range p.Effects {
					if e.Kind != "call" || e.Callee != ro.CancelInt {
						continue
					}
					calls++
					// did the call fail on this path? (a literal `call(...) == nil` false, also for the error of a tuple result)
					failed := false
					for _, l := range p.Lits {
						if l.Atom.Op == "==" && strings.HasPrefix(l.Atom.L, prefix) && l.Atom.R == "nil" && !l.Val {
							failed = true
						}
					}
					// an acknowledged cancel found the job (cancel.table: an unknown id is an error): a later
					// "not in the id index" branch for the same id is not taken
					if a := splitArgs(e.Val); len(a) > 0 {
						for _, l := range p.Lits {
							if l.Atom.Op == "true" && l.Atom.L == "has(recv.jobsByID["+a[len(a)-1]+"])" && !l.Val {
								failed = true
							}
						}
					}
					if failed || p.End != "return" {
						continue
					}
					here := map[string]bool{}
					for _, e2 := range p.Effects[i+1:] {
						if f := jobFlag(e2); f != "" && f != "Canceled" && f != "Completed" {
							here[f] = true
						}
					}
					meet(here)
				}
			}
			if calls == 0 && entry == ro.CancelAPI {
				requestsOK, requestDetail = false, FuncName(entry)+" never reaches the internal cancel"
			}
		}
		// the internal cancel itself may record the request on every delivering path
		if len(recorded) == 0 {
			nDeliver = 0
			cr := w.EnumPaths(ro.CancelInt, EnumOpts{Inline: true, Opaque: w.statelessCallee})
			for _, p := range cr.Paths {
				delivers := false
				here := map[string]bool{}
				for _, e := range p.Effects {
					if e.Kind == "go" && w.deliversSchedulerCancel(e.In.(*ssa.Go)) {
						delivers = true
					}
					if f := jobFlag(e); f != "" && f != "Canceled" && f != "Completed" {
						here[f] = true
					}
				}
				if delivers {
					meet(here)
				}
			}
		}
	}
	consumed := ""
	if ro.Completed != nil {
		pr := w.EnumPaths(ro.Completed, EnumOpts{Inline: true, Opaque: w.statelessCallee})
		for f := range recorded {
			okF, seenTrue := true, false
			for _, p := range pr.Paths {
				completes, marks, fTrue := false, false, false
				for _, e := range p.Effects {
					if e.Kind == "store" && strings.HasSuffix(e.Target, ".Completed") && e.Val == "true" {
						completes = true
					}
					if e.Kind == "store" && strings.HasSuffix(e.Target, ".Canceled") && e.Val == "true" {
						marks = true
					}
				}
				for _, l := range p.Lits {
					if l.Atom.Op == "true" && strings.HasSuffix(l.Atom.L, "."+f) && l.Val {
						fTrue = true
					}
				}
				if completes && fTrue {
					seenTrue = true
					if !marks {
						okF = false
					}
				}
			}
			if okF && seenTrue {
				consumed = f
			}
		}
	}
	ruleA := consumed != "" && nDeliver > 0 && requestsOK

	// (B) the scheduler never returns a possibly-nil result after it took the cancel edge.
	// The isDone == true edge does NOT discharge: a stage can be "done" because allow_failure
	// downgraded the context.Canceled of a killed task.
	nCancel := 0
	bad := ""
	badPos := w.Pos(s.Pos())
	for _, p := range res.Paths {
		if p.End != "return" || len(p.Ret) != 1 {
			continue
		}
		cancelAt := -1
		infeasible := false
		for i, ev := range p.Events {
			if ev.Lit != nil && strings.Contains(ev.Lit.Atom.L, "LoadInt32(recv.cancelled)") && ev.Lit.Atom.R == "1" {
				if ev.Lit.Val && cancelAt < 0 {
					cancelAt = i
				} else if !ev.Lit.Val && cancelAt >= 0 {
					infeasible = true // the flag is never reset (stop.flag-monotone)
				}
			}
		}
		if cancelAt < 0 || infeasible {
			continue
		}
		nCancel++
		discharged := ""
		result := p.Ret[0]
		for _, ev := range p.Events[cancelAt+1:] {
			if ev.Lit != nil {
				a := ev.Lit.Atom
				if a.Op == "==" && a.L == result && a.R == "nil" && !ev.Lit.Val {
					discharged = "result != nil edge"
				}
			}
			if ev.Eff != nil && ev.Eff.Kind == "store" && ev.Eff.Target == result && ev.Eff.Val != "nil" {
				discharged = "non-nil error stored to the result (" + ev.Eff.Val + ")"
			}
		}
		if result != "nil" && !strings.HasPrefix(result, "local:") && discharged == "" {
			discharged = "returns " + result
		}
		if discharged == "" {
			bad = "after taking the `cancelled == 1` edge the scheduler returns " + result + " which can be nil (path: " + p.LitString() + ")"
			for _, ev := range p.Events[cancelAt:] {
				if ev.Lit != nil {
					badPos = w.InstrPos(ev.Lit.At)
					break
				}
			}
		}
	}
	ruleB := bad == "" && nCancel > 0
	key := "acknowledged cancel of a running job ⇒ the job ends reported canceled"
	switch {
	case ruleA:
		r.OK("verdict.acknowledged-cancel-is-reported", key, w.Pos(ro.CancelInt.Pos()),
			fmt.Sprintf("(A) every acknowledging path of %s stores %s = true on the job under the lock, every cancel request (exported cancel, forced shutdown) goes through it, and %s marks the job canceled on every completing path where it is set — whatever the scheduler returns (cancel between two stages, allow_failure task killed by the cancel, cancel racing with the last task's regular end)", "the request entries (exported cancel, forced shutdown)", consumed, FuncName(ro.Completed)))
	case ruleB:
		r.OK("verdict.acknowledged-cancel-is-reported", key, badPos,
			fmt.Sprintf("(B) on all %d return paths of the scheduler that took the `cancelled == 1` edge a non-nil result is returned", nCancel))
	default:
		r.Viol("verdict.acknowledged-cancel-is-reported", key, badPos,
			"neither (A) every acknowledged cancel request is recorded on the job for the completion handler ("+requestDetail+"), nor (B) the scheduler returns a non-nil result on every path after the cancel edge: "+nameOr(bad, "no cancel edge found")+
				" — an acknowledged cancel can end as a plain success: when it lands between two stages, when the task it kills has allow_failure (its context.Canceled is downgraded to 'done'), or when the last task ends regularly at the same moment")
	}

	// completion handler: Canceled iff errors.Is(err, context.Canceled); LastError := err
	if ro.Completed != nil {
		pr := w.EnumPaths(ro.Completed, EnumOpts{Inline: true, Opaque: w.statelessCallee})
		okIff, okErr := true, true
		n := 0
		for _, p := range pr.Paths {
			completes := false
			for _, e := range p.Effects {
				if e.Kind == "store" && strings.HasSuffix(e.Target, ".Completed") && e.Val == "true" {
					completes = true
				}
			}
			if !completes {
				continue
			}
			n++
			var isCanceled *bool
			for _, l := range p.Lits {
				if l.Atom.Op == "true" && strings.Contains(l.Atom.L, "errors.Is(arg1,context.Canceled)") {
					v := l.Val
					isCanceled = &v
				}
			}
			marks, lastErr := false, false
			for _, e := range p.Effects {
				if e.Kind == "store" && strings.HasSuffix(e.Target, ".Canceled") && e.Val == "true" {
					marks = true
				}
				if e.Kind == "store" && strings.HasSuffix(e.Target, ".LastError") && e.Val == "arg1" {
					lastErr = true
				}
			}
			reqTrue := false
			for _, l := range p.Lits {
				if consumed != "" && l.Atom.Op == "true" && strings.HasSuffix(l.Atom.L, "."+consumed) && l.Val {
					reqTrue = true
				}
			}
			if isCanceled == nil || (*isCanceled || reqTrue) != marks {
				okIff = false
			}
			okErr = okErr && lastErr
		}
		r.Check(okIff && n > 0, "verdict.canceled-iff-context-canceled", FuncName(ro.Completed)+": Canceled ⇔ errors.Is(err, context.Canceled)", w.Pos(ro.Completed.Pos()), "the job is reported canceled exactly when the scheduler's result is context.Canceled or a cancel request was recorded on it", "the completion handler does not set Canceled exactly when the scheduler's result is context.Canceled: a canceled job is reported as a plain success (or a successful one as canceled)")
		r.Check(okErr && n > 0, "verdict.last-error", FuncName(ro.Completed)+": LastError := scheduler result", w.Pos(ro.Completed.Pos()), "the scheduler's result is stored as the job's last error on every completing path", "the scheduler's result is not stored as the job's last error")
	}
}

// locksReleased: every Lock/RLock of a sync mutex in the functions of a package is followed, on every path
// to a return of that function, by the matching Unlock of the same mutex (directly or as a deferred call
// registered after the Lock). A lock that is never released makes the next caller wait forever: for the
// task runner's cancel mutex that is the second Cancel of a job (a repeated cancel request, or the
// shutdown after a cancel), whose goroutine the runner's shutdown then waits for without end.
func checkLocksReleased(w *World, r *Report, rule, pkgRel string) {
	n := 0
	for _, fn := range w.ModFuncs {
		if fn.Package() != w.Pkg(pkgRel) || fn.Synthetic != "" {
			continue
		}
		lockKind := func(c *ssa.CallCommon) (kind, key string) {
			g := c.StaticCallee()
			if g == nil || g.Signature.Recv() == nil || len(c.Args) == 0 {
				return "", ""
			}
			rt := g.Signature.Recv().Type().String()
			if rt != "*sync.Mutex" && rt != "*sync.RWMutex" {
				return "", ""
			}
			switch g.Name() {
			case "Lock", "Unlock", "RLock", "RUnlock":
				return g.Name(), w.AP(c.Args[0])
			}
			return "", ""
		}
		allInstrs(fn, func(in ssa.Instruction) {
			call, ok := in.(*ssa.Call)
			if !ok {
				return
			}
			kind, key := lockKind(&call.Call)
			if kind != "Lock" && kind != "RLock" {
				return
			}
			want := "Unlock"
			if kind == "RLock" {
				want = "RUnlock"
			}
			n++
			res := PathQuery{Fn: fn, Start: []ssa.Instruction{in},
				Target: func(x ssa.Instruction) bool { _, isRet := x.(*ssa.Return); return isRet },
				BlockInstr: func(x ssa.Instruction) bool {
					c := callCommonOf(x)
					if c == nil {
						return false
					}
					if _, isGo := x.(*ssa.Go); isGo {
						return false
					}
					k, m := lockKind(c)
					return k == want && m == key
				}}.Find()
			r.Check(!res.Found, rule, FuncName(fn)+": "+kind+" of "+key, w.InstrPos(in), "every path to a return passes "+want+" of the same mutex (or its deferred call)",
				"a return of "+FuncName(fn)+" is reachable after "+key+"."+kind+"() without "+want+" ("+res.String()+"): the next caller blocks forever — a second Cancel of the same job (repeated request, or shutdown after a cancel) never returns and the runner's shutdown waits for it without end")
		})
	}
	r.Count("lock sites ("+pkgRel+")", n)
}
