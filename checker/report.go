package main

import (
	"encoding/json"
	"fmt"
	"os"
	"path/filepath"
	"sort"
	"strings"
)

// Ob is one obligation: a rule instance evaluated at one construct of /repo's source.
type Ob struct {
	Rule      string `json:"rule"`
	Construct string `json:"construct"` // stable key: function + what (never a line number)
	Pos       string `json:"pos"`
	Verdict   string `json:"verdict"` // ok | violation | undecided | known-finding
	Detail    string `json:"detail,omitempty"`
	Config    string `json:"config,omitempty"`
}

type Report struct {
	Prop        string
	Obs         []Ob
	Anchors     map[string]string
	Notes       []string
	Counters    map[string]int
	floors      map[string]int
	Explanation string
	Trusted     []string
	Assumptions []string
	w           *World
}

func newReport(prop string, w *World) *Report {
	return &Report{Prop: prop, Anchors: map[string]string{}, Counters: map[string]int{}, floors: map[string]int{}, w: w}
}

func (r *Report) add(verdict, rule, construct, pos, detail string) {
	r.Obs = append(r.Obs, Ob{Rule: r.Prop + "/" + rule, Construct: construct, Pos: pos, Verdict: verdict, Detail: detail})
}

func (r *Report) OK(rule, construct, pos, detail string) { r.add("ok", rule, construct, pos, detail) }
func (r *Report) Viol(rule, construct, pos, detail string) {
	r.add("violation", rule, construct, pos, detail)
}
func (r *Report) Undecided(rule, construct, pos, detail string) {
	r.add("undecided", rule, construct, pos, detail)
}

// Check records ok/violation by cond.
func (r *Report) Check(cond bool, rule, construct, pos, okDetail, badDetail string) bool {
	if cond {
		r.OK(rule, construct, pos, okDetail)
	} else {
		r.Viol(rule, construct, pos, badDetail)
	}
	return cond
}

func (r *Report) Anchor(role, resolved string) { r.Anchors[role] = resolved }
func (r *Report) Note(format string, a ...interface{}) {
	r.Notes = append(r.Notes, fmt.Sprintf(format, a...))
}
func (r *Report) Count(name string, n int) { r.Counters[name] += n }

// Floor demands at least n obligations whose rule starts with rule (a rule that matches
// nothing passes vacuously forever).
func (r *Report) Floor(rule string, n int) { r.floors[rule] = n }

func (r *Report) applyFloors() {
	rules := make([]string, 0, len(r.floors))
	for k := range r.floors {
		rules = append(rules, k)
	}
	sort.Strings(rules)
	for _, rule := range rules {
		n := 0
		for _, o := range r.Obs {
			if strings.HasPrefix(o.Rule, r.Prop+"/"+rule) {
				n++
			}
		}
		if n < r.floors[rule] {
			r.Viol("floor", rule, "-", fmt.Sprintf("rule %s matched %d construct(s), floor confirmed by hand is %d — the rule would pass vacuously", rule, n, r.floors[rule]))
		} else {
			r.OK("floor", rule, "-", fmt.Sprintf("%d ≥ %d", n, r.floors[rule]))
		}
	}
}

// ---------------------------------------------------------------------------------
// known findings

type KnownFinding struct {
	Property  string `json:"property"`
	Rule      string `json:"rule"`
	Construct string `json:"construct"`
	What      string `json:"what"`
	Commit    string `json:"commit,omitempty"`
}

type KnownFindings struct {
	Open  []KnownFinding `json:"open"`
	Fixed []KnownFinding `json:"fixed"`
}

func loadKnown(path string) (*KnownFindings, error) {
	var k KnownFindings
	b, err := os.ReadFile(path)
	if err != nil {
		if os.IsNotExist(err) {
			return &k, nil
		}
		return nil, err
	}
	if err := json.Unmarshal(b, &k); err != nil {
		return nil, err
	}
	return &k, nil
}

// ---------------------------------------------------------------------------------
// evidence

type evidenceFile struct {
	PropertyID  string                 `json:"property_id"`
	Tier        string                 `json:"tier"`
	Seed        int64                  `json:"seed"`
	Level       string                 `json:"level"`
	Coverage    map[string]interface{} `json:"coverage"`
	Assumptions []string               `json:"assumptions"`
	WallS       float64                `json:"wall_s"`
	Violations  int                    `json:"violations"`
}

func writeJSON(path string, v interface{}) error {
	if err := os.MkdirAll(filepath.Dir(path), 0o755); err != nil {
		return err
	}
	b, err := json.MarshalIndent(v, "", " ")
	if err != nil {
		return err
	}
	tmp := path + ".tmp"
	if err := os.WriteFile(tmp, append(b, '\n'), 0o644); err != nil {
		return err
	}
	return os.Rename(tmp, path)
}

func buildCoverage(def *PropDef, reps []*Report, obs []Ob, cmd string, extra map[string]interface{}) map[string]interface{} {
	nOK, nViol, nUnd, nKnown := 0, 0, 0, 0
	distinct := map[string]bool{}
	perRule := map[string]int{}
	for _, o := range obs {
		switch o.Verdict {
		case "ok":
			nOK++
		case "violation":
			nViol++
		case "undecided":
			nUnd++
		case "known-finding":
			nKnown++
		}
		if !strings.HasSuffix(o.Rule, "/floor") {
			distinct[o.Rule+"@"+o.Construct] = true
		}
		perRule[o.Rule]++
	}
	counters := map[string]int{}
	anchors := map[string]string{}
	var notes []string
	seenNote := map[string]bool{}
	for _, r := range reps {
		for k, v := range r.Counters {
			counters[k] += v
		}
		for k, v := range r.Anchors {
			anchors[k] = v
		}
		for _, n := range r.Notes {
			if !seenNote[n] {
				seenNote[n] = true
				notes = append(notes, n)
			}
		}
	}
	// samples: up to two obligations per rule, violations first
	var samples []Ob
	taken := map[string]int{}
	sorted := append([]Ob(nil), obs...)
	sort.SliceStable(sorted, func(i, j int) bool {
		return verdictRank(sorted[i].Verdict) < verdictRank(sorted[j].Verdict)
	})
	for _, o := range sorted {
		lim := 2
		if o.Verdict != "ok" {
			lim = 20
		}
		if taken[o.Rule] < lim {
			taken[o.Rule]++
			samples = append(samples, o)
		}
	}
	evals := len(obs) + counters["valuations"] + counters["paths"]
	cov := map[string]interface{}{
		"obligations":         len(obs),
		"discharged":          nOK,
		"violations":          nViol,
		"undecided":           nUnd,
		"known_findings":      nKnown,
		"checker_cmd":         cmd,
		"trusted_base":        def.Trusted,
		"explanation":         def.Explanation,
		"evaluations":         evals,
		"distinct_nontrivial": len(distinct),
		"rule":                "one obligation = one rule instance at one construct of /repo's current source (keyed rule@function:construct, never by line); evaluations = obligations + decision-table valuations + enumerated CFG paths; distinct_nontrivial = distinct (rule, construct) pairs with a non-empty obligation, floors excluded",
		"samples":             samples,
		"per_rule":            perRule,
		"counters":            counters,
		"anchors_resolved":    anchors,
		"notes":               notes,
		"not_decided":         def.NotDecided,
	}
	for k, v := range extra {
		cov[k] = v
	}
	return cov
}

func verdictRank(v string) int {
	switch v {
	case "violation":
		return 0
	case "undecided":
		return 1
	case "known-finding":
		return 2
	}
	return 3
}
