package main

import (
	"fmt"
	"go/ast"
	"go/types"
	"sort"
	"strings"

	"golang.org/x/tools/go/ssa"
)

// ---------------------------------------------------------------------------------
// K12 GOPAIR: goroutine / WaitGroup pairing

func isWGMethod(c *ssa.CallCommon, name string) bool {
	f := c.StaticCallee()
	if f == nil || f.Signature.Recv() == nil || f.Object() == nil || f.Object().Pkg() == nil || f.Object().Pkg().Path() != "sync" {
		return false
	}
	n := namedOf(f.Signature.Recv().Type())
	return n != nil && n.Obj().Name() == "WaitGroup" && f.Object().Name() == name
}

// wgDoneOnAllPaths: does closure cl execute wg.Done on every path (deferred, directly or in a deferred closure)?
func (w *World) wgDoneOnAllPaths(cl *ssa.Function) (bool, string) {
	deferred := false
	allInstrs(cl, func(in ssa.Instruction) {
		d, ok := in.(*ssa.Defer)
		if !ok {
			return
		}
		if isWGMethod(&d.Call, "Done") && d.Block().Index == 0 {
			deferred = true
		}
		if f := funcValue(d.Call.Value); f != nil && d.Block().Index == 0 {
			allInstrs(f, func(in2 ssa.Instruction) {
				if c := callCommonOf(in2); c != nil && isWGMethod(c, "Done") {
					deferred = true
				}
			})
		}
	})
	if deferred {
		return true, "deferred at entry"
	}
	// direct: a Done call that every path from entry to return passes
	var dones []ssa.Instruction
	allInstrs(cl, func(in ssa.Instruction) {
		if c, ok := in.(*ssa.Call); ok && isWGMethod(&c.Call, "Done") {
			dones = append(dones, in)
		}
	})
	if len(dones) == 0 {
		return false, "no Done call"
	}
	res := PathQuery{Fn: cl, Target: isReturn, BlockInstr: func(x ssa.Instruction) bool {
		for _, d := range dones {
			if d == x {
				return true
			}
		}
		return false
	}}.Find()
	if res.Found {
		return false, "a return is reachable without Done (" + res.String() + ")"
	}
	// a panic between entry and Done would skip it: only accept when the calls before Done are few
	return true, "called on every path (not deferred)"
}

// goPaired checks every go statement of fn: Add(1) dominates it, the goroutine runs Done on all paths.
func (ro *Roles) goPaired(r *Report, rule string, fn *ssa.Function, requireWait bool) {
	w := ro.w
	fname := FuncName(fn)
	n := 0
	// go statements of the function and of the helpers spliced into it
	for _, host := range append([]*ssa.Function{fn}, ro.helpersOf(fn)...) {
		host := host
		allInstrs(host, func(in ssa.Instruction) {
			g, ok := in.(*ssa.Go)
			if !ok {
				return
			}
			n++
			pos := w.InstrPos(g)
			cl := funcValue(g.Call.Value)
			if cl == nil {
				if sf := g.Call.StaticCallee(); sf != nil {
					cl = sf
				}
			}
			key := fname + ": go " + FuncName(cl)
			// an Add(1) in the same block before the go (or dominating it)
			added := false
			allInstrs(host, func(x ssa.Instruction) {
				if c, ok := x.(*ssa.Call); ok && isWGMethod(&c.Call, "Add") && instrDominates(c, g) {
					// no other go between this Add and g consuming it is not checked; Add count equals go count below
					added = true
				}
			})
			doneOK, how := false, "goroutine body not resolved"
			if cl != nil && cl.Blocks != nil {
				doneOK, how = w.wgDoneOnAllPaths(cl)
			}
			r.Check(added && doneOK, rule, key, pos, "WaitGroup.Add dominates the go statement; the goroutine runs Done on every path ("+how+")",
				fmt.Sprintf("goroutine is not WaitGroup-paired (Add before go=%v, Done on all paths=%v: %s): whoever waits for the group returns while this goroutine still runs and mutates state", added, doneOK, how))
		})
	}
	if requireWait {
		// every return of fn is preceded by Wait
		var waits []ssa.Instruction
		allInstrs(fn, func(x ssa.Instruction) {
			if c, ok := x.(*ssa.Call); ok && isWGMethod(&c.Call, "Wait") {
				waits = append(waits, x)
			}
		})
		res := PathQuery{Fn: fn, Target: isReturn, BlockInstr: func(x ssa.Instruction) bool {
			for _, wt := range waits {
				if wt == x {
					return true
				}
			}
			return false
		}}.Find()
		r.Check(len(waits) > 0 && !res.Found, rule+".wait-before-return", fname+": Wait before every return", w.Pos(fn.Pos()), "every return is preceded by WaitGroup.Wait: all spawned goroutines have finished when the function returns", "a return is reachable without waiting for the spawned goroutines ("+res.String()+"): tasks can still run after the job is reported finished")
	}
	r.Count("go_statements", n)
}

// ---------------------------------------------------------------------------------
// C01.4 SLOT-END

func (ro *Roles) slotEnd(r *Report, rule string) {
	w := ro.w
	if !ro.need(r, rule, map[string]*ssa.Function{"completion handler": ro.Completed, "start function": ro.Start, "start goroutine": ro.StartGo}) {
		return
	}
	// who stores Completed = true
	for _, fn := range ro.rootFuncs() {
		for _, st := range ro.storesTo(fn, "PipelineJob.Completed", func(s *ssa.Store) bool { return !isBoolConst(s.Val, false) }) {
			okWho := fn == ro.Completed
			if !okWho { // a helper of the completion handler with no other caller
				hosts, other := ro.hostsOf(fn)
				okWho = !other && len(hosts) == 1 && hosts[0] == ro.Completed
			}
			r.Check(okWho, rule+".who-completes", FuncName(fn)+": Completed = true", w.InstrPos(st), "only the completion handler marks a job completed", "a job is marked completed outside the completion handler: its slot is freed while its scheduler may still run tasks")
		}
	}
	// the completion handler is called only by the start goroutine, after Schedule returned, with its result
	cg := w.CallGraph()
	if node := cg.Nodes[ro.Completed]; node != nil {
		seen := map[*ssa.Function]bool{}
		for _, e := range node.In {
			c := e.Caller.Func
			if seen[c] || !w.InModule(c) {
				continue
			}
			seen[c] = true
			r.Check(c == ro.StartGo, rule+".who-calls-completion", FuncName(c)+" calls the completion handler", w.InstrPos(e.Site), "called by the job's scheduling goroutine", "the completion handler is called from "+FuncName(c)+", not only from the job's scheduling goroutine: a job can be reported completed (and its slot freed) while its tasks run")
		}
	}
	var sched, compl *ssa.Call
	allInstrs(ro.StartGo, func(in ssa.Instruction) {
		if c, ok := in.(*ssa.Call); ok {
			if strings.HasSuffix(calleeName(&c.Call), "taskctl.(Scheduler).Schedule") {
				sched = c
			}
			if c.Call.StaticCallee() == ro.Completed {
				compl = c
			}
		}
	})
	okOrder := sched != nil && compl != nil && instrDominates(sched, compl) && w.Resolve(compl.Call.Args[len(compl.Call.Args)-1]) == ssa.Value(sched)
	pos := w.Pos(ro.StartGo.Pos())
	r.Check(okOrder, rule+".completion-after-schedule", FuncName(ro.StartGo)+": Schedule then completion", pos, "the goroutine calls the completion handler after Scheduler.Schedule returned, with its result", "the scheduling goroutine does not call the completion handler after (and with the result of) Scheduler.Schedule: the slot is released before the scheduler has returned")
	// the scheduler returns only after all stage goroutines finished
	if s := w.FuncByName("taskctl", "(*Scheduler).Schedule"); s != nil {
		ro.goPaired(r, rule+".stages-paired", s, true)
	} else {
		r.Undecided(rule+".stages-paired", "taskctl.Scheduler.Schedule", "-", "not found")
	}
	// exactly one scheduling goroutine per start, not in a loop
	nGo := 0
	inLoop := false
	// (the go statement may sit in a small helper of the start function — `runJob(job, graph)`: it is then represented by the
	// helper's call in the start function; a helper called from a loop, or holding the go in a loop, counts as "in a loop")
	for _, host := range append([]*ssa.Function{ro.Start}, ro.helpersOf(ro.Start)...) {
		host := host
		allInstrs(host, func(in ssa.Instruction) {
			g, ok := in.(*ssa.Go)
			if !ok {
				return
			}
			nGo++
			if (PathQuery{Fn: host, Start: []ssa.Instruction{g}, Target: func(x ssa.Instruction) bool { return x == ssa.Instruction(g) }}).Find().Found {
				inLoop = true
			}
			if host != ro.Start {
				at := ro.liftTo(ro.Start, g)
				if at == nil || (PathQuery{Fn: ro.Start, Start: []ssa.Instruction{at}, Target: func(x ssa.Instruction) bool { return x == at }}).Find().Found {
					inLoop = true
				}
				// the helper is called once
				if n := len(findCalls(ro.Start, func(_ string, c *ssa.CallCommon) bool { return c.StaticCallee() == host })); n != 1 {
					inLoop = true
				}
			}
		})
	}
	r.Check(nGo == 1 && !inLoop, rule+".one-goroutine", FuncName(ro.Start)+": one scheduling goroutine per start", w.Pos(ro.Start.Pos()), "exactly one go statement, not in a loop", fmt.Sprintf("%d go statements (in a loop=%v): a job's graph is scheduled more than once", nGo, inLoop))
	// start refusal: the Canceled test dominates scheduler creation, the Start store and the go
	var cancelIf *ifFact
	facts := w.ifFacts(ro.Start)
	for i, f := range facts {
		if f.Atom.Op == "true" && f.Atom.L == "arg0.Canceled" {
			cancelIf = &facts[i]
		}
	}
	if cancelIf == nil {
		r.Viol(rule+".start-refusal", FuncName(ro.Start)+": canceled jobs are refused", w.Pos(ro.Start.Pos()), "the start function does not test the job's Canceled flag: a job canceled while waiting (or replaced) is started")
	} else {
		bad := ""
		critHelper := map[*ssa.Function]bool{}
		for _, h := range ro.helpersOf(ro.Start) {
			allInstrs(h, func(in ssa.Instruction) {
				switch x := in.(type) {
				case *ssa.Go:
					critHelper[h] = true
				case *ssa.Store:
					if k, _, ok := ro.la.rootField(x.Addr); ok && k == "PipelineJob.Start" {
						critHelper[h] = true
					}
				case *ssa.Call:
					if f := x.Call.StaticCallee(); f != nil && f.Name() == "initScheduler" {
						critHelper[h] = true
					}
				}
			})
		}
		allInstrs(ro.Start, func(in ssa.Instruction) {
			crit := false
			switch x := in.(type) {
			case *ssa.Go:
				crit = true
			case *ssa.Store:
				if k, _, ok := ro.la.rootField(x.Addr); ok && k == "PipelineJob.Start" {
					crit = true
				}
			case *ssa.Call:
				if f := x.Call.StaticCallee(); f != nil && f.Name() == "initScheduler" {
					crit = true
				} else if f != nil && critHelper[f] {
					crit = true // a helper of the start function that holds the go / the Start store / the scheduler creation
				}
			}
			if !crit {
				return
			}
			res := PathQuery{Fn: ro.Start, Target: func(y ssa.Instruction) bool { return y == in },
				BlockEdge: func(b *ssa.BasicBlock, s int) bool { return b == cancelIf.If.Block() && s == cancelIf.SuccFalse }}.Find()
			if res.Found {
				bad = w.InstrPos(in) + " reachable without the !Canceled edge"
			}
		})
		ret := blockReturns(cancelIf.If.Block().Succs[cancelIf.SuccTrue], func(*ssa.Return) bool { return true })
		r.Check(bad == "" && ret, rule+".start-refusal", FuncName(ro.Start)+": canceled jobs are refused", w.InstrPos(cancelIf.If), "the Canceled test returns at once and dominates scheduler creation, the Start store and the go statement", "a canceled job can be started: "+bad)
	}
}

// ---------------------------------------------------------------------------------
// C15.1 SCHEDULABLE agreement

// schedulableFn: the bool function of a pipeline name that calls the admission function.
func (ro *Roles) schedulableFn() *ssa.Function {
	if is := ro.w.FuncByName("", "(*PipelineRunner).isSchedulable"); is != nil {
		return is
	}
	var is *ssa.Function
	for _, fn := range ro.rootFuncs() {
		if fn != ro.Accept && fn.Signature.Results().Len() == 1 && fn.Signature.Results().At(0).Type().String() == "bool" &&
			len(findCalls(fn, func(_ string, c *ssa.CallCommon) bool { return c.StaticCallee() == ro.Admit })) > 0 {
			is = fn
		}
	}
	return is
}

// listFn: the exported method that reports the pipelines ([]PipelineInfo).
func (ro *Roles) listFn() *ssa.Function {
	return ro.w.FuncByRole("", "(*PipelineRunner).ListPipelines", func(f *ssa.Function) bool {
		return f.Object() != nil && f.Object().Exported() && recvIs(f, "PipelineRunner") && f.Signature.Results().Len() == 1 && strings.HasSuffix(f.Signature.Results().At(0).Type().String(), "PipelineInfo")
	})
}

// listedFlags enumerates the listing function with the schedulable predicate (if it is a
// function of its own) spliced in and returns, per path that fills a PipelineInfo: the key,
// the stored Schedulable and Running values, the admission call asked and the action set.
type listedFlag struct {
	p                       *Path
	key, sched, running, ap string
	set                     map[string]bool
}

func (ro *Roles) listedFlags() ([]listedFlag, *ssa.Function) {
	w := ro.w
	lp := ro.listFn()
	if lp == nil || ro.Admit == nil {
		return nil, lp
	}
	res := w.EnumPaths(lp, EnumOpts{Inline: true, MaxPaths: 20000, Opaque: func(f *ssa.Function) bool { return f == ro.Admit || f == ro.PipeRunning || w.statelessCallee(f) }})
	prefix := FuncName(ro.Admit) + "("
	var out []listedFlag
	for _, p := range res.Paths {
		lf := listedFlag{p: p}
		for _, e := range p.Effects {
			if e.Kind != "store" {
				continue
			}
			switch {
			case strings.HasSuffix(e.Target, ".Pipeline"):
				lf.key = e.Val
			case strings.HasSuffix(e.Target, ".Schedulable"):
				lf.sched = e.Val
			case strings.HasSuffix(e.Target, ".Running"):
				lf.running = e.Val
			}
		}
		if lf.sched == "" {
			continue
		}
		lf.set, lf.ap = ro.actionSetOn(p, prefix)
		if lf.ap == "" {
			// a predicate returned as one comparison: the call is inside the stored expression
			if i := strings.Index(lf.sched, prefix); i >= 0 {
				rest := lf.sched[i:]
				// (the prefix ends with the call's opening parenthesis; a method name itself contains parentheses)
				depth := 1
				for j, ch := range rest {
					if j < len(prefix) {
						continue
					}
					if ch == '(' {
						depth++
					}
					if ch == ')' {
						depth--
						if depth == 0 {
							lf.ap = rest[:j+1]
							break
						}
					}
				}
			}
		}
		out = append(out, lf)
	}
	return out, lp
}

func (ro *Roles) schedulableAgreement(r *Report, rule string) {
	w := ro.w
	flags, lp := ro.listedFlags()
	if !ro.need(r, rule, map[string]*ssa.Function{"listing function": lp, "accept function": ro.Accept, "admission function": ro.Admit}) {
		return
	}
	if is := ro.schedulableFn(); is != nil {
		r.Anchor("schedulable predicate", FuncName(is))
	}
	lname := FuncName(lp)
	prefix := FuncName(ro.Admit) + "("
	// per action: does the accept function reject?
	acc := w.EnumPaths(ro.Accept, EnumOpts{Inline: true, Opaque: ro.isSnapshotCtor})
	r.Count("paths", len(acc.Paths)+len(flags))
	rejects := map[string]bool{}
	accepts := map[string]bool{}
	accAP, schAP := "", ""
	for _, p := range acc.Paths {
		if p.End != "return" || len(p.Ret) != 2 {
			continue
		}
		set, ap := ro.actionSetOn(p, prefix)
		if ap == "" {
			continue
		}
		accAP = ap
		for a := range set {
			if p.Ret[1] != "nil" && !strings.Contains(p.Ret[1], "uuid.NewV4") {
				rejects[a] = true
			} else if p.Ret[1] == "nil" {
				accepts[a] = true
			}
		}
	}
	// what the listing reports per admission decision (the stored Schedulable value, evaluated
	// for the decision when it is an expression over the admission call)
	says := map[string]map[string]bool{}
	for _, lf := range flags {
		if lf.ap != "" {
			schAP = lf.ap
		}
		for a := range lf.set {
			val := lf.sched
			if val != "true" && val != "false" && lf.ap != "" {
				// a pure helper of the decision (`decision.rejection() == nil`, `accepted(decision)`): evaluated for this action
				val = ro.foldActionHelpers(val, lf.ap, ro.Actions[a])
				if v, err := evalAPExpr(val, map[string]string{lf.ap: "action"}, map[string]int64{"action": ro.Actions[a]}); err == "" {
					val = map[int64]string{0: "false", 1: "true"}[v]
				}
			}
			if says[a] == nil {
				says[a] = map[string]bool{}
			}
			says[a][val] = true
		}
	}
	var acts []string
	for a := range ro.admitReturnable() {
		acts = append(acts, a)
	}
	sort.Strings(acts)
	for _, a := range acts {
		key := lname + ": Schedulable for admission decision " + a
		pos := w.Pos(lp.Pos())
		want := "true"
		if rejects[a] && !accepts[a] {
			want = "false"
		}
		if rejects[a] && accepts[a] {
			r.Undecided(rule, key, pos, "the accept function both accepts and rejects action "+a)
			continue
		}
		got := says[a]
		r.Check(len(got) == 1 && got[want], rule, key, pos, "schedulable = "+want+" ⇔ the accept function "+map[string]string{"true": "accepts", "false": "rejects"}[want]+" this decision",
			fmt.Sprintf("for admission decision %s the accept function %s the request but the listing reports schedulable = %v: clients are offered an action that fails (or are denied one that would work)", a, map[string]string{"true": "accepts", "false": "rejects"}[want], setStr(got)))
	}
	// both ask the same question: (runner, pipeline, ignore = false) — the accept function about its
	// pipeline argument, the listing about the pipeline it reports
	okQ := accAP != "" && schAP != ""
	detail := ""
	if okQ {
		aa := splitArgs(strings.TrimSuffix(strings.TrimPrefix(accAP, prefix), ")"))
		okQ = len(aa) >= 3 && aa[0] == "recv" && aa[1] == "arg0" && ro.isModeConst(aa[len(aa)-1], false)
		for _, lf := range flags {
			if lf.ap == "" {
				continue
			}
			sa := splitArgs(strings.TrimSuffix(strings.TrimPrefix(lf.ap, prefix), ")"))
			if !(len(sa) == len(aa) && sa[0] == "recv" && sa[1] == lf.key && ro.isModeConst(sa[len(sa)-1], false)) {
				okQ = false
				detail = lf.ap + " for the listed pipeline " + lf.key
			}
		}
	}
	r.Check(okQ, rule+".same-question", lname+": same admission question as the accept function", w.Pos(lp.Pos()), "both ask "+prefix+"runner, pipeline, false)", "the listing asks "+nameOr(detail, schAP)+" but the accept function decides on "+accAP)
}

// ---------------------------------------------------------------------------------
// C15.2 RUNNING agreement

func (ro *Roles) runningAgreement(r *Report, rule string) {
	w := ro.w
	if !ro.need(r, rule, map[string]*ssa.Function{"pipeline running predicate": ro.PipeRunning, "running predicate": ro.RunPred}) {
		return
	}
	// ∃: ranges over jobsByPipeline[arg0]; returns true on the predicate's true edge, false after the loop
	// (the loop may sit in a function over the list that the predicate delegates to)
	fn, list := ro.existsHost()
	if ro.countPositive(ro.PipeRunning) {
		// stated through the admission count: `count(pipeline) > 0` — ∃ follows from the shape of the counting function
		ro.countShape(r, rule+".count-shape")
		r.OK(rule+".exists", FuncName(fn)+": ∃ running job of the pipeline", w.Pos(fn.Pos()), "the flag is count(pipeline) > 0 with the admission's counting function (its shape is checked as "+rule+".count-shape)")
		ro.runningListed(r, rule)
		r.OK(rule+".same-predicate", FuncName(ro.Count)+" and "+FuncName(ro.PipeRunning)+" share the running predicate", w.Pos(fn.Pos()), "the flag is computed from the admission count itself")
		return
	}
	okE := false
	for _, f := range w.ifFacts(fn) {
		if f.Atom.Op == "true" && list != "" && strings.HasPrefix(f.Atom.L, FuncName(ro.RunPred)+"("+list+"[") {
			if blockReturns(f.If.Block().Succs[f.SuccTrue], retConstBool(true)) {
				okE = true
			}
		}
	}
	nFalse := 0
	allInstrs(fn, func(in ssa.Instruction) {
		if rt, ok := in.(*ssa.Return); ok && retConstBool(false)(rt) {
			nFalse++
		}
	})
	r.Check(okE && nFalse == 1, rule+".exists", FuncName(fn)+": ∃ running job of the pipeline", w.Pos(fn.Pos()), "true exactly when some job of jobsByPipeline[pipeline] satisfies the running predicate", "the pipeline-running flag is not '∃ job of the pipeline with the running predicate'")
	// the list function reports it for the same pipeline
	ro.runningListed(r, rule)
	// sibling agreement: the admission count uses the same predicate
	cfn, _ := ro.countHost()
	if cfn == nil {
		r.Undecided(rule+".same-predicate", "counting loop", "-", "no counting function or loop found")
		return
	}
	uses := len(findCalls(cfn, func(_ string, c *ssa.CallCommon) bool { return c.StaticCallee() == ro.RunPred })) > 0
	r.Check(uses, rule+".same-predicate", FuncName(cfn)+" and "+FuncName(ro.PipeRunning)+" share the running predicate", w.Pos(cfn.Pos()), "both call "+FuncName(ro.RunPred), "the admission count and the reported running flag use different predicates")
}

// ---------------------------------------------------------------------------------
// C15.4 ORDER: no map-iteration order leaks into reported orders (AST)

func (w *World) sortsItsArg(fn *types.Func) bool {
	// a module function/method that calls sort.* on its receiver or first parameter
	for _, f := range w.ModFuncs {
		if f.Object() != fn || f.Synthetic != "" {
			continue
		}
		ok := false
		allInstrs(f, func(in ssa.Instruction) {
			if c, isC := in.(*ssa.Call); isC && strings.HasPrefix(calleeName(&c.Call), "sort.") && len(c.Call.Args) > 0 {
				if p, isP := w.Resolve(c.Call.Args[0]).(*ssa.Parameter); isP && p == f.Params[0] {
					ok = true
				}
			}
		})
		return ok
	}
	return false
}

func (ro *Roles) orderRules(r *Report, rule string) {
	w := ro.w
	n := 0
	for _, p := range w.modulePackages() {
		for _, file := range p.Syntax {
			ast.Inspect(file, func(nd ast.Node) bool {
				blk, ok := nd.(*ast.BlockStmt)
				if !ok {
					return true
				}
				for i, st := range blk.List {
					target := mapOrderAppendTarget(p.TypesInfo, st)
					if target == nil {
						continue
					}
					n++
					// the first later statement in this block that mentions the target must sort it
					sorted := false
					how := "never used afterwards in this block"
					for _, later := range blk.List[i+1:] {
						if !mentions(p.TypesInfo, later, target) {
							continue
						}
						if isSortOf(w, p.TypesInfo, later, target) {
							sorted = true
						} else {
							how = "next use is `" + trunc(nodeString(w, later), 60) + "`"
						}
						break
					}
					fnName := enclosingFuncName(file, st)
					pos := w.Pos(st.Pos())
					// the persisted snapshot is read back into maps (C10 load rules): its order is not reported
					persistedOnly := false
					if sl, ok := target.Type().Underlying().(*types.Slice); ok {
						if en := namedOf(sl.Elem()); en != nil && en.Obj().Pkg() != nil && strings.HasSuffix(en.Obj().Pkg().Path(), "/store") {
							persistedOnly = true
						}
					}
					if persistedOnly {
						r.OK(rule+".not-reported", fnName+": "+target.Name()+" (built in map order)", pos, "records of the persisted snapshot (read back into maps by the load function)")
						continue
					}
					if !reportedOrderFunc(fnName) {
						r.OK(rule+".not-reported", fnName+": "+target.Name()+" (built in map order)", pos, "not part of an API-reported order (log output)")
						continue
					}
					r.Check(sorted, rule, fnName+": "+target.Name()+" (built in map order)", pos, "sorted before its first use", "a slice filled while ranging over a map is used without being sorted first ("+how+"): the reported order depends on Go's random map iteration order")
				}
				return true
			})
		}
	}
	r.Count("map_order_slices", n)
	// newest-first comparator of the job list
	for _, fn := range w.ModFuncs {
		if fn.Parent() == nil || !strings.HasSuffix(FuncName(fn.Parent()), "listPipelineJobs") {
			continue
		}
		if fn.Signature.Results().Len() != 1 || fn.Signature.Params().Len() != 2 {
			continue
		}
		res := w.EnumPaths(fn, EnumOpts{})
		okC := false
		for _, pth := range res.Paths {
			if len(pth.Ret) != 1 {
				continue
			}
			ret := strings.ReplaceAll(pth.Ret[0], "c1.arg", "arg")
			if strings.HasPrefix(ret, "!(time.Time).Before(") && argOrder(ret, "[arg0].Created", "[arg1].Created") ||
				strings.HasPrefix(ret, "(time.Time).After(") && argOrder(ret, "[arg0].Created", "[arg1].Created") ||
				strings.HasPrefix(ret, "(time.Time).Before(") && argOrder(ret, "[arg1].Created", "[arg0].Created") {
				okC = true
			}
		}
		r.Check(okC, rule+".job-list-newest-first", FuncName(fn)+": job list comparator", w.Pos(fn.Pos()), "less(i,j) puts the job created later first", "the job list comparator is not newest-first")
	}
}

func argOrder(s, a, b string) bool {
	i, j := strings.Index(s, a), strings.Index(s, b)
	return i >= 0 && j >= 0 && i < j
}

func reportedOrderFunc(name string) bool {
	switch name {
	case "NamesWithSourcePath", "String":
		return false
	}
	return true
}

func trunc(s string, n int) string {
	if len(s) > n {
		return s[:n] + "…"
	}
	return s
}

func nodeString(w *World, n ast.Node) string {
	pos := w.Fset.Position(n.Pos())
	end := w.Fset.Position(n.End())
	if f := w.fileContent(pos.Filename); f != nil && end.Offset <= len(f) {
		return strings.Join(strings.Fields(string(f[pos.Offset:end.Offset])), " ")
	}
	return ""
}

func enclosingFuncName(file *ast.File, n ast.Node) string {
	name := ""
	for _, d := range file.Decls {
		if fd, ok := d.(*ast.FuncDecl); ok && fd.Pos() <= n.Pos() && n.End() <= fd.End() {
			name = fd.Name.Name
		}
	}
	return name
}

// mapOrderAppendTarget: st is `for … range <map> { … X = append(X, …) … }` or a call of a
// map-iterating helper with a func literal that appends to X; returns X.
func mapOrderAppendTarget(info *types.Info, st ast.Stmt) *types.Var {
	var body ast.Node
	switch x := st.(type) {
	case *ast.RangeStmt:
		tv, ok := info.Types[x.X]
		if !ok {
			return nil
		}
		if _, isMap := tv.Type.Underlying().(*types.Map); !isMap {
			return nil
		}
		body = x.Body
	case *ast.ExprStmt:
		call, ok := x.X.(*ast.CallExpr)
		if !ok {
			return nil
		}
		sel, ok := call.Fun.(*ast.SelectorExpr)
		if !ok || sel.Sel.Name != "IterateJobs" {
			return nil
		}
		for _, a := range call.Args {
			if fl, ok := a.(*ast.FuncLit); ok {
				body = fl.Body
			}
		}
	}
	if body == nil {
		return nil
	}
	var target *types.Var
	ast.Inspect(body, func(n ast.Node) bool {
		as, ok := n.(*ast.AssignStmt)
		if !ok || len(as.Lhs) != 1 || len(as.Rhs) != 1 {
			return true
		}
		call, ok := as.Rhs[0].(*ast.CallExpr)
		if !ok {
			return true
		}
		if id, ok := call.Fun.(*ast.Ident); !ok || id.Name != "append" || len(call.Args) == 0 {
			return true
		}
		l, ok1 := as.Lhs[0].(*ast.Ident)
		a0, ok2 := call.Args[0].(*ast.Ident)
		if ok1 && ok2 && info.ObjectOf(l) == info.ObjectOf(a0) {
			if v, ok := info.ObjectOf(l).(*types.Var); ok {
				target = v
			}
		}
		return true
	})
	return target
}

func mentions(info *types.Info, n ast.Node, v *types.Var) bool {
	found := false
	ast.Inspect(n, func(x ast.Node) bool {
		if id, ok := x.(*ast.Ident); ok && info.ObjectOf(id) == v {
			found = true
		}
		return true
	})
	return found
}

func isSortOf(w *World, info *types.Info, st ast.Stmt, v *types.Var) bool {
	es, ok := st.(*ast.ExprStmt)
	if !ok {
		return false
	}
	call, ok := es.X.(*ast.CallExpr)
	if !ok {
		return false
	}
	sel, ok := call.Fun.(*ast.SelectorExpr)
	if !ok {
		return false
	}
	// sort.X(v, …)
	if pk, ok := sel.X.(*ast.Ident); ok {
		if pn, ok := info.ObjectOf(pk).(*types.PkgName); ok && (pn.Imported().Path() == "sort" || pn.Imported().Path() == "slices") && len(call.Args) > 0 {
			if a, ok := call.Args[0].(*ast.Ident); ok && info.ObjectOf(a) == v {
				return true
			}
		}
		// v.sortingMethod()
		if info.ObjectOf(pk) == v {
			if fn, ok := info.ObjectOf(sel.Sel).(*types.Func); ok {
				return w.sortsItsArg(fn)
			}
		}
	}
	return false
}

func (w *World) fileContent(name string) []byte {
	if w.files == nil {
		w.files = map[string][]byte{}
	}
	if b, ok := w.files[name]; ok {
		return b
	}
	var b []byte
	if ov, ok := w.overlay[name]; ok {
		b = ov
	} else {
		b, _ = readFile(name)
	}
	w.files[name] = b
	return b
}

// foldActionHelpers replaces every `F(<ap>)` in expr — F a module function whose only argument (or receiver) is the admission
// decision — by the value F returns for the given action: "nil"/"1" for an error result (nil / not nil), "true"/"false" or the
// constant for others. F is evaluated on its enumerated paths (it may only compare its argument with constants).
func (ro *Roles) foldActionHelpers(expr, ap string, action int64) string {
	w := ro.w
	for _, f := range w.ModFuncs {
		if f.Parent() != nil || len(f.Params) != 1 || f.Signature.Results().Len() != 1 {
			continue
		}
		call := FuncName(f) + "(" + ap + ")"
		if !strings.Contains(expr, call) {
			continue
		}
		res := w.EnumPaths(f, EnumOpts{})
		if res.Truncated {
			continue
		}
		p, why := selectPath(res.Paths, map[string]string{w.AP(f.Params[0]): "action"}, map[string]int64{"action": action})
		if p == nil || why != "" || len(p.Ret) != 1 {
			continue
		}
		v := p.Ret[0]
		if types.Identical(f.Signature.Results().At(0).Type(), types.Universe.Lookup("error").Type()) && v != "nil" {
			v = "1"
		}
		expr = strings.ReplaceAll(expr, call, v)
	}
	return expr
}

func (ro *Roles) runningListed(r *Report, rule string) {
	w := ro.w
	if flags, lp := ro.listedFlags(); lp != nil {
		okL := len(flags) > 0
		for _, lf := range flags {
			if lf.key == "" || lf.running != FuncName(ro.PipeRunning)+"(recv,"+lf.key+")" {
				okL = false
			}
		}
		r.Check(okL, rule+".listed", "ListPipelines: Running/Schedulable of the listed pipeline", w.Pos(lp.Pos()), "both flags are computed for the pipeline they are reported for", "ListPipelines reports flags computed for another pipeline or by other predicates")
	}
}
