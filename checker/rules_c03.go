package main

func init() {
	register(&PropDef{
		ID:          "C03",
		Level:       "other",
		Explanation: "Liveness itself is not decidable by this family; decided are its structural necessary conditions: (1) RETRIGGER — every event that frees a slot or changes the head (job completes, popped job fails to start, head's delay expires, waiting job is canceled) is followed on every CFG path to the return by a call of the dequeue function; (2) TRANSIENT HEAD BLOCK — the dequeue loop stops only on empty list, decision ≠ Start, or head timer pending; every armed timer's callback clears the timer and re-runs the dequeue for a listed job, and every path that makes a waiting job terminal removes it from the wait list (so a job that will never clear its timer cannot sit at the head); (3) the dequeue decision composed with the admission table gives Start ⇔ running < concurrency for a head whose timer is not pending, for every value of the CURRENT definition's delay/limit/strategy (a reload cannot strand queued jobs); (4) no lost update on the wait list; (5) NO GHOST SLOT — every job restored at start-up leaves the load loop completed or canceled on all 8 rows of (started, completed, canceled), so a job of an earlier run never counts as running. COUNT SHAPE — the admission count ranges over the pipeline's list with the running predicate (a counter that can stay up strands every later job).",
		Trusted:     []string{"C13 (operations are atomic under the runner mutex)", "time.AfterFunc eventually fires", "tasks terminate (premise of the property)"},
		NotDecided:  []string{"eventual start and the time bound (liveness)", "fairness of the Go scheduler"},
		Check: func(w *World, r *Report) {
			ro := resolveRoles(w)
			ro.record(r)
			if ro.la == nil {
				r.Undecided("anchors", "roles", "-", "roles unresolved")
				return
			}
			ro.retrigger(r, "retrigger")
			ro.dequeueLoop(r, map[string]bool{"stop-reasons": true, "pop-on-start": true})
			ro.expiryHandler(r, "expiry")
			ro.canceledSites(r, "canceled-site")
			ro.dequeueIndependent(r, "dequeue-independent-of-new-definition")
			ro.admissionTable(r, "table.admission", "equal")
			// a slot counts as taken exactly while a job of the list is running: a count that can stay up (a counter that is not
			// released on some path) makes every later job of the pipeline wait forever
			ro.countShape(r, "table.count-shape")
			ro.noLostUpdate(r, "no-lost-update")
			retentionTable(w, r)
			// (5) no ghost holds a slot: every job restored from the store ends terminal
			checkLoadNormalisation(w, r)
			r.Floor("retrigger", 4)
			r.Floor("expiry", 3)
			r.Floor("canceled-site", 5)
			r.Floor("dequeue", 3)
		},
	})
}
