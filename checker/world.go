package main

import (
	"fmt"
	"go/token"
	"go/types"
	"os"
	"path/filepath"
	"sort"
	"strings"

	"golang.org/x/tools/go/callgraph"
	"golang.org/x/tools/go/callgraph/cha"
	"golang.org/x/tools/go/callgraph/vta"
	"golang.org/x/tools/go/packages"
	"golang.org/x/tools/go/ssa"
	"golang.org/x/tools/go/ssa/ssautil"
)

const modPath = "github.com/Flowpack/prunner"

// BuildConfig is one build configuration of /repo that is analysed.
type BuildConfig struct {
	GOOS, GOARCH string
	Tags         string
}

func (b BuildConfig) String() string {
	s := b.GOOS + "/" + b.GOARCH
	if b.Tags != "" {
		s += " tags=" + b.Tags
	}
	return s
}

// World is the resolved program: type-checked packages, SSA, call graph.
type World struct {
	Repo   string
	Config BuildConfig
	Pkgs   []*packages.Package
	All    map[string]*packages.Package // every loaded package, by path
	Prog   *ssa.Program
	Fset   *token.FileSet
	cg     *callgraph.Graph
	// module functions (source functions incl. anonymous), sorted by position
	ModFuncs      []*ssa.Function
	fwd           map[*ssa.Function]*fwdInfo
	phiEnv        map[*ssa.Phi]ssa.Value // path context while enumerating paths
	phiBusy       map[*ssa.Phi]bool
	condSubj      ssa.Value                    // set by condAtom: the call result a nil test is about
	loadEnv       map[*ssa.UnOp]ssa.Value      // value of a load of a multi-store local when the current path executed it
	memEnv        map[*ssa.Alloc]ssa.Value     // last value stored to a multi-store local on the current path
	paramEnv      map[*ssa.Parameter]ssa.Value // parameters of inlined callees → caller values
	callEnv       map[*ssa.Call][]ssa.Value    // inlined calls → the values returned on the current path
	noInline      func(*ssa.Function) bool     // rule anchors (role functions) are never inlined
	inlMemo       map[*ssa.Function]bool
	fieldLoadMemo map[[2]interface{}][]ssa.Value
	prrMemo       map[[2]interface{}]bool
	nonNilInv     int // 0 unknown, 1 holds, 2 not established
	nilGuardMemo  map[*ssa.If]int
	condAt        ssa.Instruction
	sentinelMemo  map[*ssa.Global]bool
	allocOrd      map[*ssa.Alloc]int
	files         map[string][]byte
	all           map[*ssa.Function]bool
	overlay       map[string][]byte
}

func loadWorld(repo string, bc BuildConfig, overlay map[string][]byte) (*World, error) {
	env := append(os.Environ(),
		"GOFLAGS=-mod=mod", "GOPROXY=off", "GOSUMDB=off", "GOTOOLCHAIN=local", "GOWORK=off", "CGO_ENABLED=0")
	if bc.GOOS != "" {
		env = append(env, "GOOS="+bc.GOOS)
	}
	if bc.GOARCH != "" {
		env = append(env, "GOARCH="+bc.GOARCH)
	}
	cfg := &packages.Config{
		Mode:    packages.LoadAllSyntax,
		Dir:     repo,
		Tests:   false,
		Env:     env,
		Overlay: overlay,
	}
	if bc.Tags != "" {
		cfg.BuildFlags = []string{"-tags=" + bc.Tags}
	}
	pkgs, err := packages.Load(cfg, "./...")
	if err != nil {
		return nil, fmt.Errorf("packages.Load: %w", err)
	}
	if len(pkgs) == 0 {
		return nil, fmt.Errorf("no packages loaded from %s", repo)
	}
	var errs []string
	all := map[string]*packages.Package{}
	packages.Visit(pkgs, nil, func(p *packages.Package) {
		all[p.PkgPath] = p
		if strings.HasPrefix(p.PkgPath, modPath) {
			for _, e := range p.Errors {
				errs = append(errs, e.Error())
			}
		}
	})
	if len(errs) > 0 {
		return nil, fmt.Errorf("type/load errors in module packages: %s", strings.Join(errs, "; "))
	}
	prog, _ := ssautil.AllPackages(pkgs, ssa.InstantiateGenerics)
	prog.Build()
	w := &World{overlay: overlay, Repo: repo, Config: bc, Pkgs: pkgs, All: all, Prog: prog, Fset: prog.Fset, fwd: map[*ssa.Function]*fwdInfo{}}
	for fn := range ssautil.AllFunctions(prog) {
		if w.InModule(fn) && fn.Blocks != nil {
			w.ModFuncs = append(w.ModFuncs, fn)
		}
	}
	sort.Slice(w.ModFuncs, func(i, j int) bool {
		a, b := w.ModFuncs[i], w.ModFuncs[j]
		if a.Pos() != b.Pos() {
			return a.Pos() < b.Pos()
		}
		return a.String() < b.String()
	})
	resolveFieldAliases(w)
	nilGuardEdge = w.nilGuardInfeasible
	return w, nil
}

// InModule reports whether fn is source code of the analysed module (wrappers and
// synthetic functions are attributed to the package of their declaration).
func (w *World) InModule(fn *ssa.Function) bool {
	if fn == nil {
		return false
	}
	p := fn.Package()
	if p == nil {
		if fn.Parent() != nil {
			return w.InModule(fn.Parent())
		}
		if o := fn.Object(); o != nil && o.Pkg() != nil {
			return strings.HasPrefix(o.Pkg().Path(), modPath)
		}
		return false
	}
	return strings.HasPrefix(p.Pkg.Path(), modPath)
}

func readFile(name string) ([]byte, error) { return os.ReadFile(name) }

func (w *World) allFuncs() map[*ssa.Function]bool {
	if w.all == nil {
		w.all = ssautil.AllFunctions(w.Prog)
	}
	return w.all
}

func (w *World) InModulePkg(p *types.Package) bool {
	return p != nil && strings.HasPrefix(p.Path(), modPath)
}

func (w *World) Pkg(rel string) *ssa.Package {
	path := modPath
	if rel != "" {
		path += "/" + rel
	}
	for _, p := range w.Prog.AllPackages() {
		if p.Pkg.Path() == path {
			return p
		}
	}
	return nil
}

func (w *World) TPkg(path string) *types.Package {
	if p := w.All[path]; p != nil {
		return p.Types
	}
	return nil
}

// CallGraph returns the whole-program VTA call graph (built lazily).
func (w *World) CallGraph() *callgraph.Graph {
	if w.cg == nil {
		w.cg = vta.CallGraph(ssautil.AllFunctions(w.Prog), cha.CallGraph(w.Prog))
	}
	return w.cg
}

// Callees returns the possible callees of a call instruction: the static callee, or the
// VTA-resolved set for dynamic calls.
func (w *World) Callees(site ssa.CallInstruction) []*ssa.Function {
	if f := site.Common().StaticCallee(); f != nil {
		return []*ssa.Function{f}
	}
	var out []*ssa.Function
	n := w.CallGraph().Nodes[site.Parent()]
	if n == nil {
		return nil
	}
	seen := map[*ssa.Function]bool{}
	for _, e := range n.Out {
		if e.Site == site && !seen[e.Callee.Func] {
			seen[e.Callee.Func] = true
			out = append(out, e.Callee.Func)
		}
	}
	sort.Slice(out, func(i, j int) bool { return out[i].String() < out[j].String() })
	return out
}

// Pos renders a position relative to the repository root.
func (w *World) Pos(p token.Pos) string {
	if !p.IsValid() {
		return "-"
	}
	pos := w.Fset.Position(p)
	rel, err := filepath.Rel(w.Repo, pos.Filename)
	if err != nil || strings.HasPrefix(rel, "..") {
		rel = pos.Filename
		if i := strings.Index(rel, "/pkg/mod/"); i >= 0 {
			rel = rel[i+len("/pkg/mod/"):]
		}
	}
	return fmt.Sprintf("%s:%d:%d", rel, pos.Line, pos.Column)
}

// InstrPos finds the best position for an instruction (some have NoPos).
func (w *World) InstrPos(in ssa.Instruction) string {
	if in.Pos().IsValid() {
		return w.Pos(in.Pos())
	}
	if v, ok := in.(ssa.Value); ok {
		_ = v
	}
	// fall back to the nearest positioned instruction in the block, then the function
	b := in.Block()
	if b != nil {
		idx := -1
		for i, x := range b.Instrs {
			if x == in {
				idx = i
			}
		}
		for d := 1; d < len(b.Instrs); d++ {
			for _, j := range []int{idx - d, idx + d} {
				if j >= 0 && j < len(b.Instrs) && b.Instrs[j].Pos().IsValid() {
					return w.Pos(b.Instrs[j].Pos())
				}
			}
		}
	}
	return w.Pos(in.Parent().Pos())
}

// FuncName is a short stable name for a function: pkg-relative, with receiver.
func FuncName(fn *ssa.Function) string {
	if fn == nil {
		return "<nil>"
	}
	s := fn.String()
	s = strings.ReplaceAll(s, modPath+"/", "")
	s = strings.ReplaceAll(s, modPath+".", "")
	s = strings.ReplaceAll(s, modPath, "prunner")
	return s
}

// FuncByName finds a package-level function or method ("(*T).m" / "T.m" / "f") in a module package.
func (w *World) FuncByName(pkgRel, name string) *ssa.Function {
	p := w.Pkg(pkgRel)
	if p == nil {
		return nil
	}
	if strings.HasPrefix(name, "(") || strings.Contains(name, ".") {
		ptr := strings.HasPrefix(name, "(*")
		n := strings.TrimPrefix(strings.TrimPrefix(name, "(*"), "(")
		n = strings.Replace(n, ")", "", 1)
		parts := strings.SplitN(n, ".", 2)
		tn, ok := p.Pkg.Scope().Lookup(parts[0]).(*types.TypeName)
		if !ok {
			return nil
		}
		var T types.Type = tn.Type()
		if ptr {
			T = types.NewPointer(T)
		}
		sel := w.Prog.MethodSets.MethodSet(T).Lookup(p.Pkg, parts[1])
		if sel == nil {
			return nil
		}
		return w.Prog.MethodValue(sel)
	}
	return p.Func(name)
}

// NamedType looks up a named type in a module package.
func (w *World) NamedType(pkgRel, name string) *types.Named {
	p := w.Pkg(pkgRel)
	if p == nil {
		return nil
	}
	tn, ok := p.Pkg.Scope().Lookup(name).(*types.TypeName)
	if !ok {
		return nil
	}
	n, _ := tn.Type().(*types.Named)
	return n
}

func structOf(t types.Type) *types.Struct {
	if t == nil {
		return nil
	}
	if p, ok := t.Underlying().(*types.Pointer); ok {
		t = p.Elem()
	}
	s, _ := t.Underlying().(*types.Struct)
	return s
}

func namedOf(t types.Type) *types.Named {
	if t == nil {
		return nil
	}
	if p, ok := t.(*types.Pointer); ok {
		t = p.Elem()
	}
	n, _ := t.(*types.Named)
	return n
}

// FuncByRole finds a function by its expected name, or — when it was renamed — by a role
// predicate over the module functions of the package (exactly one match is required).
func (w *World) FuncByRole(pkgRel, name string, role func(fn *ssa.Function) bool) *ssa.Function {
	if f := w.FuncByName(pkgRel, name); f != nil && (role == nil || role(f)) {
		return f
	}
	if role == nil {
		return nil
	}
	p := w.Pkg(pkgRel)
	var found []*ssa.Function
	for _, fn := range w.ModFuncs {
		if fn.Package() == p && fn.Parent() == nil && fn.Synthetic == "" && role(fn) {
			found = append(found, fn)
		}
	}
	if len(found) == 1 {
		return found[0]
	}
	return nil
}

func sigHas(fn *ssa.Function, params []string, results []string) bool {
	ps, rs := fn.Signature.Params(), fn.Signature.Results()
	if ps.Len() != len(params) || rs.Len() != len(results) {
		return false
	}
	for i, p := range params {
		if !strings.HasSuffix(ps.At(i).Type().String(), p) {
			return false
		}
	}
	for i, r := range results {
		if !strings.HasSuffix(rs.At(i).Type().String(), r) {
			return false
		}
	}
	return true
}

func recvIs(fn *ssa.Function, typeName string) bool {
	r := fn.Signature.Recv()
	if r == nil {
		return typeName == ""
	}
	n := namedOf(r.Type())
	return n != nil && n.Obj().Name() == typeName
}

func callsNamed(fn *ssa.Function, suffix string) bool {
	return len(findCalls(fn, func(n string, _ *ssa.CallCommon) bool { return strings.HasSuffix(n, suffix) })) > 0
}
