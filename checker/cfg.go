package main

import (
	"fmt"
	"go/constant"
	"go/token"
	"go/types"
	"strings"

	"golang.org/x/tools/go/ssa"
)

// ---------------------------------------------------------------------------------
// K4: instruction-level reachability on the SSA control-flow graph.

// PathQuery asks for a path from Start (just after one of the start instructions, or the
// function entry when Start is nil) to an instruction satisfying Target that avoids every
// instruction satisfying BlockInstr and every edge satisfying BlockEdge.
type PathQuery struct {
	Fn         *ssa.Function
	Start      []ssa.Instruction
	Target     func(ssa.Instruction) bool
	BlockInstr func(ssa.Instruction) bool
	BlockEdge  func(from *ssa.BasicBlock, succ int) bool
}

type PathResult struct {
	Found  bool
	Target ssa.Instruction
	Blocks []int // block indices from start to target
}

func (r PathResult) String() string {
	var s []string
	for _, b := range r.Blocks {
		s = append(s, fmt.Sprint(b))
	}
	return "blocks " + strings.Join(s, "→")
}

func instrIndex(in ssa.Instruction) int {
	for i, x := range in.Block().Instrs {
		if x == in {
			return i
		}
	}
	return -1
}

// nilGuardEdge is set by loadWorld to World.nilGuardInfeasible.
var nilGuardEdge func(b *ssa.BasicBlock, succ int) bool

func (q PathQuery) Find() PathResult {
	type node struct {
		b    *ssa.BasicBlock
		from int // index to start scanning
	}
	type pred struct {
		prev int
		blk  int
	}
	var queue []node
	var trail []pred // parallel to queue
	visitedEntry := map[int]bool{}
	push := func(n node, prev int) {
		queue = append(queue, n)
		trail = append(trail, pred{prev: prev, blk: n.b.Index})
	}
	if len(q.Start) == 0 {
		if len(q.Fn.Blocks) == 0 {
			return PathResult{}
		}
		visitedEntry[0] = true
		push(node{q.Fn.Blocks[0], 0}, -1)
	} else {
		for _, s := range q.Start {
			push(node{s.Block(), instrIndex(s) + 1}, -1)
		}
	}
	for qi := 0; qi < len(queue); qi++ {
		n := queue[qi]
		blocked := false
		for i := n.from; i < len(n.b.Instrs); i++ {
			in := n.b.Instrs[i]
			if q.Target != nil && q.Target(in) {
				var blocks []int
				for k := qi; k >= 0; k = trail[k].prev {
					blocks = append([]int{trail[k].blk}, blocks...)
				}
				return PathResult{Found: true, Target: in, Blocks: blocks}
			}
			if q.BlockInstr != nil && q.BlockInstr(in) {
				blocked = true
				break
			}
		}
		if blocked {
			continue
		}
		for si, s := range n.b.Succs {
			if q.BlockEdge != nil && q.BlockEdge(n.b, si) {
				continue
			}
			// an edge that is taken only if a job pointer known to be non-nil were nil (nonnil.go)
			if nilGuardEdge != nil && nilGuardEdge(n.b, si) {
				continue
			}
			if visitedEntry[s.Index] {
				continue
			}
			visitedEntry[s.Index] = true
			push(node{s, 0}, qi)
		}
	}
	return PathResult{}
}

// instrDominates reports whether a is executed before b on every path from entry to b.
func instrDominates(a, b ssa.Instruction) bool {
	if a.Block() == b.Block() {
		return instrIndex(a) < instrIndex(b)
	}
	return a.Block().Dominates(b.Block())
}

// isReturn reports whether in is a Return instruction.
func isReturn(in ssa.Instruction) bool {
	_, ok := in.(*ssa.Return)
	return ok
}

// ---------------------------------------------------------------------------------
// K3: acyclic path enumeration with canonical branch atoms, effects and results.

type Atom struct {
	Op   string // "<", "<=", "==", "!=", ">", ">=", "true"
	L, R string
}

func (a Atom) String() string {
	if a.Op == "true" {
		return a.L
	}
	return a.L + " " + a.Op + " " + a.R
}

type Lit struct {
	Atom
	Val  bool
	At   ssa.Instruction
	Pure bool      // the condition reads memory only (two evaluations on one path agree unless a store intervenes)
	Inl  bool      // the branch belongs to an inlined helper
	Subj ssa.Value // the call result a nil test is about (nil if it may differ between two tests on a path)
}

func (l Lit) String() string {
	if l.Val {
		return l.Atom.String()
	}
	return "!(" + l.Atom.String() + ")"
}

type Effect struct {
	Kind   string // store | mapupdate | call | go | defer | delete | send
	Target string // access path of the address / callee name
	Val    string // access path of the stored value / arguments
	In     ssa.Instruction
	Callee *ssa.Function
	// Spliced: a call whose callee's body follows on the path (helper inlining)
	Spliced bool
}

func (e Effect) String() string {
	switch e.Kind {
	case "store", "mapupdate":
		return e.Target + " := " + e.Val
	}
	return e.Kind + " " + e.Target + "(" + e.Val + ")"
}

// Event is one step of a path in program order: a branch literal or an effect.
type Event struct {
	Lit *Lit
	Eff *Effect
}

type Path struct {
	Events  []Event
	Lits    []Lit
	Effects []Effect
	Ret     []string
	RetVals []ssa.Value
	Blocks  []int
	End     string // "return" | "panic" | "backedge:<n>" | "stop:<n>"
	// BackPhi: for a path ending at a back edge, the value each phi of the target block
	// receives over that edge (by the phi's variable comment, e.g. "ready").
	BackPhi map[string]string
	phi     map[*ssa.Phi]ssa.Value
}

func (p *Path) LitString() string {
	var s []string
	for _, l := range p.Lits {
		s = append(s, l.String())
	}
	return strings.Join(s, " ∧ ")
}

type EnumOpts struct {
	Start     *ssa.BasicBlock // default: entry
	StopBlock func(b *ssa.BasicBlock) bool
	MaxPaths  int
	// KeepCall decides whether a call is recorded as an effect (default: every call that is
	// not into the logging package).
	KeepCall func(c *ssa.CallCommon) bool
	// NoPrune disables the pruning of paths with contradictory literals.
	NoPrune bool
	// NoLoopExit ends a path at the first back edge instead of leaving inner loops.
	NoLoopExit bool
	// Inline enables the inlining of module helpers (World.inlinable); Opaque keeps
	// individual callees as plain calls (the functions a rule refers to by name).
	Inline   bool
	NoInline bool
	Opaque   func(*ssa.Function) bool
	// ForceInline lets a rule splice in anchors it wants to see through (they are kept as
	// plain calls by default).
	ForceInline func(*ssa.Function) bool
	// StopDeep applies StopBlock inside spliced helpers too.
	StopDeep bool
	// Params binds parameters (of the function, or of functions enclosing a closure) to the values a
	// particular call site passes: the paths are rendered in that caller's terms.
	Params map[*ssa.Parameter]ssa.Value
	// Calls fixes the results of particular calls (a pure helper evaluated beforehand, one case at a time).
	Calls map[*ssa.Call][]ssa.Value
}

type EnumResult struct {
	Paths     []*Path
	Truncated bool
	Pruned    int
}

func isLogCall(c *ssa.CallCommon) bool {
	f := c.StaticCallee()
	if f == nil {
		return false
	}
	if o := f.Object(); o != nil && o.Pkg() != nil {
		p := o.Pkg().Path()
		return p == "github.com/apex/log" || p == "fmt" && strings.HasPrefix(o.Name(), "Sprint")
	}
	return false
}

func flipOp(op string) string {
	switch op {
	case "<":
		return ">"
	case "<=":
		return ">="
	case ">":
		return "<"
	case ">=":
		return "<="
	}
	return op
}

// canonAtom normalises (op, l, r, val): constants on the right, only the operators
// "<", "<=", "==" and "true" remain with a truth value.
func canonAtom(op, l, r string, val bool) (Atom, bool) {
	if op == "true" {
		return Atom{Op: "true", L: l}, val
	}
	isConst := func(s string) bool {
		if s == "nil" || s == "true" || s == "false" {
			return true
		}
		if len(s) > 0 && (s[0] >= '0' && s[0] <= '9' || s[0] == '-' && len(s) > 1 && s[1] >= '0' && s[1] <= '9' || s[0] == '"') {
			return true
		}
		return false
	}
	if isConst(l) && !isConst(r) || (!isConst(l) && !isConst(r) && l > r) {
		l, r = r, l
		op = flipOp(op)
	}
	switch op {
	case "!=":
		op, val = "==", !val
	case ">":
		op, val = "<=", !val
	case ">=":
		op, val = "<", !val
	}
	return Atom{Op: op, L: l, R: r}, val
}

// EnumPaths enumerates the acyclic paths of fn (or of a region of it). An inner loop is
// traversed once and then left through its exit edge (second visit of its header takes only
// successors that are not on the path yet); a third visit ends the path as "backedge".
//
// Calls of small module helpers (World.inlinable) are inlined: the call is recorded as an
// effect, then the callee's literals and effects follow in program order with the callee's
// parameters bound to the caller's argument values, and the call's result resolves to the
// value the callee returns on that path. A refactoring that extracts a part of a function
// into a helper therefore yields the same literal/effect streams as before.
func (w *World) EnumPaths(fn *ssa.Function, o EnumOpts) EnumResult {
	res := w.enumPaths(fn, o)
	if res.Truncated && o.Inline && !o.NoInline {
		// too many paths with helpers spliced in: fall back to the function on its own
		o.NoInline = true
		return w.enumPaths(fn, o)
	}
	return res
}

func (w *World) enumPaths(fn *ssa.Function, o EnumOpts) EnumResult {
	if o.MaxPaths == 0 {
		o.MaxPaths = 4096
	}
	var res EnumResult
	start := o.Start
	if start == nil {
		start = fn.Blocks[0]
	}
	type frame struct {
		lits    []Lit
		effects []Effect
		blocks  []int
		phi     map[*ssa.Phi]ssa.Value
		onPath  map[*ssa.BasicBlock]int
		mem     map[*ssa.Alloc]ssa.Value
		param   map[*ssa.Parameter]ssa.Value
		calls   map[*ssa.Call][]ssa.Value
		loads   map[*ssa.UnOp]ssa.Value // value a load of a multi-store local had when the path executed it
		inl     map[*ssa.Function]bool  // callees inlined on this path (each at most once)
		order   []byte                  // 'L' / 'E' in program order
	}
	use := func(f *frame) {
		w.phiEnv, w.memEnv, w.paramEnv, w.callEnv, w.loadEnv = f.phi, f.mem, f.param, f.calls, f.loads
	}
	clear := func() { w.phiEnv, w.memEnv, w.paramEnv, w.callEnv, w.loadEnv = nil, nil, nil, nil, nil }
	finish := func(f frame, end string, rets []ssa.Value) {
		if len(res.Paths) >= o.MaxPaths {
			res.Truncated = true
			return
		}
		p := &Path{Lits: f.lits, Effects: f.effects, Blocks: f.blocks, End: end, phi: f.phi, RetVals: rets}
		li, ei := 0, 0
		for _, k := range f.order {
			if k == 'L' {
				p.Events = append(p.Events, Event{Lit: &p.Lits[li]})
				li++
			} else {
				p.Events = append(p.Events, Event{Eff: &p.Effects[ei]})
				ei++
			}
		}
		use(&f)
		for i, r := range rets {
			p.Ret = append(p.Ret, w.AP(r))
			p.RetVals[i] = w.Resolve(r)
		}
		clear()
		res.Paths = append(res.Paths, p)
	}
	// cont receives the frame at a return of an inlined callee
	type cont func(f frame, rets []ssa.Value)
	var walk func(b *ssa.BasicBlock, prev *ssa.BasicBlock, f frame, depth int, k cont)
	var resume func(b *ssa.BasicBlock, from int, nf frame, exiting bool, depth int, k cont)
	walk = func(b *ssa.BasicBlock, prev *ssa.BasicBlock, f frame, depth int, k cont) {
		if res.Truncated {
			return
		}
		visits := f.onPath[b]
		edgePhis := func() {
			if prev == nil || len(res.Paths) == 0 {
				return
			}
			last := res.Paths[len(res.Paths)-1]
			last.BackPhi = map[string]string{}
			pi := -1
			for i, p := range b.Preds {
				if p == prev {
					pi = i
				}
			}
			use(&f)
			for _, in := range b.Instrs {
				ph, ok := in.(*ssa.Phi)
				if !ok {
					break
				}
				if pi >= 0 {
					v := ph.Edges[pi]
					name := ph.Comment
					if name == "" {
						name = ph.Name()
					}
					if v == ssa.Value(ph) || w.Resolve(v) == ssa.Value(ph) {
						// (directly, or through the phi of a loop-post block that merges `continue` edges)
						last.BackPhi[name] = "<unchanged>"
					} else if r, ok := f.phi[ph]; ok && w.Resolve(v) == r {
						last.BackPhi[name] = "<unchanged>"
					} else {
						last.BackPhi[name] = w.AP(v)
					}
				}
			}
			clear()
		}
		if visits >= 2 || (visits == 1 && ((depth == 0 && b == start) || o.NoLoopExit)) {
			n0 := len(res.Paths)
			finish(f, fmt.Sprintf("backedge:%d", b.Index), nil)
			if len(res.Paths) > n0 {
				edgePhis()
			}
			return
		}
		if (depth == 0 || o.StopDeep) && o.StopBlock != nil && b != start && o.StopBlock(b) {
			n0 := len(res.Paths)
			finish(f, fmt.Sprintf("stop:%d", b.Index), nil)
			if len(res.Paths) > n0 {
				edgePhis()
			}
			return
		}
		exiting := visits == 1
		nf := frame{
			lits:    append([]Lit(nil), f.lits...),
			effects: append([]Effect(nil), f.effects...),
			blocks:  append([]int(nil), f.blocks...),
			order:   append([]byte(nil), f.order...),
			phi:     make(map[*ssa.Phi]ssa.Value, len(f.phi)),
			onPath:  make(map[*ssa.BasicBlock]int, len(f.onPath)+1),
			mem:     make(map[*ssa.Alloc]ssa.Value, len(f.mem)),
			param:   make(map[*ssa.Parameter]ssa.Value, len(f.param)),
			calls:   make(map[*ssa.Call][]ssa.Value, len(f.calls)),
			loads:   make(map[*ssa.UnOp]ssa.Value, len(f.loads)),
			inl:     make(map[*ssa.Function]bool, len(f.inl)),
		}
		if depth == 0 {
			nf.blocks = append(nf.blocks, b.Index)
		}
		for k, v := range f.phi {
			nf.phi[k] = v
		}
		for k, v := range f.mem {
			nf.mem[k] = v
		}
		for k, v := range f.loads {
			nf.loads[k] = v
		}
		for k, v := range f.onPath {
			nf.onPath[k] = v
		}
		for k, v := range f.param {
			nf.param[k] = v
		}
		for k, v := range f.calls {
			nf.calls[k] = v
		}
		for k, v := range f.inl {
			nf.inl[k] = v
		}
		nf.onPath[b]++
		// resolve phis by the edge taken
		if prev != nil {
			pi := -1
			for i, p := range b.Preds {
				if p == prev {
					pi = i
				}
			}
			for _, in := range b.Instrs {
				ph, ok := in.(*ssa.Phi)
				if !ok {
					break
				}
				if pi >= 0 {
					v := ph.Edges[pi]
					if p2, ok := v.(*ssa.Phi); ok {
						if r, ok := nf.phi[p2]; ok {
							v = r
						}
					}
					selfRef := false
					if _, isPhi := v.(*ssa.Phi); isPhi {
						// another phi (e.g. the loop header's, seen from the loop-post block) is a name for a value, not a computation on this one
					} else if in2, ok := v.(ssa.Instruction); ok {
						for _, op := range in2.Operands(nil) {
							if *op == ssa.Value(ph) {
								selfRef = true
							}
						}
					}
					if exiting || selfRef {
						// value after an unknown number of iterations: forget the binding
						delete(nf.phi, ph)
					} else {
						nf.phi[ph] = v
					}
				}
			}
		}
		resume(b, 0, nf, exiting, depth, k)
	}
	resume = func(b *ssa.BasicBlock, from int, nf frame, exiting bool, depth int, k cont) {
		defer clear()
		for idx := from; idx < len(b.Instrs); idx++ {
			in := b.Instrs[idx]
			use(&nf)
			switch x := in.(type) {
			case *ssa.UnOp:
				// a load of a local that is stored to more than once: its value is the one the cell holds NOW
				// (a later `err = wrap(err)` must not change what this load meant)
				if x.Op == token.MUL {
					if a, ok := w.resolveAddr(x.X).(*ssa.Alloc); ok {
						if s, ok := nf.mem[a]; ok && s != nil && w.allocSingleStore(a) == nil {
							nf.loads[x] = s
						}
					}
				}
			case *ssa.Store:
				if a, ok := w.resolveAddr(x.Addr).(*ssa.Alloc); ok {
					nf.mem[a] = w.Resolve(x.Val)
				}
				if !exiting {
					nf.effects = append(nf.effects, Effect{Kind: "store", Target: w.apAddr(x.Addr), Val: w.AP(x.Val), In: in})
					nf.order = append(nf.order, 'E')
				}
			case *ssa.MapUpdate:
				if !exiting {
					nf.effects = append(nf.effects, Effect{Kind: "mapupdate", Target: w.AP(x.Map) + "[" + w.AP(x.Key) + "]", Val: w.AP(x.Value), In: in})
					nf.order = append(nf.order, 'E')
				}
			case *ssa.Send:
				if !exiting {
					nf.effects = append(nf.effects, Effect{Kind: "send", Target: w.AP(x.Chan), Val: w.AP(x.X), In: in})
					nf.order = append(nf.order, 'E')
				}
			case *ssa.Call, *ssa.Go, *ssa.Defer:
				c := callCommonOf(in)
				keep := !isLogCall(c)
				if o.KeepCall != nil {
					keep = o.KeepCall(c)
				}
				if keep && !exiting {
					kind := "call"
					switch in.(type) {
					case *ssa.Go:
						kind = "go"
					case *ssa.Defer:
						kind = "defer"
					}
					var args []string
					for _, a := range c.Args {
						args = append(args, w.AP(a))
					}
					tgt := ""
					if bi, ok := c.Value.(*ssa.Builtin); ok {
						tgt = bi.Name()
						if tgt == "delete" {
							kind = "delete"
						}
					} else if c.IsInvoke() {
						tgt = w.AP(c.Value) + "." + c.Method.Name()
					} else if sf := c.StaticCallee(); sf != nil {
						tgt = FuncName(sf)
					} else if cf := funcValue(c.Value); cf != nil {
						tgt = FuncName(cf)
					} else {
						tgt = "dyn:" + w.AP(c.Value)
					}
					nf.effects = append(nf.effects, Effect{Kind: kind, Target: tgt, Val: strings.Join(args, ","), In: in, Callee: c.StaticCallee()})
					nf.order = append(nf.order, 'E')
				}
				// inline a small module helper
				if call, ok := in.(*ssa.Call); ok && !exiting && o.Inline && !o.NoInline && depth < 5 {
					sameBinding := func(callee *ssa.Function) bool {
						use(&nf)
						for i, prm := range callee.Params {
							if i >= len(c.Args) || nf.param[prm] != w.Resolve(c.Args[i]) {
								return false
							}
						}
						return true
					}
					if callee := c.StaticCallee(); callee != nil && (!nf.inl[callee] || sameBinding(callee)) && callee != fn && (w.inlinable(callee) || o.ForceInline != nil && o.ForceInline(callee) && w.inlinableShape(callee)) && (o.Opaque == nil || !o.Opaque(callee)) {
						// bind the parameters to the caller's argument values (resolved in the caller's context)
						if keep && len(nf.effects) > 0 && nf.effects[len(nf.effects)-1].In == in {
							nf.effects = append(append([]Effect(nil), nf.effects[:len(nf.effects)-1]...), func() Effect { e := nf.effects[len(nf.effects)-1]; e.Spliced = true; return e }())
						}
						g := nf
						g.param = make(map[*ssa.Parameter]ssa.Value, len(nf.param)+len(callee.Params))
						for k2, v := range nf.param {
							g.param[k2] = v
						}
						g.inl = make(map[*ssa.Function]bool, len(nf.inl)+1)
						for k2, v := range nf.inl {
							g.inl[k2] = v
						}
						g.inl[callee] = true
						use(&nf) // (the inlinability test may have enumerated the callee and reset the environment)
						for i, prm := range callee.Params {
							if i < len(c.Args) {
								g.param[prm] = w.Resolve(c.Args[i])
							}
						}
						clear()
						next := idx + 1
						nEffBefore := len(nf.effects)
						walk(callee.Blocks[0], nil, g, depth+1, func(f2 frame, rets []ssa.Value) {
							// deferred mutex releases registered in the helper run here, at its exit: emitted as calls (latest first)
							var rel []Effect
							for i := len(f2.effects) - 1; i >= nEffBefore && i >= 0; i-- {
								if e := f2.effects[i]; e.Kind == "defer" && e.In != nil && e.In.Parent() == callee && isMutexRelease(e.Target) {
									rel = append(rel, Effect{Kind: "call", Target: e.Target, Val: e.Val, In: e.In})
								}
							}
							if len(rel) > 0 {
								f2.effects = append(append([]Effect(nil), f2.effects...), rel...)
								ord := append([]byte(nil), f2.order...)
								for range rel {
									ord = append(ord, 'E')
								}
								f2.order = ord
							}
							use(&f2)
							rs := make([]ssa.Value, len(rets))
							for i, r := range rets {
								rs[i] = w.Resolve(r)
							}
							clear()
							f2.calls[call] = rs
							resume(b, next, f2, false, depth, k)
						})
						return
					}
				}
			case *ssa.Return:
				clear()
				if depth > 0 && k != nil {
					k(nf, append([]ssa.Value(nil), x.Results...))
					return
				}
				finish(nf, "return", append([]ssa.Value(nil), x.Results...))
				return
			case *ssa.Panic:
				clear()
				finish(nf, "panic", nil)
				return
			case *ssa.If:
				clear()
				if exiting {
					// leave the loop: only successors not on the path yet
					took := false
					for si, sc := range b.Succs {
						if nf.onPath[sc] == 0 {
							took = true
							walk(b.Succs[si], b, nf, depth, k)
						}
					}
					if !took {
						finish(nf, fmt.Sprintf("backedge:%d", b.Index), nil)
					}
					return
				}
				w.loadEnv = nf.loads
				w.branch(x, nf.phi, nf.mem, nf.param, nf.calls, func(succ int, lit *Lit) {
					g := nf
					if lit != nil {
						lit.Inl = depth > 0
						if !o.NoPrune && lit.Val && lit.Atom.Op == "==" && lit.Atom.R == "nil" && strings.Contains(lit.Atom.L, ".jobsByID[") && lookupKnownPresent(g.lits, lit.Atom.L) && w.nonNilInvariant() {
							// the looked-up job was found on this path: it is not nil
							res.Pruned++
							return
						}
						if !o.NoPrune {
							for _, l := range g.lits {
								if l.Atom == lit.Atom && l.Val != lit.Val && lit.Pure && !storedBetween(g.effects, l, lit.Atom) {
									res.Pruned++
									return
								}
								// the very same call result tested against nil twice (err, then a wrapped err)
								if l.Atom == lit.Atom && l.Val != lit.Val && l.Subj != nil && l.Subj == lit.Subj {
									res.Pruned++
									return
								}
							}
						}
						g.lits = append(append([]Lit(nil), nf.lits...), *lit)
						g.order = append(append([]byte(nil), nf.order...), 'L')
					}
					walk(b.Succs[succ], b, g, depth, k)
				})
				return
			case *ssa.Jump:
				clear()
				walk(b.Succs[0], b, nf, depth, k)
				return
			}
		}
		clear()
		if len(b.Succs) == 0 {
			finish(nf, "exit", nil)
		}
	}
	walk(start, nil, frame{phi: map[*ssa.Phi]ssa.Value{}, onPath: map[*ssa.BasicBlock]int{}, mem: map[*ssa.Alloc]ssa.Value{}, param: o.Params, calls: o.Calls}, 0, nil)
	return res
}

// inlinable: a static callee whose body EnumPaths splices into the caller's paths: a source
// function of the module that is not an anchor of a rule (World.noInline: the role functions),
// is not a closure, has no defer/recover/select/go, is small (≤ 30 blocks) and has few
// paths of its own (≤ 16, so that splicing does not blow the enumeration up).
func (w *World) inlinable(f *ssa.Function) bool {
	if f == nil || w.noInline != nil && w.noInline(f) {
		return false
	}
	return w.inlinableShape(f)
}

// inlinableShape is inlinable without the anchor test.
func (w *World) inlinableShape(f *ssa.Function) bool {
	if v, ok := w.inlMemo[f]; ok {
		return v
	}
	if w.inlMemo == nil {
		w.inlMemo = map[*ssa.Function]bool{}
	}
	w.inlMemo[f] = false // recursion guard
	ok := func() bool {
		if f == nil || f.Blocks == nil || f.Synthetic != "" || !w.InModule(f) || len(f.Blocks) > 30 {
			return false
		}
		if len(f.FreeVars) > 0 {
			return false
		}
		for _, b := range f.Blocks {
			for _, in := range b.Instrs {
				switch x := in.(type) {
				case *ssa.Defer:
					// a deferred Close of a file is harmless for the rules (it is recorded where it is
					// registered); any other deferred call keeps the function opaque
					// … and so is a deferred release of a mutex: when the helper is spliced, the release is emitted as a call
					// at the helper's exit (see the splice continuation in walk)
					if name := calleeName(&x.Call); !(strings.HasSuffix(name, ".Close") || name == "invoke:Close" || isMutexRelease(name)) {
						return false
					}
				case *ssa.RunDefers:
				case *ssa.Select:
					return false
				}
			}
		}
		pr := w.enumPaths(f, EnumOpts{NoInline: true, MaxPaths: 17})
		return !pr.Truncated && len(pr.Paths) <= 16
	}()
	w.inlMemo[f] = ok
	return ok
}

// sentinelError: v is the load of a package-level variable of the module that is assigned
// exactly once, in the package initialiser, the result of errors.New / Errorf — never nil.
func (w *World) sentinelError(v ssa.Value) bool {
	ld, ok := v.(*ssa.UnOp)
	if !ok || ld.Op != token.MUL {
		return false
	}
	g, ok := ld.X.(*ssa.Global)
	if !ok || g.Pkg == nil || !w.InModulePkg(g.Pkg.Pkg) {
		return false
	}
	if w.sentinelMemo == nil {
		w.sentinelMemo = map[*ssa.Global]bool{}
		stores := map[*ssa.Global][]*ssa.Store{}
		for _, p := range w.Prog.AllPackages() {
			if !w.InModulePkg(p.Pkg) {
				continue
			}
			for _, m := range p.Members {
				f, ok := m.(*ssa.Function)
				if !ok {
					continue
				}
				for _, fn := range withClosures(f) {
					allInstrs(fn, func(in ssa.Instruction) {
						if st, ok := in.(*ssa.Store); ok {
							if gg, ok := st.Addr.(*ssa.Global); ok {
								stores[gg] = append(stores[gg], st)
							}
						}
					})
				}
			}
		}
		for gg, sts := range stores {
			if len(sts) != 1 || sts[0].Parent().Name() != "init" {
				continue
			}
			if c, ok := sts[0].Val.(*ssa.Call); ok {
				n := calleeName(&c.Call)
				if strings.HasSuffix(n, "errors.New") || strings.HasSuffix(n, "errors.Errorf") || n == "fmt.Errorf" {
					w.sentinelMemo[gg] = true
				}
			}
		}
	}
	return w.sentinelMemo[g]
}

// statelessCallee: f takes no pointer to a module struct (receiver or parameter) — it
// cannot touch the shared state the scheduling rules reason about. Used as EnumOpts.Opaque
// by rules that refer to such helpers (constructors, converters) by name.
func (w *World) statelessCallee(f *ssa.Function) bool {
	modStructPtr := func(t types.Type) bool {
		if pt, ok := t.Underlying().(*types.Pointer); ok {
			if n, ok := pt.Elem().(*types.Named); ok && n.Obj().Pkg() != nil && w.InModulePkg(n.Obj().Pkg()) {
				if _, ok := n.Underlying().(*types.Struct); ok {
					return true
				}
			}
		}
		return false
	}
	for _, p := range f.Params {
		if modStructPtr(p.Type()) {
			return false
		}
		// a list of such pointers (a named list type with methods, say): the elements and the shared
		// backing array are reachable through it
		if sl, ok := p.Type().Underlying().(*types.Slice); ok && modStructPtr(sl.Elem()) {
			return false
		}
	}
	return true
}

// pureValue: v is computed from memory loads, constants and operators only — no call whose
// result may change between two evaluations (len/cap and comma-ok lookups are pure).
func (w *World) pureValue(v ssa.Value, depth int) bool {
	if depth > 12 {
		return false
	}
	v = w.Resolve(v)
	switch x := v.(type) {
	case *ssa.Call:
		if b, ok := x.Call.Value.(*ssa.Builtin); ok && (b.Name() == "len" || b.Name() == "cap") {
			return w.pureValue(x.Call.Args[0], depth+1)
		}
		return false
	case *ssa.UnOp:
		if x.Op == token.ARROW {
			return false
		}
		return w.pureValue(x.X, depth+1)
	case *ssa.BinOp:
		return w.pureValue(x.X, depth+1) && w.pureValue(x.Y, depth+1)
	case *ssa.FieldAddr:
		return w.pureValue(x.X, depth+1)
	case *ssa.Field:
		return w.pureValue(x.X, depth+1)
	case *ssa.IndexAddr:
		return w.pureValue(x.X, depth+1) && w.pureValue(x.Index, depth+1)
	case *ssa.Index:
		return w.pureValue(x.X, depth+1) && w.pureValue(x.Index, depth+1)
	case *ssa.Lookup:
		return w.pureValue(x.X, depth+1) && w.pureValue(x.Index, depth+1)
	case *ssa.Extract:
		return w.pureValue(x.Tuple, depth+1)
	case *ssa.Phi:
		return false
	case *ssa.TypeAssert:
		return w.pureValue(x.X, depth+1)
	}
	return true
}

// storedBetween: has the path stored to an access path mentioned by the atom? (conservative
// textual test over the effects of the path so far: a store whose target is part of an
// operand invalidates an earlier literal over that operand)
func storedBetween(effects []Effect, l Lit, a Atom) bool {
	for _, e := range effects {
		if e.Kind != "store" && e.Kind != "mapupdate" {
			continue
		}
		if e.Target != "" && (strings.Contains(a.L, e.Target) || strings.Contains(a.R, e.Target)) {
			return true
		}
	}
	return false
}

// branch evaluates the condition of an If along the current path and calls take for each
// feasible successor with the literal that holds on it (nil when the condition is constant).
func (w *World) branch(x *ssa.If, phi map[*ssa.Phi]ssa.Value, mem map[*ssa.Alloc]ssa.Value, param map[*ssa.Parameter]ssa.Value, calls map[*ssa.Call][]ssa.Value, take func(succ int, lit *Lit)) {
	w.phiEnv, w.memEnv, w.paramEnv, w.callEnv = phi, mem, param, calls
	w.condAt = x
	w.condSubj = nil
	op, l, r, neg, konst := w.condAtom(x.Cond, 0)
	subj := w.condSubj
	w.condAt, w.condSubj = nil, nil
	w.phiEnv, w.memEnv, w.paramEnv, w.callEnv = nil, nil, nil, nil
	if konst != nil {
		v := *konst
		if neg {
			v = !v
		}
		if v {
			take(0, nil)
		} else {
			take(1, nil)
		}
		return
	}
	at, tv := canonAtom(op, l, r, !neg)
	w.phiEnv, w.memEnv, w.paramEnv, w.callEnv = phi, mem, param, calls
	pure := w.pureValue(x.Cond, 0)
	w.phiEnv, w.memEnv, w.paramEnv, w.callEnv = nil, nil, nil, nil
	take(0, &Lit{Atom: at, Val: tv, At: x, Pure: pure, Subj: subj})
	take(1, &Lit{Atom: at, Val: !tv, At: x, Pure: pure, Subj: subj})
}

// condAtom decomposes a boolean value into (op,l,r) possibly negated, or a constant.
func (w *World) condAtom(v ssa.Value, depth int) (op, l, r string, neg bool, konst *bool) {
	v = w.Resolve(v)
	switch x := v.(type) {
	case *ssa.Const:
		b := isBoolConst(x, true)
		return "", "", "", false, &b
	case *ssa.UnOp:
		if x.Op.String() == "!" && depth < 8 {
			op, l, r, neg, konst = w.condAtom(x.X, depth+1)
			return op, l, r, !neg, konst
		}
	case *ssa.BinOp:
		switch x.Op.String() {
		case "<", "<=", ">", ">=", "==", "!=":
			// both operands resolve to the nil constant (e.g. a spliced helper returned nil)
			if (x.Op.String() == "==" || x.Op.String() == "!=") && isNilConst(w.Resolve(x.X)) && isNilConst(w.Resolve(x.Y)) {
				b := x.Op.String() == "=="
				return "", "", "", false, &b
			}
			// a sentinel error variable (assigned once, in init, from errors.New/Errorf) compared with nil
			if x.Op.String() == "==" || x.Op.String() == "!=" {
				a, bb := w.Resolve(x.X), w.Resolve(x.Y)
				if isNilConst(a) {
					a, bb = bb, a
				}
				if isNilConst(bb) && (w.sentinelError(a) || freshError(a)) {
					b := x.Op.String() == "!="
					return "", "", "", false, &b
				}
				// a job pointer that is known non-nil here (a defensive guard)
				if isNilConst(bb) && w.isJobPtr(a.Type()) && w.knownNonNil(a, w.condAt, 0) {
					b := x.Op.String() == "!="
					return "", "", "", false, &b
				}
			}
			// errors.Wrap(e, …) is nil exactly when e is: compare e itself (so that a re-test of a wrapped error
			// is the same literal as the test of the original)
			if x.Op.String() == "==" || x.Op.String() == "!=" {
				a, bb := w.Resolve(x.X), w.Resolve(x.Y)
				if isNilConst(a) {
					a, bb = bb, a
				}
				if isNilConst(bb) {
					inner, changed := a, false
					for i := 0; i < 6; i++ {
						c, ok := inner.(*ssa.Call)
						if !ok || len(c.Call.Args) == 0 {
							break
						}
						n := calleeName(&c.Call)
						if !(strings.HasSuffix(n, "errors.Wrap") || strings.HasSuffix(n, "errors.Wrapf") || strings.HasSuffix(n, "errors.WithStack") || strings.HasSuffix(n, "errors.WithMessage") || strings.HasSuffix(n, "errors.WithMessagef")) {
							break
						}
						inner, changed = w.Resolve(c.Call.Args[0]), true
					}
					if changed {
						if isNilConst(inner) {
							b := x.Op.String() == "=="
							return "", "", "", false, &b
						}
						if w.sentinelError(inner) || freshError(inner) {
							b := x.Op.String() == "!="
							return "", "", "", false, &b
						}
						w.condSubj = subjOf(inner)
						return x.Op.String(), w.AP(inner), "nil", false, nil
					}
					w.condSubj = subjOf(a)
				}
			}
			// two constants (e.g. an enum value returned by a spliced decision helper compared with a case label)
			if ca, ok := w.Resolve(x.X).(*ssa.Const); ok && ca.Value != nil {
				if cb, ok := w.Resolve(x.Y).(*ssa.Const); ok && cb.Value != nil && ca.Value.Kind() == cb.Value.Kind() {
					b := constant.Compare(ca.Value, x.Op, cb.Value)
					return "", "", "", false, &b
				}
			}
			return x.Op.String(), w.AP(x.X), w.AP(x.Y), false, nil
		}
	}
	return "true", w.AP(v), "", false, nil
}

// apAddr renders the access path of the memory an address value designates.
func (w *World) apAddr(addr ssa.Value) string {
	addr = w.resolveAddr(addr)
	switch a := addr.(type) {
	case *ssa.FieldAddr, *ssa.IndexAddr:
		return w.AP(a.(ssa.Value))
	case *ssa.Alloc:
		return w.allocName(a)
	case *ssa.Global:
		return globalName(a)
	}
	return "*" + w.AP(addr)
}

// naturalLoop returns the innermost natural loop that contains b: its header and its blocks
// (header included), or nil when b is in no loop.
func naturalLoop(b *ssa.BasicBlock) (*ssa.BasicBlock, map[*ssa.BasicBlock]bool) {
	var best *ssa.BasicBlock
	var bestSet map[*ssa.BasicBlock]bool
	for _, h := range b.Parent().Blocks {
		if !h.Dominates(b) {
			continue
		}
		set := map[*ssa.BasicBlock]bool{h: true}
		var work []*ssa.BasicBlock
		for _, p := range h.Preds {
			if h.Dominates(p) && !set[p] {
				set[p] = true
				work = append(work, p)
			}
		}
		if len(work) == 0 && !func() bool { // self loop
			for _, p := range h.Preds {
				if p == h {
					return true
				}
			}
			return false
		}() {
			continue
		}
		for len(work) > 0 {
			x := work[len(work)-1]
			work = work[:len(work)-1]
			for _, p := range x.Preds {
				if !set[p] {
					set[p] = true
					work = append(work, p)
				}
			}
		}
		if set[b] && (best == nil || len(set) < len(bestSet)) {
			best, bestSet = h, set
		}
	}
	return best, bestSet
}

// earlyExits lists the blocks outside the loop that are entered from a loop block other than
// the header (break, return, goto out of the body); edges into blocks that only panic are ignored.
func earlyExits(header *ssa.BasicBlock, body map[*ssa.BasicBlock]bool) []*ssa.BasicBlock {
	var out []*ssa.BasicBlock
	for _, blk := range header.Parent().Blocks {
		if !body[blk] || blk == header {
			continue
		}
		for _, s := range blk.Succs {
			if body[s] || len(s.Instrs) == 0 {
				continue
			}
			if _, isPanic := s.Instrs[len(s.Instrs)-1].(*ssa.Panic); isPanic {
				continue
			}
			out = append(out, s)
		}
		if len(blk.Succs) == 0 {
			if _, isRet := blk.Instrs[len(blk.Instrs)-1].(*ssa.Return); isRet {
				out = append(out, blk)
			}
		}
	}
	return out
}

// freshError: v is the result of a constructor that never returns nil (errors.New, fmt.Errorf,
// errors.Errorf of the error packages in use) — e.g. what a spliced validation helper returned.
func freshError(v ssa.Value) bool {
	c, ok := v.(*ssa.Call)
	if !ok {
		return false
	}
	switch calleeName(&c.Call) {
	case "errors.New", "fmt.Errorf", "github.com/friendsofgo/errors.New", "github.com/friendsofgo/errors.Errorf", "github.com/pkg/errors.New", "github.com/pkg/errors.Errorf":
		return true
	}
	return false
}

// subjOf: the instruction whose one result a nil test is about, when that result cannot differ between two
// tests on one path: a call (or a component of its result tuple) in a block that is not part of a cycle.
func subjOf(v ssa.Value) ssa.Value {
	c := v
	if e, ok := v.(*ssa.Extract); ok {
		c = e.Tuple
	}
	call, ok := c.(*ssa.Call)
	if !ok || call.Block() == nil {
		return nil
	}
	b := call.Block()
	seen := map[*ssa.BasicBlock]bool{}
	stack := append([]*ssa.BasicBlock(nil), b.Succs...)
	for len(stack) > 0 {
		n := stack[len(stack)-1]
		stack = stack[:len(stack)-1]
		if n == b {
			return nil
		}
		if seen[n] {
			continue
		}
		seen[n] = true
		stack = append(stack, n.Succs...)
	}
	return v
}

// isMutexRelease: the (rendered) callee is Unlock / RUnlock of a sync mutex.
func isMutexRelease(name string) bool {
	return strings.HasSuffix(name, "Mutex).Unlock") || strings.HasSuffix(name, "Mutex).RUnlock")
}
