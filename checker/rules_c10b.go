package main

import (
	"fmt"
	"go/token"
	"go/types"
	"strings"

	"golang.org/x/tools/go/ssa"
)

// tables.tasks-restored: the task list the load mapper rebuilds (one jobTask per persisted task) is the
// value stored into the Tasks field of the job it returns. The field tables only show that a jobTask is
// BUILT from each PersistedTask; without the store the restored job has no tasks (reported with an empty
// task list, and its task logs are never found again).
func checkTasksRestored(w *World, r *Report, loadJob *FieldMap) {
	jobT := w.NamedType("", "PipelineJob")
	taskT := w.NamedType("", "jobTask")
	if jobT == nil || taskT == nil {
		r.Undecided("tables.tasks-restored", "load mapper", "-", "types PipelineJob / jobTask not found")
		return
	}
	// host: the innermost function whose source holds the PipelineJob ← PersistedJob literal
	var host *ssa.Function
	for _, fn := range w.ModFuncs {
		if syn := fn.Syntax(); syn != nil && syn.Pos() <= loadJob.Pos && loadJob.Pos < syn.End() {
			if host == nil || host.Syntax().Pos() <= syn.Pos() {
				host = fn
			}
		}
	}
	if host == nil {
		r.Undecided("tables.tasks-restored", "load mapper "+loadJob.Func, "-", "SSA function of the literal not found")
		return
	}
	funcs := []*ssa.Function{host}
	seen := map[*ssa.Function]bool{host: true}
	w.deepCalls(host, 2, func(c *ssa.Call) {
		if g := c.Call.StaticCallee(); g != nil && g.Blocks != nil && w.InModule(g) && !seen[g] {
			seen[g] = true
			funcs = append(funcs, g)
		}
	})
	isTask := func(t types.Type) bool {
		if p, ok := t.Underlying().(*types.Pointer); ok {
			t = p.Elem()
		}
		n := namedOf(t)
		return n != nil && n.Obj() == taskT.Obj()
	}
	// the values a slice value is derived from (append chains, phis, re-slices, helper returns)
	var chain func(v ssa.Value, out map[ssa.Value]bool, d int)
	chain = func(v ssa.Value, out map[ssa.Value]bool, d int) {
		v = w.Resolve(v)
		if v == nil || out[v] || d > 12 {
			return
		}
		out[v] = true
		switch x := v.(type) {
		case *ssa.Phi:
			for _, e := range x.Edges {
				chain(e, out, d+1)
			}
		case *ssa.Slice:
			chain(x.X, out, d+1)
		case *ssa.Call:
			if b, ok := x.Call.Value.(*ssa.Builtin); ok && b.Name() == "append" {
				chain(x.Call.Args[0], out, d+1)
				return
			}
			if g := x.Call.StaticCallee(); g != nil && g.Blocks != nil && w.InModule(g) {
				allInstrs(g, func(in ssa.Instruction) {
					if rt, ok := in.(*ssa.Return); ok {
						for _, res := range rt.Results {
							if _, isSl := res.Type().Underlying().(*types.Slice); isSl {
								chain(res, out, d+1)
							}
						}
					}
				})
			}
		case *ssa.UnOp:
			// a load of a multi-store local: every value stored to it
			if x.Op == token.MUL {
				if a, ok := w.resolveAddr(x.X).(*ssa.Alloc); ok && a.Referrers() != nil {
					for _, ref := range *a.Referrers() {
						if st, ok := ref.(*ssa.Store); ok && st.Addr == ssa.Value(a) {
							chain(st.Val, out, d+1)
						}
					}
				}
			}
		}
	}
	// element writes: a jobTask stored into an element of / appended to a slice, inside a loop
	type elemWrite struct {
		in       ssa.Instruction
		base     map[ssa.Value]bool
		viaField bool // the element is written through the job's own Tasks field (job.Tasks[i] = …)
	}
	isTasksField := func(v ssa.Value) bool {
		ld, ok := v.(*ssa.UnOp)
		if !ok || ld.Op != token.MUL {
			return false
		}
		fa, ok := ld.X.(*ssa.FieldAddr)
		if !ok {
			return false
		}
		n := namedOf(fa.X.Type())
		return n != nil && n.Obj() == jobT.Obj() && fieldName(fa.X.Type(), fa.Field) == "Tasks"
	}
	var writes []elemWrite
	var stores []*ssa.Store
	for _, f := range funcs {
		allInstrs(f, func(in ssa.Instruction) {
			switch x := in.(type) {
			case *ssa.Store:
				if fa, ok := x.Addr.(*ssa.FieldAddr); ok {
					if n := namedOf(fa.X.Type()); n != nil && n.Obj() == jobT.Obj() && fieldName(fa.X.Type(), fa.Field) == "Tasks" {
						stores = append(stores, x)
					}
				}
				if ia, ok := x.Addr.(*ssa.IndexAddr); ok && isTask(x.Val.Type()) && loopHeaderOf(x.Block()) != nil {
					b := map[ssa.Value]bool{}
					chain(ia.X, b, 0)
					via := isTasksField(ia.X)
					for v := range b {
						via = via || isTasksField(v)
					}
					writes = append(writes, elemWrite{in, b, via})
				}
			case *ssa.Call:
				if b, ok := x.Call.Value.(*ssa.Builtin); ok && b.Name() == "append" && len(x.Call.Args) == 2 && loopHeaderOf(x.Block()) != nil {
					if sl, ok := x.Type().Underlying().(*types.Slice); ok && isTask(sl.Elem()) {
						writes = append(writes, elemWrite{in, map[ssa.Value]bool{ssa.Value(x): true}, false})
					}
				}
			}
		})
	}
	pos := w.Pos(host.Pos())
	if len(stores) == 0 {
		r.Viol("tables.tasks-restored", FuncName(host)+": Tasks of the restored job", pos, "the load mapper builds a jobTask from every persisted task but never stores a task list into the restored job's Tasks: after a restart every job is reported without tasks")
		return
	}
	for _, st := range stores {
		val := map[ssa.Value]bool{}
		chain(st.Val, val, 0)
		ok := false
		for _, ew := range writes {
			// job.Tasks = make(…, len(persisted)) … job.Tasks[i] = jobTask{…}
			if _, isMake := w.Resolve(st.Val).(*ssa.MakeSlice); isMake && ew.viaField {
				ok = true
			}
			for b := range ew.base {
				switch b.(type) {
				case *ssa.MakeSlice, *ssa.Call, *ssa.Alloc:
					if val[b] {
						ok = true
					}
				}
			}
		}
		r.Check(ok, "tables.tasks-restored", FuncName(st.Parent())+": Tasks of the restored job", w.InstrPos(st),
			"the slice stored into Tasks is the one the per-task loop fills with the rebuilt jobTasks",
			"the value stored into the restored job's Tasks ("+w.AP(st.Val)+") is not the slice the loop over the persisted tasks fills: after a restart jobs are reported without (or with other) tasks")
	}
}

// tables.tasks-saved: the task list written into a PersistedJob is converted from the job's tasks in this very save: every
// value it can be derived from is a slice made (or appended to, or returned fresh by a helper) during the save — never a slice
// read from a field of an object that outlives the save (a cached conversion goes stale whenever something — the load
// normalisation, a late task event — changes the tasks after it was taken).
func checkTasksSaved(w *World, r *Report) {
	pj := w.NamedType("store", "PersistedJob")
	if pj == nil {
		r.Undecided("tables.tasks-saved", "save mapper", "-", "type store.PersistedJob not found")
		return
	}
	n := 0
	for _, fn := range w.ModFuncs {
		if fn.Pkg == nil || fn.Pkg != w.Pkg("") {
			continue
		}
		allInstrs(fn, func(in ssa.Instruction) {
			st, ok := in.(*ssa.Store)
			if !ok {
				return
			}
			fa, ok := st.Addr.(*ssa.FieldAddr)
			if !ok {
				return
			}
			nt := namedOf(fa.X.Type())
			if nt == nil || nt.Obj() != pj.Obj() || fieldName(fa.X.Type(), fa.Field) != "Tasks" {
				return
			}
			n++
			stale := ""
			seen := map[ssa.Value]bool{}
			var walk func(v ssa.Value, d int)
			walk = func(v ssa.Value, d int) {
				v = w.Resolve(v)
				if v == nil || seen[v] || d > 12 || stale != "" {
					return
				}
				seen[v] = true
				switch x := v.(type) {
				case *ssa.Phi:
					for _, e := range x.Edges {
						walk(e, d+1)
					}
				case *ssa.Slice:
					walk(x.X, d+1)
				case *ssa.Call:
					if b, ok := x.Call.Value.(*ssa.Builtin); ok && b.Name() == "append" {
						walk(x.Call.Args[0], d+1)
						return
					}
					if g := x.Call.StaticCallee(); g != nil && g.Blocks != nil && w.InModule(g) {
						allInstrs(g, func(in ssa.Instruction) {
							if rt, ok := in.(*ssa.Return); ok {
								for _, res := range rt.Results {
									if _, isSl := res.Type().Underlying().(*types.Slice); isSl {
										walk(res, d+1)
									}
								}
							}
						})
					}
				case *ssa.UnOp:
					if x.Op != token.MUL {
						return
					}
					switch a := w.resolveAddr(x.X).(type) {
					case *ssa.Alloc:
						if a.Referrers() != nil {
							for _, ref := range *a.Referrers() {
								if s2, ok := ref.(*ssa.Store); ok && s2.Addr == ssa.Value(a) {
									walk(s2.Val, d+1)
								}
							}
						}
					case *ssa.FieldAddr:
						// a slice read from a field: fine only if the object is itself built in this save (a local record)
						if _, fresh := w.resolveAddr(a.X).(*ssa.Alloc); !fresh {
							stale = w.AP(x)
						}
					}
				}
			}
			walk(st.Val, 0)
			r.Check(stale == "", "tables.tasks-saved", FuncName(fn)+": Tasks of the saved job", w.InstrPos(in),
				"the task list written to the store is converted from the job's tasks during this save",
				"the task list written to the store can be "+stale+", a slice kept from an earlier conversion: whatever changed the job's tasks since then (normalisation at start-up, a late task event) never reaches the store, the next restart reports another state")
		})
	}
	if n == 0 {
		r.Undecided("tables.tasks-saved", "save mapper", "-", "no store into PersistedJob.Tasks found")
	}
}

// times.clock (C15): created ≤ start ≤ end rests on where the three job timestamps come from — the clock, read at the moment of
// the transition, or the same-named field of the stored job after a restart. A timestamp computed from anything else (task
// times, a zero value, another field) has no reason to be ordered with the other two.
func checkJobTimesFromClock(w *World, r *Report) {
	jobT := w.NamedType("", "PipelineJob")
	if jobT == nil {
		r.Undecided("times.clock", "job timestamps", "-", "type PipelineJob not found")
		return
	}
	isNow := func(v ssa.Value) bool {
		for d := 0; d < 6; d++ {
			c, ok := w.Resolve(v).(*ssa.Call)
			if !ok {
				return false
			}
			name := calleeName(&c.Call)
			if name == "time.Now" {
				return true
			}
			// a method of time.Time that keeps the instant (rounding for the API, zone changes) on a value that comes from the clock
			if strings.HasPrefix(name, "time.(Time).") && len(c.Call.Args) >= 1 {
				switch strings.TrimPrefix(name, "time.(Time).") {
				case "Round", "Truncate", "UTC", "Local", "In":
					v = c.Call.Args[0]
					continue
				}
			}
			return false
		}
		return false
	}
	fromStore := func(v ssa.Value, field string) bool {
		ap := w.AP(v)
		return strings.HasSuffix(ap, "."+field) && !strings.Contains(ap, ".Tasks")
	}
	var okVal func(v ssa.Value, field string, d int) bool
	okVal = func(v ssa.Value, field string, d int) bool {
		v = w.Resolve(v)
		if d > 4 {
			return false
		}
		if isNow(v) {
			return true
		}
		switch x := v.(type) {
		case *ssa.Alloc:
			// &local: every value stored into the local
			n, ok := 0, true
			if x.Referrers() != nil {
				for _, ref := range *x.Referrers() {
					if st, isSt := ref.(*ssa.Store); isSt && st.Addr == ssa.Value(x) {
						n++
						ok = ok && okVal(st.Val, field, d+1)
					}
				}
			}
			return ok && n > 0
		case *ssa.UnOp, *ssa.Extract, *ssa.Parameter, *ssa.Field:
			// the same-named field of another record (the stored job → the restored job; the job → its copy)
			return fromStore(v, field)
		}
		return false
	}
	n := 0
	for _, fn := range w.ModFuncs {
		if fn.Pkg == nil || fn.Pkg != w.Pkg("") {
			continue
		}
		allInstrs(fn, func(in ssa.Instruction) {
			st, ok := in.(*ssa.Store)
			if !ok {
				return
			}
			fa, ok := st.Addr.(*ssa.FieldAddr)
			if !ok {
				return
			}
			nt := namedOf(fa.X.Type())
			if nt == nil || nt.Obj() != jobT.Obj() {
				return
			}
			f := fieldName(fa.X.Type(), fa.Field)
			if f != "Created" && f != "Start" && f != "End" {
				return
			}
			if k, isConst := st.Val.(*ssa.Const); isConst && k.IsNil() {
				return // clearing a pointer is not a timestamp
			}
			n++
			r.Check(okVal(st.Val, f, 0), "times.clock", FuncName(fn)+": "+f+" of a job", w.InstrPos(in),
				f+" is the clock read at this transition, or the stored job's "+f,
				f+" is set to "+w.AP(st.Val)+", which is neither time.Now() nor the same field of the stored job: nothing orders it with the job's other timestamps (created ≤ start ≤ end)")
		})
	}
	if n < 3 {
		r.Undecided("times.clock", "job timestamps", "-", fmt.Sprintf("only %d stores to Created/Start/End of a job found", n))
	}
}
