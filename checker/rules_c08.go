package main

import (
	"fmt"
	"go/types"
	"strings"

	"golang.org/x/tools/go/ssa"
)

func init() {
	register(&PropDef{
		ID:          "C08",
		Level:       "other",
		Explanation: "Failure handling as path/effect tables: the dependency verdict (dependents of a failed or canceled stage are marked canceled and never launched; allow_failure keeps dependents ready) on all status × allow rows; STAGE RESULT — in the stage goroutine err∧¬allow sets Error, records the error as the scheduler's result and never sets Done, err∧allow sets Error then Done, ¬err sets Done; FAIL-FAST — in the task-change callback errored ∧ definition found ∧ ¬continue cancels THIS job through the internal cancel, errored ∧ continue and ¬errored never cancel; RUNNER — in execute an exit status with allow_failure continues without marking the task errored, anything else marks it errored, stores and returns the error, and every function between the stage goroutine and execute (the stage runner, Run) returns the error of the call one level down on every path on which that call did not return nil; WIRING — Stage.AllowFailure and Task.AllowFailure come from the task definition; VERDICT — the completion handler stores the scheduler's result as the job's last error and sets Canceled iff it is context.Canceled, the API's errored flag is the OR over the job's tasks, and no nil verdict leaves the scheduler on the cancel exit.",
		Trusted:     []string{"upstream runner/executor report exit statuses through executor.IsExitStatus", "C13"},
		NotDecided:  []string{"which tasks actually ran", "order of the three callback streams"},
		Check:       checkC08,
	})
}

func checkC08(w *World, r *Report) {
	ro := resolveRoles(w)
	ro.record(r)
	if ro.la == nil {
		r.Undecided("anchors", "roles", "-", "roles unresolved")
		return
	}
	depVerdict(w, r, "dep-verdict")
	launchGate(w, r, "launch-gate")
	stageResult(w, r, "stage-result")
	failFast(w, r, ro, "fail-fast")
	runnerExecute(w, r, "runner-execute")
	runnerPropagates(w, r, "runner-propagates")
	stageWiring(w, r, ro, "wiring")
	checkCanceledVerdict(w, r, ro)
	apiErrored(w, r, "api-errored")
	r.Floor("dep-verdict", 2)
	r.Floor("stage-result", 1)
	r.Floor("fail-fast", 1)
	r.Floor("runner-execute", 1)
	r.Floor("runner-propagates", 2)
	r.Floor("verdict.", 3)
}

func stageResult(w *World, r *Report, rule string) {
	s := w.FuncByName("taskctl", "(*Scheduler).Schedule")
	if s == nil {
		r.Undecided(rule, "stage goroutine", "-", "not found")
		return
	}
	st, _ := statusConsts(w)
	var cl *ssa.Function
	stageFns, _ := stageGoroutines(s)
	rsFn := runStageFn(w)
	rsName := "runStage"
	if rsFn != nil {
		rsName = rsFn.Name()
	}
	for _, a := range stageFns {
		if len(findCalls(a, func(_ string, c *ssa.CallCommon) bool { return rsFn != nil && c.StaticCallee() == rsFn })) > 0 {
			cl = a
		}
	}
	if cl == nil {
		r.Undecided(rule, "stage goroutine", "-", "no closure of Schedule runs a stage")
		return
	}
	res := w.EnumPaths(cl, EnumOpts{})
	r.Count("paths", len(res.Paths))
	bad := ""
	n := 0
	for _, p := range res.Paths {
		var failed, allow *bool
		for _, l := range p.Lits {
			if strings.Contains(l.Atom.L, rsName+"(") && l.Atom.R == "nil" {
				v := !l.Val
				failed = &v
			}
			if strings.HasSuffix(l.Atom.L, ".AllowFailure") {
				v := l.Val
				allow = &v
			}
		}
		if failed == nil {
			continue
		}
		n++
		var statuses []int64
		recorded := false
		for _, e := range p.Effects {
			if e.Kind == "call" && strings.HasSuffix(e.Target, ".UpdateStatus") {
				var v int64
				fmt.Sscan(e.Val[strings.LastIndex(e.Val, ",")+1:], &v)
				statuses = append(statuses, v)
			}
			// the result variable of the scheduling function: captured by the closure, or
			// reached through a pointer parameter of a stage method
			if e.Kind == "store" && (strings.HasPrefix(e.Target, "local:") || strings.HasPrefix(e.Target, "*arg")) && strings.Contains(e.Val, rsName+"(") {
				recorded = true
			}
			// … or handed to a callback parameter whose closure (built at the go statement) stores it
			if e.Kind == "call" && strings.HasPrefix(e.Target, "dyn:") && strings.Contains(e.Val, rsName+"(") {
				if c := callCommonOf(e.In); c != nil {
					if prm, ok := w.Resolve(c.Value).(*ssa.Parameter); ok && prm.Parent() == cl {
						idx := paramIdxOf(prm)
						_, gos := stageGoroutines(s)
						for _, g := range gos {
							if g.Call.StaticCallee() != cl || idx >= len(g.Call.Args) {
								continue
							}
							if cb := funcValue(w.Resolve(g.Call.Args[idx])); cb != nil && len(cb.Params) > 0 {
								allInstrs(cb, func(in ssa.Instruction) {
									if st, ok := in.(*ssa.Store); ok && w.Resolve(st.Val) == ssa.Value(cb.Params[0]) {
										if _, isFV := st.Addr.(*ssa.FreeVar); isFV {
											recorded = true
										}
									}
								})
							}
						}
					}
				}
			}
		}
		has := func(v int64) bool {
			for _, s := range statuses {
				if s == v {
					return true
				}
			}
			return false
		}
		switch {
		case !*failed:
			if !has(st["Done"]) || has(st["Error"]) || recorded {
				bad = "a successful stage is not (only) set Done"
			}
		case allow != nil && *allow:
			if !has(st["Error"]) || !has(st["Done"]) || recorded {
				bad = fmt.Sprintf("failed stage with allow_failure: statuses %v, error recorded=%v (expected Error then Done, not recorded)", statuses, recorded)
			}
		default:
			if !has(st["Error"]) || has(st["Done"]) || !recorded {
				bad = fmt.Sprintf("failed stage without allow_failure: statuses %v, error recorded as result=%v (expected Error, never Done, error recorded)", statuses, recorded)
			}
		}
	}
	r.Check(bad == "" && n >= 3, rule, FuncName(cl)+": stage outcome", w.Pos(cl.Pos()), "err∧¬allow → Error + result recorded, never Done; err∧allow → Error then Done; ¬err → Done", "the stage outcome table is violated: "+bad)
}

func failFast(w *World, r *Report, ro *Roles, rule string) {
	fn := ro.TaskChange
	if fn == nil || ro.CancelInt == nil {
		r.Undecided(rule, "task-change callback", "-", "not resolved")
		return
	}
	res := w.EnumPaths(fn, EnumOpts{Inline: true, Opaque: w.statelessCallee})
	r.Count("paths", len(res.Paths))
	bad := ""
	nCancel := 0
	for _, p := range res.Paths {
		var errored, found, cont *bool
		for _, l := range p.Lits {
			switch {
			case l.Atom.Op == "true" && strings.HasSuffix(l.Atom.L, ".Errored") && strings.Contains(l.Atom.L, "ByName("):
				v := l.Val
				errored = &v
			case l.Atom.Op == "true" && strings.HasPrefix(l.Atom.L, "has(recv.defs.Pipelines["):
				v := l.Val
				found = &v
			case l.Atom.Op == "true" && strings.HasSuffix(l.Atom.L, ".ContinueRunningTasksAfterFailure"):
				v := l.Val
				cont = &v
			}
		}
		cancels := ""
		for _, e := range p.Effects {
			if e.Kind == "call" && e.Callee == ro.CancelInt {
				cancels = e.Val
				// the id (or the job looked up by it) seen through a helper that extracts it from the task's variables
				if cc := callCommonOf(e.In); cc != nil && len(cc.Args) > 0 {
					a := w.Resolve(cc.Args[len(cc.Args)-1])
					if ex, ok := a.(*ssa.Extract); ok {
						if lk, ok := w.Resolve(ex.Tuple).(*ssa.Lookup); ok {
							a = w.Resolve(lk.Index)
						}
					} else if lk, ok := a.(*ssa.Lookup); ok {
						a = w.Resolve(lk.Index)
					}
					if deep := w.APThrough(a); deep != w.AP(a) {
						cancels += " = " + deep
					}
				}
			}
		}
		want := errored != nil && *errored && found != nil && *found && cont != nil && !*cont
		if want != (cancels != "") {
			bad = fmt.Sprintf("errored=%v definition-found=%v continue=%v → cancel=%v (path %s)", errored != nil && *errored, found != nil && *found, cont != nil && *cont, cancels != "", p.LitString())
		}
		if cancels != "" {
			nCancel++
			// the canceled job is the one the task belongs to
			if !strings.Contains(cancels, "uuid.FromString(") || !strings.Contains(cancels, "arg0.Variables.Get(") {
				bad = "the fail-fast cancel addresses " + cancels + ", not the job id carried by the failed task"
			}
		}
	}
	r.Check(bad == "" && nCancel > 0, rule, FuncName(fn)+": fail-fast table", w.Pos(fn.Pos()), "the job of the failed task is canceled exactly when the task errored, the definition exists and continue_running_tasks_after_failure is false", "fail-fast table violated: "+bad)
	// Errored is taken from the task unless the task was canceled through the context
	okE := false
	for _, p := range res.Paths {
		for _, e := range p.Effects {
			if e.Kind == "store" && strings.HasSuffix(e.Target, ".Errored") && e.Val == "arg0.Errored" {
				okE = true
			}
		}
	}
	r.Check(okE, rule+".errored-from-task", FuncName(fn)+": jobTask.Errored ← task.Errored", w.Pos(fn.Pos()), "the reported errored flag is the task's own", "the job task's Errored flag is not taken from the task")
}

func runnerExecute(w *World, r *Report, rule string) {
	fn := w.FuncByRole("taskctl", "(*TaskRunner).execute", func(f *ssa.Function) bool {
		return recvIs(f, "TaskRunner") && callsNamed(f, "PgidExecutor).Execute") && w.storesField(f, "Task", "Errored")
	})
	if fn == nil {
		r.Undecided(rule, "taskctl.TaskRunner.execute", "-", "not found")
		return
	}
	// the body of the command loop
	var body *ssa.BasicBlock
	for _, b := range fn.Blocks {
		for _, in := range b.Instrs {
			if c, ok := in.(*ssa.Call); ok && strings.HasSuffix(calleeName(&c.Call), "PgidExecutor).Execute") {
				body = b
			}
		}
	}
	if body == nil {
		r.Undecided(rule, FuncName(fn), w.Pos(fn.Pos()), "command loop not recognised")
		return
	}
	res := w.EnumPaths(fn, EnumOpts{Inline: true, Start: body})
	r.Count("paths", len(res.Paths))
	bad := ""
	n := 0
	for _, p := range res.Paths {
		var failed, exit, allow *bool
		for _, l := range p.Lits {
			switch {
			case strings.Contains(l.Atom.L, ".Execute(") && strings.HasSuffix(l.Atom.L, "#1") && l.Atom.R == "nil":
				v := !l.Val
				failed = &v
			case strings.Contains(l.Atom.L, "IsExitStatus(") && strings.HasSuffix(l.Atom.L, "#1"):
				v := l.Val
				exit = &v
			case strings.HasSuffix(l.Atom.L, "arg1.AllowFailure"):
				v := l.Val
				allow = &v
			}
		}
		if failed == nil || !*failed {
			continue
		}
		n++
		erroredSet, returned := false, p.End == "return" && len(p.Ret) == 1 && p.Ret[0] != "nil"
		for _, e := range p.Effects {
			if e.Kind == "store" && e.Target == "arg1.Errored" && e.Val == "true" {
				erroredSet = true
			}
		}
		tolerated := exit != nil && *exit && allow != nil && *allow
		if tolerated && (erroredSet || returned) {
			bad = "an exit status of an allow_failure task marks the task errored or aborts it"
		}
		if !tolerated && (!erroredSet || !returned) {
			bad = fmt.Sprintf("a failing command (exit status=%v allow_failure=%v) does not mark the task errored (%v) and return the error (%v)", exit != nil && *exit, allow != nil && *allow, erroredSet, returned)
		}
	}
	r.Check(bad == "" && n >= 2, rule, FuncName(fn)+": command failure table", w.Pos(fn.Pos()), "exit status ∧ allow_failure → continue, not errored; otherwise Errored := true and the error is returned", "runner failure table violated: "+bad)
}

func apiErrored(w *World, r *Report, rule string) {
	fn := w.FuncByRole("server", "jobToResult", func(f *ssa.Function) bool { return sigHas(f, []string{"PipelineJob"}, []string{"pipelineJobResult"}) })
	if fn == nil {
		r.Undecided(rule, "server.jobToResult", "-", "not found")
		return
	}
	// the value stored to pipelineJobResult.Errored is a phi over {false, true, task.Errored}
	ok := false
	allInstrs(fn, func(in ssa.Instruction) {
		st, isSt := in.(*ssa.Store)
		if !isSt {
			return
		}
		fa, isFA := w.resolveAddr(st.Addr).(*ssa.FieldAddr)
		if !isFA || fieldOfAddr(fa).String() != "pipelineJobResult.Errored" {
			return
		}
		seen := map[ssa.Value]bool{}
		var hasFalse, hasTaskErrored, hasTrue bool
		var visit func(v ssa.Value)
		visit = func(v ssa.Value) {
			if seen[v] {
				return
			}
			seen[v] = true
			switch x := v.(type) {
			case *ssa.Phi:
				for _, e := range x.Edges {
					visit(e)
				}
			case *ssa.Const:
				if isBoolConst(x, false) {
					hasFalse = true
				}
				if isBoolConst(x, true) {
					hasTrue = true // the short-circuit edge of `errored || …`: once true it stays true
				}
			case *ssa.Field:
				if fieldNameV(x.X.Type(), x.Field) == "Errored" {
					hasTaskErrored = true
				}
			case *ssa.BinOp:
				visit(x.X)
				visit(x.Y)
			case *ssa.UnOp:
				if fa2, ok := w.resolveAddr(x.X).(*ssa.FieldAddr); ok && fieldName(fa2.X.Type(), fa2.Field) == "Errored" {
					hasTaskErrored = true
				}
			}
		}
		visit(st.Val)
		ok = hasFalse && hasTaskErrored && hasTrue
	})
	r.Check(ok, rule, FuncName(fn)+": errored = OR over the job's tasks", w.Pos(fn.Pos()), "the job's errored flag starts false and accumulates each task's Errored", "the API's errored flag is not the OR over the tasks' Errored flags")
}

// runnerPropagates: the error of a failing command reaches the scheduler's stage goroutine — every function
// between the stage goroutine and the command loop (the stage runner, TaskRunner.Run) returns the error of
// the call one level down on every path on which that call was made and did not return nil. Otherwise a
// failed task counts as done: its dependents run and the job is reported successful.
func runnerPropagates(w *World, r *Report, rule string) {
	exec := w.FuncByRole("taskctl", "(*TaskRunner).execute", func(f *ssa.Function) bool {
		return recvIs(f, "TaskRunner") && callsNamed(f, "PgidExecutor).Execute") && w.storesField(f, "Task", "Errored")
	})
	if exec == nil {
		r.Undecided(rule, "taskctl.TaskRunner.execute", "-", "not found")
		return
	}
	pkg := exec.Package()
	callersOf := func(g *ssa.Function) (out []*ssa.Function, calls map[*ssa.Function][]*ssa.Call) {
		calls = map[*ssa.Function][]*ssa.Call{}
		for _, f := range w.ModFuncs {
			if f.Package() != pkg || f.Synthetic != "" || f == g {
				continue
			}
			allInstrs(f, func(in ssa.Instruction) {
				c, ok := in.(*ssa.Call)
				if !ok {
					return
				}
				hit := c.Call.StaticCallee() == g
				if c.Call.IsInvoke() && g.Signature.Recv() != nil && c.Call.Method.Name() == g.Name() {
					if types.Implements(g.Signature.Recv().Type(), c.Call.Value.Type().Underlying().(*types.Interface)) {
						hit = true
					}
				}
				if hit {
					if len(calls[f]) == 0 {
						out = append(out, f)
					}
					calls[f] = append(calls[f], c)
				}
			})
		}
		return
	}
	level := []*ssa.Function{exec}
	n := 0
	for depth := 0; depth < 2; depth++ {
		var next []*ssa.Function
		for _, g := range level {
			fs, calls := callersOf(g)
			for _, f := range fs {
				if f.Signature.Results().Len() != 1 || f.Signature.Results().At(0).Type().String() != "error" {
					continue // the stage goroutine itself (judged by the stage outcome table)
				}
				next = append(next, f)
				res := w.EnumPaths(f, EnumOpts{MaxPaths: 20000})
				if res.Truncated {
					r.Undecided(rule, FuncName(f)+": error of "+g.Name(), w.Pos(f.Pos()), "path cap exceeded")
					continue
				}
				bad := ""
				seen := 0
				for _, p := range res.Paths {
					if p.End != "return" || len(p.Ret) != 1 {
						continue
					}
					for _, e := range p.Effects {
						c, isCall := e.In.(*ssa.Call)
						if e.Kind != "call" || !isCall {
							continue
						}
						mine := false
						for _, cc := range calls[f] {
							mine = mine || cc == c
						}
						if !mine {
							continue
						}
						ap := e.Target + "(" + e.Val + ")"
						okNil := false
						for _, l := range p.Lits {
							if l.Atom.Op == "==" && l.Atom.L == ap && l.Atom.R == "nil" && l.Val {
								okNil = true
							}
						}
						if okNil {
							continue
						}
						seen++
						ret := p.Ret[0]
						fresh := strings.Contains(ret, "errors.New(") || strings.Contains(ret, "errors.Errorf(") || strings.HasPrefix(ret, "fmt.Errorf(")
						if unwrapErrAP(ret) != ap && !strings.Contains(ret, ap) && !fresh {
							bad = fmt.Sprintf("on a path where %s did not return nil, %s returns %s (%s)", g.Name(), f.Name(), p.Ret[0], p.LitString())
						}
					}
				}
				n++
				r.Check(bad == "" && seen > 0, rule, FuncName(f)+": error of "+g.Name()+" is returned", w.Pos(f.Pos()),
					"every path on which "+g.Name()+" was called and did not return nil returns that error",
					"the error of a failed command does not reach the scheduler: "+bad+" — the failed task's stage counts as done, its dependents run and the job is reported successful")
			}
		}
		level = next
	}
	if n == 0 {
		r.Undecided(rule, "taskctl: callers of the command loop", "-", "no error-returning caller of "+FuncName(exec)+" found")
	}
}
