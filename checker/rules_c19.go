package main

import (
	"fmt"
	"regexp"
	"strings"

	"golang.org/x/tools/go/ssa"
)

func init() {
	register(&PropDef{
		ID:          "C19",
		Level:       "other",
		Explanation: "Byte-level completeness is trusted to the OS and libraries; decided is the wiring of the two streams and the key of the log files: LABELS — the writer opened with \"stdout\" reaches (by def-use flow through locals, append, io.MultiWriter) exactly the stdout position of CompileTask and not the stderr position, and vice versa; in the loaded upstream source CompileTask hands its stdout/stderr parameters to the same positions of CompileCommand, which stores them into Job.Stdout/Job.Stderr; every NewPgidExecutor call receives (job.Stdin, job.Stdout, job.Stderr); inside it the stdout/stderr parameters reach the out/err positions of interp.StdIO; the exec handler builds exec.Cmd{Stdout: hc.Stdout, Stderr: hc.Stderr}; the log handler puts the \"stdout\" reader's bytes into the stdout field and the \"stderr\" reader's into stderr; KEY — writer and reader build the path with one function that uses all of (job id, task name, stream); the writer is opened once per task run (not in a loop) with the task's own job-id variable and name; IDENTITY — the job-id variable the writers are keyed by is set from the job's own id and every Set of a job-supplied name lies behind the reserved-name test; CLOSED AT END — every Close a log writer reaches is a deferred call of Run (or lies in the opening helper, before any command runs): no command's output is written to a closed file; OWNERSHIP — neither Writer, its module callees nor the methods of the type it returns touch a package-level variable (no pooled or shared buffer between log files); MEMBERSHIP — every Reader call of the log handler is dominated by the task-exists edge, which is set only under ReadJob when the job has a task of that name. OPEN RESULT — Writer and Reader of the file store return the opened file exactly behind the err == nil edge of the open call and a non-nil error otherwise. STAGE VARIABLES WIN — the stage's variables are the argument of the Merge that builds Task.Variables, so a task env entry named like the job-identity variable cannot redirect the log writers to another job.",
		Trusted:     []string{"os.File writes are complete and ordered per descriptor", "mvdan/sh passes StdIO to every command of a script", "upstream executor.Job fields are what the executor reads"},
		NotDecided:  []string{"completeness/order of bytes", "concurrent writers of different jobs (distinct files by the key rule)"},
		Check:       checkC19,
	})
}

func checkC19(w *World, r *Report) {
	run := w.FuncByName("taskctl", "(*TaskRunner).Run")
	if run == nil {
		r.Undecided("anchors", "taskctl.TaskRunner.Run", "-", "not found")
		return
	}
	// ---- a. writers → CompileTask positions
	var compile ssa.CallInstruction
	var compileFn *ssa.Function
	for _, ci := range findCalls(run, func(n string, _ *ssa.CallCommon) bool { return strings.HasSuffix(n, "TaskCompiler).CompileTask") }) {
		compile = ci
		compileFn = ci.Common().StaticCallee()
	}
	isWriter := func(n string, c *ssa.CallCommon) bool { return c.IsInvoke() && c.Method.Name() == "Writer" }
	// an opened writer: the value the flow starts from, its stream label and key arguments (rendered
	// in Run's terms), the instruction that stands for "opened here" in Run
	type opened struct {
		src            ssa.Value
		at             ssa.Instruction // in Run
		call           *ssa.Call       // the Writer call itself
		stream         string
		jobArg, taskAr string
	}
	var opens []opened
	for _, wc := range findCalls(run, isWriter) {
		if call, ok := wc.(*ssa.Call); ok {
			opens = append(opens, opened{call, call, call, strings.Trim(w.AP(call.Call.Args[2]), "\""), w.AP(call.Call.Args[0]), w.AP(call.Call.Args[1])})
		}
	}
	// the writers may be opened in a helper or a local closure that Run calls: their arguments are
	// read with the helper's parameters bound to the call's arguments; when the stream label is such a
	// parameter, each call of the helper is one opened writer and the flow starts at the call's result
	allInstrs(run, func(in ssa.Instruction) {
		c, ok := in.(*ssa.Call)
		if !ok {
			return
		}
		g := c.Call.StaticCallee()
		if g == nil || g.Blocks == nil || !w.InModule(g) {
			return
		}
		inner := findCalls(g, isWriter)
		if len(inner) == 0 {
			return
		}
		penv := map[*ssa.Parameter]ssa.Value{}
		for i, p := range g.Params {
			if i < len(c.Call.Args) {
				penv[p] = w.Resolve(c.Call.Args[i])
			}
		}
		saved := w.paramEnv
		w.paramEnv = penv
		for _, wc := range inner {
			call, ok := wc.(*ssa.Call)
			if !ok {
				continue
			}
			o := opened{src: call, at: c, call: call, stream: strings.Trim(w.AP(call.Call.Args[2]), "\""), jobArg: w.AP(call.Call.Args[0]), taskAr: w.AP(call.Call.Args[1])}
			if _, isConst := call.Call.Args[2].(*ssa.Const); !isConst {
				// labelled by the helper's parameter: this call of the helper opens that stream
				o.src = c
			}
			opens = append(opens, o)
		}
		w.paramEnv = saved
	})
	if compile == nil || compileFn == nil || len(opens) == 0 {
		r.Viol("labels.run", FuncName(run)+": writers and CompileTask", w.Pos(run.Pos()), fmt.Sprintf("Run has %d output-store writers and CompileTask call=%v: task output is not captured", len(opens), compile != nil))
	} else {
		oi, ei := paramIndex(compileFn, "stdout"), paramIndex(compileFn, "stderr")
		cname := calleeName(compile.Common())
		seenStreams := map[string]bool{}
		for _, o := range opens {
			stream := o.stream
			seenStreams[stream] = true
			sinks := sinkSet(w.flowSinks(o.src))
			want, other := fmt.Sprintf("%s#%d", cname, oi), fmt.Sprintf("%s#%d", cname, ei)
			if stream == "stderr" {
				want, other = other, want
			}
			okL := sinks[want] && !sinks[other] && (stream == "stdout" || stream == "stderr")
			r.Check(okL, "labels.run", FuncName(run)+": writer \""+stream+"\" → CompileTask", w.InstrPos(o.at), "reaches the "+stream+" position of CompileTask and not the other stream's", fmt.Sprintf("the writer opened for %q reaches {%s}: expected the %s position of CompileTask only — the two streams are swapped or mixed", stream, sinkList(sinks), stream))
			// the writer is closed only when the run is over: every Close it reaches is a deferred call of Run,
			// or sits in a function that is reached only through deferred calls of Run
			nClose, okClose, badClose := 0, true, ""
			var closeSites func(src ssa.Value, d int)
			closeSites = func(src ssa.Value, d int) {
				for _, sk := range w.flowSinks(src) {
					if sk.Kind == "recv" && sk.Name == "invoke:Close" {
						nClose++
						if !deferredInRun(w, run, o.call.Parent(), sk.Pos, 0) {
							okClose = false
							badClose = w.InstrPos(sk.Pos)
						}
					}
					// handed to a helper of the module (a close-and-log-the-error helper): the closes of that parameter
					if sk.Kind == "arg" && d < 2 {
						if ci, isCall := sk.Pos.(ssa.CallInstruction); isCall {
							if g := ci.Common().StaticCallee(); g != nil && g.Blocks != nil && w.InModule(g) && sk.Idx < len(g.Params) {
								closeSites(g.Params[sk.Idx], d+1)
							}
						}
					}
				}
			}
			closeSites(o.src, 0)
			r.Check(okClose && nClose > 0, "key.writer-closed-at-end", FuncName(run)+": writer \""+stream+"\" closed when the run is over", w.InstrPos(o.at), "closed only by deferred calls of Run (or by the opening helper itself, before any command runs)", fmt.Sprintf("the log writer is closed at %s, which is not (only) a deferred call of Run (%d close sites): output of the commands that follow is lost", badClose, nClose))
			// key arguments and once per run
			okK := strings.Contains(o.jobArg, "arg0.Variables.Get(\"__jobID\")") && o.taskAr == "arg0.Name"
			r.Check(okK, "key.writer-args", FuncName(run)+": writer \""+stream+"\" key", w.InstrPos(o.at), "opened for (the task's own job-id variable, the task's name, \""+stream+"\")", "the log writer is opened for ("+o.jobArg+", "+o.taskAr+"): output is attributed to another job or task")
			inLoop := PathQuery{Fn: o.call.Parent(), Start: []ssa.Instruction{o.call}, Target: func(x ssa.Instruction) bool { return x == ssa.Instruction(o.call) }}.Find().Found
			if o.at != ssa.Instruction(o.call) {
				inLoop = inLoop || PathQuery{Fn: run, Start: []ssa.Instruction{o.at}, Target: func(x ssa.Instruction) bool { return x == o.at }}.Find().Found
			}
			r.Check(!inLoop, "key.writer-once", FuncName(run)+": writer \""+stream+"\" opened once per run", w.InstrPos(o.at), "not in a loop: one file per task run and stream, shared by all commands of the task", "the log file is (re)created in a loop: output of earlier commands of the task is truncated")
		}
		r.Check(seenStreams["stdout"] && seenStreams["stderr"], "labels.both-streams", FuncName(run)+": both streams captured", w.Pos(run.Pos()), "writers for \"stdout\" and \"stderr\"", "not both streams are captured")
	}
	// ---- b. upstream CompileTask → CompileCommand → Job fields
	if compileFn != nil && compileFn.Blocks != nil {
		var cc *ssa.Function
		for _, ci := range findCalls(compileFn, func(n string, _ *ssa.CallCommon) bool { return strings.HasSuffix(n, "TaskCompiler).CompileCommand") }) {
			cc = ci.Common().StaticCallee()
		}
		if cc == nil {
			r.Undecided("labels.upstream", "upstream CompileTask → CompileCommand", "-", "shape not recognised")
		} else {
			for _, s := range []string{"stdout", "stderr"} {
				pi := paramIndex(compileFn, s)
				sinks := sinkSet(w.flowSinks(compileFn.Params[pi]))
				want := fmt.Sprintf("%s#%d", qualifiedName(cc), paramIndex(cc, s))
				other := fmt.Sprintf("%s#%d", qualifiedName(cc), paramIndex(cc, map[string]string{"stdout": "stderr", "stderr": "stdout"}[s]))
				r.Check(sinks[want] && !sinks[other], "labels.upstream", "upstream CompileTask: "+s+" → CompileCommand", w.Pos(compileFn.Pos()), "same position", "upstream CompileTask does not hand "+s+" to the "+s+" position of CompileCommand")
				fs := sinkSet(w.flowSinks(cc.Params[paramIndex(cc, s)]))
				field := "field:Job." + strings.ToUpper(s[:1]) + s[1:]
				otherF := "field:Job." + map[string]string{"stdout": "Stderr", "stderr": "Stdout"}[s]
				r.Check(fs[field] && !fs[otherF], "labels.upstream", "upstream CompileCommand: "+s+" → "+field, w.Pos(cc.Pos()), "stored into the matching Job field", "upstream CompileCommand does not store "+s+" into "+field)
			}
		}
	}
	// ---- c. every NewPgidExecutor call gets (job.Stdin, job.Stdout, job.Stderr)
	// (the executor constructor is the function of package taskctl that configures interp.StdIO;
	// wrappers that forward their own parameters are looked through)
	np := w.FuncByRole("taskctl", "NewPgidExecutor", func(f *ssa.Function) bool { return f.Parent() == nil && callsNamed(f, "interp.StdIO") })
	if np != nil {
		si, so, se := paramIndex(np, "stdin"), paramIndex(np, "stdout"), paramIndex(np, "stderr")
		if si >= 0 && so >= 0 && se >= 0 {
			type trio struct{ in, out, err string }
			sites := map[ssa.CallInstruction]*trio{}
			var order []ssa.CallInstruction
			fnOf := map[ssa.CallInstruction]*ssa.Function{}
			put := func(idx int, set func(t *trio, v string)) {
				for _, l := range w.argOrigins(np, idx, 0) {
					if sites[l.in] == nil {
						sites[l.in] = &trio{}
						order = append(order, l.in)
						fnOf[l.in] = l.fn
					}
					set(sites[l.in], w.AP(l.v))
				}
			}
			put(si, func(t *trio, v string) { t.in = v })
			put(so, func(t *trio, v string) { t.out = v })
			put(se, func(t *trio, v string) { t.err = v })
			for _, ci := range order {
				t := sites[ci]
				got := []string{t.in, t.out, t.err}
				okE := strings.HasSuffix(got[0], ".Stdin") && strings.HasSuffix(got[1], ".Stdout") && strings.HasSuffix(got[2], ".Stderr") &&
					strings.TrimSuffix(got[0], ".Stdin") == strings.TrimSuffix(got[1], ".Stdout") && strings.TrimSuffix(got[1], ".Stdout") == strings.TrimSuffix(got[2], ".Stderr")
				r.Check(okE, "labels.executor-args", FuncName(fnOf[ci])+": NewPgidExecutor(stdin, stdout, stderr)", w.InstrPos(ci), "receives the compiled job's Stdin, Stdout, Stderr in this order", "the executor is built with ("+strings.Join(got, ", ")+"): streams are swapped or taken from different jobs")
			}
		}
		// ---- d. inside: params → interp.StdIO positions
		for _, ci := range findCalls(np, func(n string, _ *ssa.CallCommon) bool { return strings.HasSuffix(n, "interp.StdIO") }) {
			for i, s := range []string{"stdin", "stdout", "stderr"} {
				pi := paramIndex(np, s)
				if pi < 0 {
					r.Viol("labels.stdio", FuncName(np)+": parameter "+s, w.Pos(np.Pos()), "no such parameter")
					continue
				}
				sinks := sinkSet(w.flowSinks(np.Params[pi]))
				want := fmt.Sprintf("mvdan.cc/sh/v3/interp.StdIO#%d", i)
				bad := ""
				for j := 0; j < 3; j++ {
					if j != i && sinks[fmt.Sprintf("mvdan.cc/sh/v3/interp.StdIO#%d", j)] {
						bad = fmt.Sprintf("also reaches position %d", j)
					}
				}
				r.Check(sinks[want] && bad == "", "labels.stdio", FuncName(np)+": "+s+" → interp.StdIO position "+fmt.Sprint(i), w.InstrPos(ci), "reaches its own position only", "parameter "+s+" does not reach (only) position "+fmt.Sprint(i)+" of interp.StdIO "+bad)
			}
		}
	}
	// ---- e. exec handler cmd literal
	for _, fn := range w.ModFuncs {
		if fn.Parent() == nil || fn.Parent().Name() != "createExecHandler" || fn.Parent().Parent() != nil {
			continue
		}
		pr := w.EnumPaths(fn, EnumOpts{})
		got := map[string]string{}
		for _, p := range pr.Paths {
			for _, e := range p.Effects {
				for _, f := range []string{"Stdin", "Stdout", "Stderr"} {
					if e.Kind == "store" && e.Target == "local:cmd."+f {
						got[f] = e.Val
					}
				}
			}
		}
		if len(got) == 0 {
			continue // the windows variant delegates to the interpreter's default handler
		}
		for _, f := range []string{"Stdin", "Stdout", "Stderr"} {
			r.Check(strings.HasSuffix(got[f], "HandlerCtx(c1.arg0)."+f), "labels.cmd", FuncName(fn)+": exec.Cmd."+f, w.Pos(fn.Pos()), "← the handler context's "+f, "exec.Cmd."+f+" is "+nameOr(got[f], "unset")+", not the handler context's "+f+": the command's output goes to the wrong stream or nowhere")
		}
	}
	// ---- f. log handler: readers → response fields; membership
	isReader := func(n string, c *ssa.CallCommon) bool { return c.IsInvoke() && c.Method.Name() == "Reader" }
	// the log handler: the HTTP handler of package server that opens log readers, itself or through a
	// helper it calls with the stream label
	isHTTPHandler := func(f *ssa.Function) bool {
		ps := f.Signature.Params()
		return ps.Len() == 2 && strings.HasSuffix(ps.At(0).Type().String(), "http.ResponseWriter") && strings.HasSuffix(ps.At(1).Type().String(), "http.Request")
	}
	readsLogs := func(f *ssa.Function) bool {
		if len(findCalls(f, isReader)) > 0 {
			return true
		}
		found := false
		allInstrs(f, func(in ssa.Instruction) {
			if c := callCommonOf(in); c != nil {
				if g := c.StaticCallee(); g != nil && g.Blocks != nil && w.InModule(g) && g != f && len(findCalls(g, isReader)) > 0 {
					found = true
				}
			}
		})
		return found
	}
	if h := w.FuncByRole("server", "(*server).jobLogs", func(f *ssa.Function) bool {
		return isHTTPHandler(f) && readsLogs(f)
	}); h != nil {
		hname := FuncName(h)
		type openedReader struct {
			src             ssa.Value
			at              ssa.Instruction
			stream          string
			jobArg, taskArg string
		}
		var readers []openedReader
		for _, rc := range findCalls(h, isReader) {
			if call, ok := rc.(*ssa.Call); ok {
				readers = append(readers, openedReader{call, call, strings.Trim(w.AP(call.Call.Args[2]), "\""), w.AP(call.Call.Args[0]), w.AP(call.Call.Args[1])})
			}
		}
		allInstrs(h, func(in ssa.Instruction) {
			c, ok := in.(*ssa.Call)
			if !ok {
				return
			}
			g := c.Call.StaticCallee()
			if g == nil || g.Blocks == nil || !w.InModule(g) || g == h {
				return
			}
			inner := findCalls(g, isReader)
			if len(inner) == 0 {
				return
			}
			penv := map[*ssa.Parameter]ssa.Value{}
			for i, p := range g.Params {
				if i < len(c.Call.Args) {
					penv[p] = w.Resolve(c.Call.Args[i])
				}
			}
			saved := w.paramEnv
			w.paramEnv = penv
			for _, rc := range inner {
				if call, ok := rc.(*ssa.Call); ok {
					o := openedReader{src: call, at: c, stream: strings.Trim(w.AP(call.Call.Args[2]), "\""), jobArg: w.AP(call.Call.Args[0]), taskArg: w.AP(call.Call.Args[1])}
					if _, isConst := call.Call.Args[2].(*ssa.Const); !isConst {
						o.src = c // labelled by the helper's parameter: the helper's result carries that stream's bytes
					}
					readers = append(readers, o)
				}
			}
			w.paramEnv = saved
		})
		var existsIf *ifFact
		// flagFn/flagAP: the function that holds the flag cell and the ReadJob call, and the cell's access
		// path there; flagCall: the call of that function in the handler when it is a helper
		flagFn, flagAP := h, ""
		var flagCall *ssa.Call
		facts := w.ifFacts(h)
		for i, f := range facts {
			if f.Atom.Op != "true" || !blockReturns(f.If.Block().Succs[f.SuccFalse], func(*ssa.Return) bool { return true }) {
				continue
			}
			if strings.HasPrefix(f.Atom.L, "local:") {
				// candidate: a captured bool set by the ReadJob callback
				existsIf = &facts[i]
				flagFn, flagAP, flagCall = h, f.Atom.L, nil
				continue
			}
			// … or the bool result of a helper that does the ReadJob and returns the flag
			cond := w.Resolve(f.If.Cond)
			if ex, ok := cond.(*ssa.Extract); ok && ex.Index == 0 {
				if c, ok := ex.Tuple.(*ssa.Call); ok {
					g := c.Call.StaticCallee()
					if g != nil && g.Blocks != nil && w.InModule(g) && len(findCalls(g, func(n string, _ *ssa.CallCommon) bool { return strings.HasSuffix(n, "PipelineRunner).ReadJob") })) == 1 {
						var cell string
						nret := 0
						allInstrs(g, func(in ssa.Instruction) {
							if rt, ok := in.(*ssa.Return); ok && len(rt.Results) >= 1 && rt.Block() != g.Recover {
								nret++
								if ld, ok := rt.Results[0].(*ssa.UnOp); ok {
									cell = w.apAddr(ld.X)
								}
							}
						})
						if nret == 1 && strings.HasPrefix(cell, "local:") {
							existsIf = &facts[i]
							flagFn, flagAP, flagCall = g, cell, c
						}
					}
				}
			}
		}
		for _, rd := range readers {
			stream := rd.stream
			if stream == "" {
				stream = "?"
			}
			sinks := sinkSet(w.flowSinks(rd.src))
			var fields []string
			for k := range sinks {
				if strings.HasPrefix(k, "field:") {
					fields = append(fields, k)
				}
			}
			wantSuffix := "." + strings.ToUpper(stream[:1]) + stream[1:]
			okF := len(fields) == 1 && strings.HasSuffix(fields[0], wantSuffix)
			r.Check(okF, "labels.api", hname+": reader \""+stream+"\" → response field", w.InstrPos(rd.at), "its bytes are returned in the "+stream+" field only", "the bytes read from the \""+stream+"\" log are returned in "+strings.Join(fields, ", ")+": streams are swapped or mixed in the API")
			// membership: dominated by the task-exists edge
			okM := false
			if existsIf != nil {
				res := PathQuery{Fn: h, Target: func(x ssa.Instruction) bool { return x == rd.at }, BlockEdge: func(b *ssa.BasicBlock, s int) bool { return b == existsIf.If.Block() && s == existsIf.SuccTrue }}.Find()
				okM = !res.Found
			}
			r.Check(okM, "membership.dominates", hname+": reader \""+stream+"\" behind the task-exists test", w.InstrPos(rd.at), "reachable only over the task-exists edge", "the log reader is reachable without the task-membership test: logs of a task the job does not have (or of another job's path) can be requested")
			// key: job id and task name of the request
			jobArg, taskArg := rd.jobArg, rd.taskArg
			r.Check(strings.Contains(jobArg, "uuid.FromString(local:params.Id)#0") && taskArg == "local:params.Task", "key.reader-args", hname+": reader \""+stream+"\" key", w.InstrPos(rd.at), "read for (the requested job id, the requested task name)", "the log reader is opened for ("+jobArg+", "+taskArg+")")
		}
		// the flag is set only when the job has the task (under ReadJob)
		okSet := false
		if existsIf != nil {
			// the requested task / job id as the flag function sees them: its own locals, or the helper's
			// parameters that the handler binds to them
			taskAP, idAP := "local:params.Task", "uuid.FromString(local:params.Id)#0"
			if flagCall != nil {
				taskAP, idAP = "?", "?"
				for i, p := range flagFn.Params {
					if i < len(flagCall.Call.Args) {
						switch a := w.AP(flagCall.Call.Args[i]); {
						case a == "local:params.Task":
							taskAP = w.AP(p)
						case strings.Contains(a, "uuid.FromString(local:params.Id)#0"):
							idAP = w.AP(p)
						}
					}
				}
			}
			for _, cl := range flagFn.AnonFuncs {
				pr := w.EnumPaths(cl, EnumOpts{})
				for _, p := range pr.Paths {
					sets := false
					for _, e := range p.Effects {
						if e.Kind == "store" && e.Target == flagAP && e.Val == "true" {
							sets = true
						}
					}
					if !sets {
						continue
					}
					okSet = true
					has := false
					for _, l := range p.Lits {
						if strings.Contains(l.Atom.L, "ByName(c1.arg0.Tasks,"+taskAP+")") && l.Atom.R == "nil" && !l.Val {
							has = true
						}
					}
					if !has {
						okSet = false
					}
				}
			}
			// and the callback runs under ReadJob for the requested id
			rj := findCalls(flagFn, func(n string, _ *ssa.CallCommon) bool { return strings.HasSuffix(n, "PipelineRunner).ReadJob") })
			okSet = okSet && len(rj) == 1 && strings.Contains(w.AP(rj[0].Common().Args[1]), idAP)
		}
		r.Check(okSet, "membership.flag", hname+": task-exists flag", w.Pos(h.Pos()), "set only in the ReadJob callback of the requested job when ByName(requested task) != nil", "the task-exists flag is not (only) set when the requested job has the requested task")
	}
	// ---- KEY: writer and reader open the same path expression, which uses all three components
	fs := w.NamedType("taskctl", "FileOutputStore")
	if fs != nil {
		exprs := map[string]string{}
		for _, m := range []string{"Writer", "Reader"} {
			f := w.FuncByName("taskctl", "(*FileOutputStore)."+m)
			if f == nil {
				continue
			}
			opens := findCalls(f, func(n string, _ *ssa.CallCommon) bool {
				return n == "os.Create" || n == "os.Open" || n == "os.OpenFile"
			})
			desc := ""
			okP := len(opens) == 1
			if okP {
				desc = w.expandNestedHelpers(w.APThrough(opens[0].Common().Args[0]), 0)
				okP = pathUsesAllKeys(desc)
			}
			exprs[m] = desc
			r.Check(okP, "key.path-function", FuncName(f)+": opens <base>/<job>/<task>-<stream>.log", w.Pos(f.Pos()), "the one file opened is "+desc, FuncName(f)+" opens "+desc+" ("+fmt.Sprint(len(opens))+" open calls), which does not use all of (base, job id, task name, stream): output of different jobs, tasks or streams shares a file")
		}
		if len(exprs) == 2 {
			r.Check(exprs["Writer"] == exprs["Reader"] && exprs["Writer"] != "", "key.same-function", "FileOutputStore: writer and reader paths agree", "-", "both open "+exprs["Writer"], "the writer opens "+exprs["Writer"]+" but the reader opens "+exprs["Reader"]+": what is written cannot be read back")
		}
	}
	// ---- the file store hands out the file it opened exactly when opening succeeded
	for _, m := range []string{"Writer", "Reader"} {
		f := w.FuncByName("taskctl", "(*FileOutputStore)."+m)
		if f == nil {
			continue
		}
		okO, nSucc, detail := true, 0, ""
		pr := w.EnumPaths(f, EnumOpts{Inline: true, MaxPaths: 2000})
		for _, p := range pr.Paths {
			if p.End != "return" || len(p.Ret) != 2 {
				continue
			}
			open := ""
			for _, e := range p.Effects {
				if e.Kind == "call" && (e.Target == "os.Create" || e.Target == "os.Open" || e.Target == "os.OpenFile") {
					open = e.Target + "(" + e.Val + ")"
				}
			}
			success := false
			for _, l := range p.Lits {
				if open != "" && l.Atom.Op == "==" && l.Atom.L == open+"#1" && l.Atom.R == "nil" {
					success = l.Val
				}
			}
			// a wrapped error is nil exactly when its cause is (`return nil, errors.Wrap(err, …)` behind err == nil)
			ret1 := p.Ret[1]
			if inner := unwrapErrAP(ret1); inner != ret1 {
				for _, l := range p.Lits {
					if l.Val && l.Atom.Op == "==" && l.Atom.L == inner && l.Atom.R == "nil" {
						ret1 = "nil"
					}
				}
			}
			if success {
				nSucc++
				// (the file itself, or something built from it)
				if !strings.Contains(p.Ret[0], open+"#0") || ret1 != "nil" {
					okO = false
					detail = "after a successful open it returns (" + p.Ret[0] + ", " + p.Ret[1] + ")"
				}
			} else if ret1 == "nil" {
				okO = false
				detail = "it returns a nil error without a successful open (path " + p.LitString() + ")"
			}
		}
		r.Check(okO && nSucc > 0 && !pr.Truncated, "key.open-result", FuncName(f)+": returns the opened file", w.Pos(f.Pos()), "(file, nil) exactly behind the err == nil edge of the open call; an error otherwise", FuncName(f)+" does not hand out the file it opened exactly when the open succeeded: "+detail+" — output is written nowhere (or the task fails although its log could be opened)")
	}
	// ---- IDENTITY: the job id the writers are opened for is the stage's reserved variable: it is set
	// from the job's own id and a job-supplied variable cannot replace it
	if ro := resolveRoles(w); ro.la != nil {
		checkReservedVariable(w, r, ro)
	} else {
		r.Undecided("reserved", "roles", "-", "roles unresolved")
	}
	r.Floor("reserved.", 2)
	// ---- OWNERSHIP: the writer handed out for one (job, task, stream) owns its state — neither Writer,
	// nor the module constructors it calls, nor the methods of the concrete type it returns touch a
	// package-level variable (a pooled or shared buffer would let bytes of one stream surface in another file)
	if wf := w.FuncByName("taskctl", "(*FileOutputStore).Writer"); wf != nil {
		region := map[*ssa.Function]bool{wf: true}
		var grow func(f *ssa.Function, d int)
		grow = func(f *ssa.Function, d int) {
			allInstrs(f, func(in ssa.Instruction) {
				if c := callCommonOf(in); c != nil {
					if g := c.StaticCallee(); g != nil && g.Blocks != nil && w.InModule(g) && !region[g] && d < 2 {
						region[g] = true
						grow(g, d+1)
					}
				}
				// the concrete type handed out: its methods belong to the writer
				if mi, ok := in.(*ssa.MakeInterface); ok && f == wf {
					if n := namedOf(mi.X.Type()); n != nil && n.Obj().Pkg() != nil && w.InModulePkg(n.Obj().Pkg()) {
						for _, m := range w.ModFuncs {
							if m.Signature.Recv() != nil && namedOf(m.Signature.Recv().Type()) != nil && namedOf(m.Signature.Recv().Type()).Obj() == n.Obj() && !region[m] {
								region[m] = true
								grow(m, d+1)
							}
						}
					}
				}
			})
		}
		grow(wf, 0)
		shared := ""
		for f := range region {
			for _, fn := range withClosures(f) {
				allInstrs(fn, func(in ssa.Instruction) {
					for _, op := range in.Operands(nil) {
						if g, ok := (*op).(*ssa.Global); ok && g.Pkg != nil && w.InModulePkg(g.Pkg.Pkg) {
							if w.sentinelError(g) || strings.HasSuffix(g.Type().String(), "error") {
								continue
							}
							shared = globalName(g) + " in " + FuncName(fn) + " (" + w.InstrPos(in) + ")"
						}
					}
				})
			}
		}
		r.Check(shared == "", "key.writer-owns-state", FuncName(wf)+": the writer owns its state", w.Pos(wf.Pos()), fmt.Sprintf("%d functions (Writer, its module callees, methods of the returned type) touch no package-level variable", len(region)), "the writer of a task's log shares package-level state: "+shared+" — a buffer or file that outlives or is shared between writers lets output of one stream, task or job surface in another file")
	}
	r.Floor("labels.run", 2)
	r.Floor("labels.upstream", 4)
	r.Floor("labels.executor-args", 1)
	r.Floor("labels.stdio", 3)
	r.Floor("key.", 11)
	r.Floor("membership.", 3)
}

var concatKeyRe = regexp.MustCompile(`^\(*arg1 \+ "[^"%]+"\) \+ arg2\)( \+ "[^"%]*"\))?\]\)$`)

// pathUsesAllKeys: the rendered path expression is Join(base, job id, <task name><non-empty constant><stream>…)
// — built with Sprintf("%s<c>%s…", task, stream) or by concatenation; each key occurs once.
func pathUsesAllKeys(desc string) bool {
	const pre = "path.Join([recv.path,arg0,"
	if !strings.HasPrefix(desc, pre) {
		return false
	}
	rest := desc[len(pre):]
	if strings.Count(rest, "arg1") != 1 || strings.Count(rest, "arg2") != 1 || strings.Contains(rest, "arg0") {
		return false
	}
	if strings.HasPrefix(rest, "fmt.Sprintf(") {
		return strings.Contains(rest, "[arg1,arg2]") && regexp.MustCompile(`"%s[^%"]+%s[^%"]*"`).MatchString(rest)
	}
	return concatKeyRe.MatchString(rest)
}

// deferredInRun: the call at site runs only when Run returns — it is a defer statement of run, or it
// lies in a function all of whose call sites (depth ≤ 3) are.
func deferredInRun(w *World, run, opener *ssa.Function, site ssa.Instruction, depth int) bool {
	if d, ok := site.(*ssa.Defer); ok && d.Parent() == run {
		return true
	}
	f := site.Parent()
	// the helper that opens the writers may close what it opened when a later open fails: it has
	// returned before the first command runs
	if opener != nil && opener != run {
		for g := f; g != nil; g = g.Parent() {
			if g == opener {
				return true
			}
		}
	}
	if f == run || depth > 3 {
		return false
	}
	n, ok := 0, true
	for _, g := range w.ModFuncs {
		allInstrs(g, func(in ssa.Instruction) {
			c := callCommonOf(in)
			if c == nil {
				return
			}
			if c.StaticCallee() == f || funcValue(w.Resolve(c.Value)) == f {
				n++
				if !deferredInRun(w, run, opener, in, depth+1) {
					ok = false
				}
			}
		})
	}
	return ok && n > 0
}

// expandNestedHelpers: calls of one-return helpers of the module that occur *inside* a rendered expression
// (`path.Join([(*T).dir(recv,arg0),…])`) are replaced by what the helper returns, its parameters substituted by the rendered
// arguments; a `path.Join` directly inside a `path.Join` is flattened (Join is associative on clean relative elements).
func (w *World) expandNestedHelpers(expr string, depth int) string {
	if depth > 3 {
		return expr
	}
	for _, f := range w.ModFuncs {
		if f.Parent() != nil || f.Blocks == nil {
			continue
		}
		name := FuncName(f) + "("
		i := strings.Index(expr, name)
		if i < 0 {
			continue
		}
		// the argument list
		j, d := i+len(name), 1
		for ; j < len(expr) && d > 0; j++ {
			switch expr[j] {
			case '(', '[':
				d++
			case ')', ']':
				d--
			}
		}
		if d != 0 {
			continue
		}
		args := splitArgs(expr[i+len(name) : j-1])
		if len(args) != len(f.Params) {
			continue
		}
		var ret ssa.Value
		n := 0
		allInstrs(f, func(in ssa.Instruction) {
			if rt, ok := in.(*ssa.Return); ok && len(rt.Results) == 1 {
				n++
				ret = rt.Results[0]
			}
		})
		if n != 1 {
			continue
		}
		body := w.AP(ret)
		// simultaneous substitution of the parameter names
		var sb strings.Builder
		for k := 0; k < len(body); {
			matched := false
			for pi, prm := range f.Params {
				pn := w.AP(prm)
				if strings.HasPrefix(body[k:], pn) {
					end := k + len(pn)
					isWord := func(c byte) bool { return c == '_' || c >= '0' && c <= '9' || c >= 'a' && c <= 'z' || c >= 'A' && c <= 'Z' }
					if (k == 0 || !isWord(body[k-1])) && (end == len(body) || !isWord(body[end])) {
						sb.WriteString(args[pi])
						k = end
						matched = true
						break
					}
				}
			}
			if !matched {
				sb.WriteByte(body[k])
				k++
			}
		}
		expr = expr[:i] + sb.String() + expr[j:]
		return w.expandNestedHelpers(expr, depth+1)
	}
	// path.Join([path.Join([a,b]),c]) → path.Join([a,b,c])
	const jn = "path.Join([path.Join(["
	if i := strings.Index(expr, jn); i >= 0 {
		rest := expr[i+len(jn):]
		if e := strings.Index(rest, "])"); e >= 0 && !strings.ContainsAny(rest[:e], "()[]") {
			expr = expr[:i] + "path.Join([" + rest[:e] + rest[e+2:]
			return w.expandNestedHelpers(expr, depth+1)
		}
	}
	return expr
}
