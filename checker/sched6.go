package main

import (
	"fmt"
	"go/types"
	"strings"

	"golang.org/x/tools/go/ssa"
)

// ---------------------------------------------------------------------------------
// C16: who reads the live definitions, what a reload writes, definitions are immutable

func (ro *Roles) defsReads(r *Report, rule string) {
	w := ro.w
	// the retention decision (found by what it is: (job, rank) → bool/enum on the save path); when it is
	// handed the definition instead of looking it up, its caller does the lookup on its behalf
	var retention, retentionCaller *ssa.Function
	if ro.Save != nil {
		rd := findRetentionDecision(w, ro, saveRegion(w, ro))
		retention = rd.dec
		if rd.def != nil && rd.call != nil {
			retentionCaller = rd.call.Parent()
		}
	}
	listP := w.FuncByName("", "(*PipelineRunner).ListPipelines")
	allowed := map[*ssa.Function]string{}
	add := func(f *ssa.Function, why string) {
		if f != nil {
			allowed[f] = why
		}
	}
	add(ro.Admit, "admission reads the current concurrency and queue settings (a changed limit governs jobs started afterwards)")
	add(ro.Accept, "the definition is looked up when the job is accepted (that is the snapshot)")
	add(ro.TaskChange, "fail-fast setting is read at failure time")
	add(retention, "retention settings are read at save time")
	add(retentionCaller, "retention settings are looked up at save time for the retention decision")
	if retentionCaller != nil {
		// every caller of a decision that is handed the definition does that lookup (a wrapper kept for tests, say)
		for _, g := range w.ModFuncs {
			if g.Parent() == nil && len(findCalls(g, func(_ string, c *ssa.CallCommon) bool { return c.StaticCallee() == retention })) > 0 {
				add(g, "retention settings are looked up for the retention decision")
			}
		}
	}
	add(listP, "the list of defined pipelines is reported as of now")
	add(ro.Replace, "the reload itself")
	// a read-only report of the runner (an exported method that changes nothing: read lock, own locals, logging) tells the
	// definitions as of now, like the pipeline listing — it cannot make a job run with another definition
	for _, g := range ro.rootFuncs() {
		if _, listed := allowed[g]; !listed && g.Parent() == nil && g.Object() != nil && g.Object().Exported() && ro.readOnlyOperation(g, 0) {
			add(g, "read-only report of the current definitions")
		}
	}
	// a helper all of whose callers are allowed functions (or such helpers) reads on their behalf
	var helperOfAllowed func(f *ssa.Function, d int) (*ssa.Function, string)
	helperOfAllowed = func(f *ssa.Function, d int) (*ssa.Function, string) {
		if d > 2 {
			return nil, ""
		}
		var host *ssa.Function
		why := ""
		n := 0
		okAll := true
		for _, g := range w.ModFuncs {
			allInstrs(g, func(in ssa.Instruction) {
				if mc, ok := in.(*ssa.MakeClosure); ok && mc.Fn == ssa.Value(f) {
					okAll = false
				}
				c := callCommonOf(in)
				if c == nil {
					for _, op := range in.Operands(nil) {
						if *op == ssa.Value(f) {
							okAll = false // used as a value
						}
					}
					return
				}
				if c.StaticCallee() != f {
					return
				}
				n++
				top := g
				for top.Parent() != nil {
					top = top.Parent()
				}
				if wy, ok := allowed[top]; ok {
					host, why = top, wy
				} else if h, wy := helperOfAllowed(top, d+1); h != nil {
					host, why = h, wy
				} else {
					okAll = false
				}
			})
		}
		if n == 0 || !okAll {
			return nil, ""
		}
		return host, why
	}
	n := 0
	for _, fn := range w.ModFuncs {
		allInstrs(fn, func(in ssa.Instruction) {
			ld, ok := in.(*ssa.UnOp)
			if !ok {
				return
			}
			k, _, ok := ro.la.rootField(ld.X)
			if !ok || k != "PipelineRunner.defs" {
				return
			}
			n++
			top := fn
			for top.Parent() != nil {
				top = top.Parent()
			}
			key := FuncName(fn) + ": reads the live definitions"
			if why, ok := allowed[top]; ok {
				r.OK(rule, key, w.InstrPos(in), "allowed live read: "+why)
			} else if host, why := helperOfAllowed(top, 0); host != nil {
				r.OK(rule, key, w.InstrPos(in), "helper called only by "+FuncName(host)+" — allowed live read: "+why)
			} else if ro.readsDefsOnlyForAdmission(top) {
				r.OK(rule, key, w.InstrPos(in), "the dequeue path hands the current definition to the admission function (the same live read the admission function is allowed)")
			} else {
				r.Viol(rule, key, w.InstrPos(in), "reads r.defs although it is not one of the functions allowed to consult the current definitions: a job that was accepted before a reload would run with (or be governed by) the new definition instead of its own snapshot")
			}
		})
	}
	r.Count("defs_reads", n)
	// the start path works on the job's own snapshot
	if ro.Start != nil && ro.GraphBuild != nil {
		var call *ssa.Call
		allInstrs(ro.Start, func(in ssa.Instruction) {
			if c, ok := in.(*ssa.Call); ok && c.Call.StaticCallee() == ro.GraphBuild {
				call = c
			}
		})
		if call == nil {
			r.Viol(rule+".graph-from-snapshot", FuncName(ro.Start)+": graph built from the job", w.Pos(ro.Start.Pos()), "the start function does not call the graph builder")
		} else {
			var args []string
			okA := true
			for _, a := range call.Call.Args {
				ap := w.AP(a)
				args = append(args, ap)
				// fields of the job, or the job itself
				if !strings.HasPrefix(ap, "arg0.") && ap != "arg0" {
					okA = false
				}
			}
			r.Check(okA, rule+".graph-from-snapshot", FuncName(ro.Start)+": graph built from the job", w.InstrPos(call), "the graph is built from "+strings.Join(args, ", ")+" — fields of the job itself", "the graph builder receives "+strings.Join(args, ", ")+": not only the job's own snapshot")
		}
	}
	// the runner factory in package app builds the environment from the job and captures no definitions
	for _, fn := range w.ModFuncs {
		if fn.Parent() == nil || fn.Package() != nil && fn.Package() != w.Pkg("app") {
			continue
		}
		if fn.Signature.Params().Len() != 1 || typeShort(fn.Signature.Params().At(0).Type()) != "PipelineJob" || fn.Signature.Results().Len() != 1 {
			continue
		}
		caps := false
		for _, fv := range fn.FreeVars {
			if strings.Contains(fv.Type().String(), "definition.") {
				caps = true
			}
		}
		readsEnv := false
		allInstrs(fn, func(in ssa.Instruction) {
			if fa, ok := in.(*ssa.FieldAddr); ok && fieldOfAddr(fa).String() == "PipelineJob.Env" {
				readsEnv = true
			}
		})
		r.Check(!caps && readsEnv, rule+".factory", FuncName(fn)+": task runner factory", w.Pos(fn.Pos()), "builds the runner environment from the job's own Env and captures no definitions", fmt.Sprintf("the task runner factory captures definitions=%v, reads the job's Env=%v: a running job would see a reloaded environment", caps, readsEnv))
	}
}

// readsDefsOnlyForAdmission: fn belongs to the dequeue path and every read of the live
// definitions in it is (part of) an argument of a call of the admission function.
func (ro *Roles) readsDefsOnlyForAdmission(fn *ssa.Function) bool {
	w := ro.w
	isDq := fn == ro.DequeueDecision
	for _, d := range ro.Dequeue {
		if d == fn && fn != ro.Start {
			isDq = true
		}
	}
	if !isDq || ro.Admit == nil {
		return false
	}
	reads, passed := 0, 0
	allInstrs(fn, func(in ssa.Instruction) {
		if ld, ok := in.(*ssa.UnOp); ok {
			if k, _, ok := ro.la.rootField(ld.X); ok && k == "PipelineRunner.defs" {
				reads++
			}
		}
		if c := callCommonOf(in); c != nil && c.StaticCallee() == ro.Admit {
			for _, a := range c.Args {
				if strings.HasPrefix(w.AP(a), "recv.defs.") {
					passed++
				}
			}
		}
	})
	return reads > 0 && reads == passed
}

func (ro *Roles) reloadModset(r *Report, rule string) {
	w := ro.w
	if !ro.need(r, rule, map[string]*ssa.Function{"reload": ro.Replace}) {
		return
	}
	fn := ro.Replace
	res := w.EnumPaths(fn, EnumOpts{Inline: true, Opaque: w.statelessCallee})
	ok := len(res.Paths) > 0
	detail := ""
	stored := false
	for _, p := range res.Paths {
		for _, e := range p.Effects {
			switch {
			case e.Kind == "store" && e.Target == "recv.defs" && e.Val == "arg0":
				stored = true
			case (e.Kind == "call" || e.Kind == "defer") && strings.Contains(e.Target, "sync.RWMutex)"):
			case e.Kind == "store" && strings.HasPrefix(e.Target, "local"):
			case e.Kind == "store" && strings.HasPrefix(e.Target, "recv.") && ro.bookkeepingField(strings.SplitN(strings.TrimPrefix(e.Target, "recv."), ".", 2)[0]):
				// a counter / timestamp of the reload that only read-only reports look at
			case e.Kind == "call" && e.Spliced:
				// a spliced helper: its own effects follow on the path
			case e.Kind == "call" && (e.Target == "len" || e.Target == "cap" || e.Callee != nil && w.pureFunc(e.Callee, 0)):
				// a read-only helper (a count for a log line)
			case e.Kind == "call" && e.Target == "append" && strings.HasPrefix(e.Val, "local"):
				// building a local list for a log line
			case e.Kind == "call" && (e.Target == "time.Now" || e.Target == "time.Since" || strings.HasPrefix(e.Target, "time.(Time).") || strings.HasPrefix(e.Target, "fmt.Sprint") || strings.HasPrefix(e.Target, "strings.") || e.Target == "sort.Strings"):
				// reading the clock, formatting
			default:
				ok = false
				detail = e.String()
			}
		}
	}
	r.Check(ok && stored, rule, FuncName(fn)+": effects of a reload", w.Pos(fn.Pos()), "the only effect is `defs = new definitions` under the write lock: existing jobs, indexes, wait lists and timers are untouched", "a reload does more than swapping the definitions ("+detail+"): it can cancel, restart, duplicate or lose existing jobs")
}

func (ro *Roles) defsImmutable(r *Report, rule string) {
	w := ro.w
	dp := w.Pkg("definition")
	n, bad := 0, 0
	for _, fn := range w.ModFuncs {
		top := fn
		for top.Parent() != nil {
			top = top.Parent()
		}
		inLoader := top.Package() == dp
		allInstrs(fn, func(in ssa.Instruction) {
			switch x := in.(type) {
			case *ssa.Store:
				fa, ok := w.resolveAddr(x.Addr).(*ssa.FieldAddr)
				if !ok {
					return
				}
				// outermost definition struct
				cur := fa
				var owner string
				for {
					if nm := namedOf(cur.X.Type()); nm != nil && nm.Obj().Pkg() != nil && nm.Obj().Pkg() == dp.Pkg {
						owner = nm.Obj().Name()
					}
					next, ok := w.resolveAddr(cur.X).(*ssa.FieldAddr)
					if !ok {
						break
					}
					cur = next
				}
				if owner == "" {
					return
				}
				n++
				ro.la.curFn = fn
				if inLoader || ro.la.fresh(cur.X, nil) {
					return
				}
				bad++
				r.Viol(rule, FuncName(fn)+": store into a "+owner, w.InstrPos(in), "a definition value that jobs share by reference is mutated in place ("+w.apAddr(x.Addr)+"): jobs accepted earlier see the change")
			case *ssa.MapUpdate:
				t := x.Map.Type().String()
				ap := w.AP(x.Map)
				isDefMap := strings.Contains(t, "definition.") || strings.HasSuffix(ap, ".Env") && strings.Contains(ap, "defs") || strings.Contains(ap, ".defs.")
				if !isDefMap {
					return
				}
				n++
				ro.la.curFn = fn
				if inLoader || ro.la.fresh(x.Map, nil) {
					return
				}
				bad++
				r.Viol(rule, FuncName(fn)+": update of a definition map", w.InstrPos(in), "a map of the definitions ("+ap+") is updated in place outside the loader: jobs share it by reference")
			}
		})
	}
	if bad == 0 {
		r.OK(rule, "module: no in-place mutation of definitions outside the loader", "-", fmt.Sprintf("%d stores/map updates on definition values inspected; all are in package definition's loader or on fresh local copies", n))
	}
	ro.sharedSlices(r, rule+".slices")
}

// sharedSlices: slices held in definition structs (script, depends_on, …) are copied by
// reference into every job; writing through such a slice — element store, append onto a
// shortened reslice (the in-place filter idiom), sort, copy — changes what other jobs and
// the definition itself see. Checked for direct uses and through module callees that write
// through a slice parameter (summaries, depth ≤ 3).
func (ro *Roles) sharedSlices(r *Report, rule string) {
	w := ro.w
	dp := w.Pkg("definition")
	if dp == nil {
		return
	}
	// shared(v): v is a slice read from a field of a definition struct (through any chain of
	// fields/elements), not in the loader
	var shared func(v ssa.Value, d int) bool
	shared = func(v ssa.Value, d int) bool {
		if d > 8 {
			return false
		}
		v = w.Resolve(v)
		if _, ok := v.Type().Underlying().(*types.Slice); !ok {
			return false
		}
		inDef := func(t types.Type) bool {
			nm := namedOf(t)
			return nm != nil && nm.Obj().Pkg() == dp.Pkg
		}
		switch x := v.(type) {
		case *ssa.UnOp:
			if x.Op.String() != "*" {
				return false
			}
			for a := w.resolveAddr(x.X); ; {
				fa, ok := a.(*ssa.FieldAddr)
				if !ok {
					return false
				}
				if inDef(fa.X.Type()) {
					return true
				}
				a = w.resolveAddr(fa.X)
			}
		case *ssa.Field:
			for cur := ssa.Value(x); ; {
				f, ok := cur.(*ssa.Field)
				if !ok {
					return false
				}
				if inDef(f.X.Type()) {
					return true
				}
				cur = w.Resolve(f.X)
			}
		case *ssa.Slice:
			return shared(x.X, d+1)
		case *ssa.Phi:
			for _, e := range x.Edges {
				if e != ssa.Value(x) && shared(e, d+1) {
					return true
				}
			}
		}
		return false
	}
	sf := &sliceFlow{w: w, memo: map[[2]interface{}][]sliceWrite{}}
	writesThrough := sf.writesThrough
	n, bad := 0, 0
	for _, fn := range w.ModFuncs {
		top := fn
		for top.Parent() != nil {
			top = top.Parent()
		}
		if top.Package() == dp || fn.Parent() != nil {
			continue
		}
		// roots: every shared slice value read in fn (incl. closures)
		var roots []ssa.Value
		for _, f := range withClosures(fn) {
			allInstrs(f, func(in ssa.Instruction) {
				if v, ok := in.(ssa.Value); ok {
					switch v.(type) {
					case *ssa.UnOp, *ssa.Field:
						if shared(v, 0) {
							roots = append(roots, v)
						}
					}
				}
			})
		}
		for _, root := range roots {
			n++
			for _, x := range writesThrough(fn, root, 0) {
				bad++
				r.Viol(rule, FuncName(fn)+": write through a slice of the definitions", w.InstrPos(x.in), "the slice "+w.AP(root)+" is shared by reference between the definition and every job made from it; "+x.what+": the definition (and the dependency list the execution graph is built from) is changed for this and every later job")
			}
		}
	}
	r.Count("shared_slice_reads", n)
	if bad == 0 {
		r.Check(n >= 3, rule, "module: slices of the definitions are read-only", "-", fmt.Sprintf("%d reads of slices held in definition structs; none is written through (element store, in-place filter append, sort, copy — directly or in a module callee)", n), fmt.Sprintf("only %d reads of definition slices found: the rule no longer sees the script/depends_on uses", n))
	}
}

// whoDeletesJobs: jobs leave the id index only on the retention path of the save function.
func (ro *Roles) whoDeletesJobs(r *Report, rule string) {
	w := ro.w
	n := 0
	for _, fn := range w.ModFuncs {
		allInstrs(fn, func(in ssa.Instruction) {
			c, ok := in.(*ssa.Call)
			if !ok {
				return
			}
			if b, ok := c.Call.Value.(*ssa.Builtin); ok && b.Name() == "delete" && strings.HasSuffix(w.AP(c.Call.Args[0]), ".jobsByID") {
				n++
				inSave := fn == ro.Save
				if ro.Save != nil {
					for _, h := range ro.helpersOf(ro.Save) {
						inSave = inSave || fn == h
					}
				}
				r.Check(inSave, rule, FuncName(fn)+": delete from the id index", w.InstrPos(in), "only the retention path of the save function removes jobs", "a job is removed from the id index outside the retention path: an accepted job disappears from the API before retention removes it")
			}
		})
	}
	// and no whole-map replacement of the indexes
	for _, fn := range w.ModFuncs {
		for _, f := range []string{"jobsByID", "jobsByPipeline"} {
			for _, st := range ro.storesTo(fn, "PipelineRunner."+f, nil) {
				n++
				r.Viol(rule, FuncName(fn)+": index "+f+" replaced", w.InstrPos(st), "the job index is replaced wholesale: accepted jobs disappear")
			}
		}
	}
	if n == 0 {
		r.Viol(rule, "module: retention delete", "-", "no delete from the id index found (rule matches nothing)")
	}
}

// sliceFlow: which instructions write into the backing array of a slice value (directly, or
// in module callees the slice is handed to — parameter summaries, depth ≤ 3).
type sliceWrite struct {
	in   ssa.Instruction
	what string
}

type sliceFlow struct {
	w    *World
	memo map[[2]interface{}][]sliceWrite
	// returnCounts: handing the slice back to the caller counts as a (potential) write
	returnCounts bool
}

// derives(v, from): v is from, a reslice of it, or a phi/append chain rooted in a reslice of it
func (sf *sliceFlow) derives(v, from ssa.Value, d int) bool {
	w := sf.w
	if d > 8 {
		return false
	}
	v = w.Resolve(v)
	if v == from {
		return true
	}
	switch x := v.(type) {
	case *ssa.Slice:
		return sf.derives(x.X, from, d+1)
	case *ssa.Phi:
		for _, e := range x.Edges {
			if e != ssa.Value(x) && sf.derives(e, from, d+1) {
				return true
			}
		}
	case *ssa.Call:
		if b, ok := x.Call.Value.(*ssa.Builtin); ok && b.Name() == "append" {
			return sf.derives(x.Call.Args[0], from, d+1)
		}
	}
	return false
}

func (sf *sliceFlow) summary(f *ssa.Function, pi int, d int) []sliceWrite {
	k := [2]interface{}{f, pi}
	if v, ok := sf.memo[k]; ok {
		return v
	}
	sf.memo[k] = nil
	v := sf.writesThrough(f, f.Params[pi], d)
	sf.memo[k] = v
	return v
}

func (sf *sliceFlow) writesThrough(fn *ssa.Function, root ssa.Value, d int) []sliceWrite {
	w := sf.w
	derives := sf.derives
	var out []sliceWrite
	for _, f := range withClosures(fn) {
		allInstrs(f, func(in ssa.Instruction) {
			switch x := in.(type) {
			case *ssa.Store:
				if ia, ok := w.resolveAddr(x.Addr).(*ssa.IndexAddr); ok && derives(ia.X, root, 0) {
					out = append(out, sliceWrite{in, "element store"})
				}
			case *ssa.Return:
				for _, rv := range x.Results {
					if _, isSlice := rv.Type().Underlying().(*types.Slice); isSlice && sf.returnCounts && derives(rv, root, 0) && d > 0 {
						out = append(out, sliceWrite{in, "returns (a reslice of) it, which the caller may store"})
					}
				}
			case *ssa.Call:
				if b, ok := x.Call.Value.(*ssa.Builtin); ok {
					switch b.Name() {
					case "append":
						// append onto a reslice that is shorter than its operand overwrites in place
						if sl, ok := w.Resolve(x.Call.Args[0]).(*ssa.Slice); ok && sl.High != nil && derives(sl.X, root, 0) {
							out = append(out, sliceWrite{in, "append onto a shortened reslice (in-place filter)"})
						} else if ap, ok := w.Resolve(x.Call.Args[0]).(*ssa.Phi); ok && derives(ap, root, 0) && ssa.Value(ap) != root {
							// result := s[:0]; for … { result = append(result, …) }
							for _, e := range ap.Edges {
								if sl, ok := w.Resolve(e).(*ssa.Slice); ok && sl.High != nil && derives(sl.X, root, 0) {
									out = append(out, sliceWrite{in, "append onto a shortened reslice (in-place filter)"})
								}
							}
						}
					case "copy":
						if derives(x.Call.Args[0], root, 0) {
							out = append(out, sliceWrite{in, "copy into it"})
						}
					}
					return
				}
				callee := x.Call.StaticCallee()
				args := x.Call.Args
				if callee == nil {
					for _, a := range args {
						if derives(a, root, 0) {
							out = append(out, sliceWrite{in, "passed to a dynamic call"})
						}
					}
					return
				}
				if callee.Pkg != nil && callee.Pkg.Pkg.Path() == "sort" || callee.Pkg != nil && callee.Pkg.Pkg.Path() == "slices" && strings.HasPrefix(callee.Name(), "Sort") {
					if len(args) > 0 && derives(args[0], root, 0) {
						out = append(out, sliceWrite{in, callee.Pkg.Pkg.Path() + "." + callee.Name() + " reorders it"})
					}
					return
				}
				if w.InModule(callee) && callee.Blocks != nil {
					for i, a := range args {
						if i < len(callee.Params) && derives(a, root, 0) {
							if d >= 3 {
								out = append(out, sliceWrite{in, "passed on too deep to follow"})
								continue
							}
							for _, s := range sf.summary(callee, i, d+1) {
								out = append(out, sliceWrite{in, "passed to " + FuncName(callee) + ", which does: " + s.what})
							}
						}
					}
				}
			}
		})
	}
	return out
}

// pureFunc: f only reads — no store outside its own locals, no map update, send, go or defer, and it calls
// only len/cap, logging and other pure module functions (depth ≤ 2).
func (w *World) pureFunc(f *ssa.Function, depth int) bool {
	if f == nil || f.Blocks == nil || !w.InModule(f) || depth > 5 {
		return false
	}
	ok := true
	allInstrs(f, func(in ssa.Instruction) {
		switch x := in.(type) {
		case *ssa.Store:
			if _, isAlloc := w.resolveAddr(x.Addr).(*ssa.Alloc); !isAlloc {
				if fa, isFA := x.Addr.(*ssa.FieldAddr); isFA {
					if _, baseAlloc := fa.X.(*ssa.Alloc); baseAlloc {
						return
					}
				}
				if ia, isIA := x.Addr.(*ssa.IndexAddr); isIA {
					if _, baseAlloc := ia.X.(*ssa.Alloc); baseAlloc {
						return
					}
				}
				ok = false
			}
		case *ssa.MapUpdate, *ssa.Send, *ssa.Go, *ssa.Defer, *ssa.Select:
			ok = false
		case *ssa.Call:
			if b, isB := x.Call.Value.(*ssa.Builtin); isB {
				switch b.Name() {
				case "len", "cap", "min", "max":
				case "append":
					// building a result list: the slice appended to is the function's own (nil, made here, or an earlier append)
					if !w.ownSlice(x.Call.Args[0], 0) {
						ok = false
					}
				default:
					ok = false
				}
				return
			}
			if isLogCall(&x.Call) {
				return
			}
			// library calls without effects beyond their arguments; the sorting ones only on the function's own slices
			switch name := calleeName(&x.Call); {
			case name == "sort.Strings" || name == "sort.Ints" || name == "sort.Slice" || name == "sort.SliceStable" || name == "slices.Sort":
				if !w.ownSlice(x.Call.Args[0], 0) {
					ok = false
				}
				return
			case strings.HasPrefix(name, "strings.") && !strings.Contains(name, "Builder") || strings.HasPrefix(name, "strconv.") ||
				name == "fmt.Sprintf" || name == "fmt.Sprint" || name == "time.Since" || name == "time.Now" || strings.HasPrefix(name, "time.(Time).") || strings.HasPrefix(name, "time.(Duration)."):
				return
			}
			if g := x.Call.StaticCallee(); g == nil || !w.pureFunc(g, depth+1) {
				ok = false
			}
		}
	})
	return ok
}

// ownSlice: v is a slice the current function built itself — nil, made here, a composite literal, or appended to / resliced
// from such a slice (through phis and single-function locals); never a parameter, a field or a global.
func (w *World) ownSlice(v ssa.Value, d int) bool {
	return w.ownSliceRec(v, map[ssa.Value]bool{})
}

func (w *World) ownSliceRec(v ssa.Value, seen map[ssa.Value]bool) bool {
	v = w.Resolve(v)
	if seen[v] {
		return true // a cycle through a loop phi adds no new origin
	}
	seen[v] = true
	switch x := v.(type) {
	case *ssa.Const:
		return x.IsNil()
	case *ssa.MakeSlice:
		return true
	case *ssa.Slice:
		if _, ok := x.X.(*ssa.Alloc); ok {
			return true // a slice of a local array (composite literal, variadic arguments)
		}
		return w.ownSliceRec(x.X, seen)
	case *ssa.MakeInterface:
		return w.ownSliceRec(x.X, seen)
	case *ssa.Phi:
		for _, e := range x.Edges {
			if !w.ownSliceRec(e, seen) {
				return false
			}
		}
		return true
	case *ssa.Call:
		if b, ok := x.Call.Value.(*ssa.Builtin); ok && b.Name() == "append" {
			return w.ownSliceRec(x.Call.Args[0], seen)
		}
	case *ssa.UnOp:
		if a, ok := w.resolveAddr(x.X).(*ssa.Alloc); ok && a.Referrers() != nil {
			for _, ref := range *a.Referrers() {
				if st, isSt := ref.(*ssa.Store); isSt && st.Addr == ssa.Value(a) {
					if !w.ownSliceRec(st.Val, seen) {
						return false
					}
				}
			}
			return true
		}
	}
	return false
}

// readOnlyOperation: f changes nothing outside its own locals — stores only into local allocations, no map update, send, go or
// select, defers only the release of the read lock, takes at most the read lock, and calls only builtins, logging, library
// functions and module functions that are themselves read-only (or pure).
func (ro *Roles) readOnlyOperation(f *ssa.Function, d int) bool {
	w := ro.w
	if f == nil || f.Blocks == nil || d > 3 {
		return false
	}
	ok := true
	allInstrs(f, func(in ssa.Instruction) {
		switch x := in.(type) {
		case *ssa.Store:
			if _, isAlloc := w.resolveAddr(x.Addr).(*ssa.Alloc); isAlloc {
				return
			}
			if fa, isFA := x.Addr.(*ssa.FieldAddr); isFA {
				if _, baseAlloc := w.resolveAddr(fa.X).(*ssa.Alloc); baseAlloc {
					return
				}
			}
			if ia, isIA := x.Addr.(*ssa.IndexAddr); isIA {
				if _, baseAlloc := w.resolveAddr(ia.X).(*ssa.Alloc); baseAlloc {
					return
				}
				if w.ownSlice(ia.X, 0) {
					return
				}
			}
			ok = false
		case *ssa.MapUpdate:
			if _, isMake := w.Resolve(x.Map).(*ssa.MakeMap); !isMake {
				ok = false
			}
		case *ssa.Send, *ssa.Go, *ssa.Select:
			ok = false
		case *ssa.Defer:
			if op := ro.la.mxOp(&x.Call); op != "RUnlock" {
				ok = false
			}
		case *ssa.Call:
			if _, isB := x.Call.Value.(*ssa.Builtin); isB {
				return
			}
			if op := ro.la.mxOp(&x.Call); op != "" {
				if op != "RLock" && op != "RUnlock" {
					ok = false
				}
				return
			}
			if isLogCall(&x.Call) {
				return
			}
			g := x.Call.StaticCallee()
			if g == nil {
				if x.Call.IsInvoke() {
					ok = false // an interface method of unknown effect (a store, a runner)
				}
				return
			}
			if w.InModule(g) && !w.pureFunc(g, 0) && !ro.readOnlyOperation(g, d+1) {
				ok = false
			}
		}
	})
	return ok
}

// bookkeepingField: a field of the runner that is read only by read-only reports (and by the functions that write it): nothing
// that decides about jobs looks at it.
func (ro *Roles) bookkeepingField(name string) bool {
	w := ro.w
	if name == "" || name == "defs" || strings.Contains(name, "[") {
		return false
	}
	isField := false
	ok := true
	for _, f := range w.ModFuncs {
		reads, writes := false, false
		allInstrs(f, func(in ssa.Instruction) {
			fa, isFA := in.(*ssa.FieldAddr)
			if !isFA || fieldNameOf(fa) != name {
				return
			}
			if n := namedOf(fa.X.Type()); n == nil || n.Obj() != ro.la.runnerT.Obj() {
				return
			}
			isField = true
			if fa.Referrers() == nil {
				return
			}
			for _, ref := range *fa.Referrers() {
				switch y := ref.(type) {
				case *ssa.Store:
					if y.Addr == ssa.Value(fa) {
						writes = true
					} else {
						reads = true
					}
				case *ssa.DebugRef:
				default:
					reads = true
				}
			}
		})
		if reads && !writes {
			top := f
			for top.Parent() != nil {
				top = top.Parent()
			}
			if !ro.readOnlyOperation(top, 0) {
				ok = false
			}
		}
	}
	return isField && ok
}
