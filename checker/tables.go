package main

import (
	"fmt"
	"strconv"
	"strings"
)

// K3 DECTABLE support: evaluation of enumerated paths on concrete representatives of the
// inputs' order types. A region that touches its inputs only through comparisons is decided
// for all inputs by one representative per order type.

// evalTerm evaluates one operand of an atom. vars maps canonical access paths to model
// variables; env gives the model variables' values (a variable absent from env is undefined
// in this valuation, e.g. the pointee of a nil pointer).
func evalTerm(t string, vars map[string]string, env map[string]int64) (int64, string) {
	switch t {
	case "nil", "false":
		return 0, ""
	case "true":
		return 1, ""
	}
	if n, err := strconv.ParseInt(t, 10, 64); err == nil {
		return n, ""
	}
	if v, ok := vars[t]; ok {
		if val, ok := env[v]; ok {
			return val, ""
		}
		return 0, "undefined:" + v
	}
	return 0, "unknown:" + t
}

func evalLit(l Lit, vars map[string]string, env map[string]int64) (bool, string) {
	a, e1 := evalTerm(l.Atom.L, vars, env)
	if e1 != "" {
		return false, e1
	}
	var res bool
	if l.Atom.Op == "true" {
		res = a != 0
	} else {
		b, e2 := evalTerm(l.Atom.R, vars, env)
		if e2 != "" {
			return false, e2
		}
		switch l.Atom.Op {
		case "==":
			res = a == b
		case "<":
			res = a < b
		case "<=":
			res = a <= b
		default:
			return false, "unknown-op:" + l.Atom.Op
		}
	}
	return res == l.Val, ""
}

// selectPath returns the unique path whose literals all hold in env.
func selectPath(paths []*Path, vars map[string]string, env map[string]int64) (*Path, string) {
	var sel *Path
	n := 0
	for _, p := range paths {
		ok := true
		for _, l := range p.Lits {
			holds, err := evalLit(l, vars, env)
			if err != "" {
				if strings.HasPrefix(err, "unknown:") {
					return nil, "a branch reads " + strings.TrimPrefix(err, "unknown:") + ", which is not one of the decision's recognised inputs (condition: " + l.Atom.String() + ")"
				}
				if strings.HasPrefix(err, "undefined:") {
					return nil, "the path evaluates " + l.Atom.String() + " although " + strings.TrimPrefix(err, "undefined:") + " is undefined here (nil dereference)"
				}
				return nil, err
			}
			if !holds {
				ok = false
				break
			}
		}
		if ok {
			sel = p
			n++
		}
	}
	if n == 1 {
		return sel, ""
	}
	return nil, fmt.Sprintf("%d paths are consistent with the valuation (expected exactly 1)", n)
}
