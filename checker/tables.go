package main

import (
	"fmt"
	"strconv"
	"strings"
)

// K3 DECTABLE support: evaluation of enumerated paths on concrete representatives of the
// inputs' order types. A region that touches its inputs only through comparisons is decided
// for all inputs by one representative per order type.

// evalTerm evaluates one operand of an atom. vars maps canonical access paths to model
// variables; env gives the model variables' values (a variable absent from env is undefined
// in this valuation, e.g. the pointee of a nil pointer).
func evalTerm(t string, vars map[string]string, env map[string]int64) (int64, string) {
	switch t {
	case "nil", "false", `""`:
		return 0, ""
	case "true":
		return 1, ""
	}
	if n, err := strconv.ParseInt(t, 10, 64); err == nil {
		return n, ""
	}
	// the first index of a rotated range loop
	if t == "(-1 + 1)" {
		return 0, ""
	}
	if v, ok := vars[t]; ok {
		if val, ok := env[v]; ok {
			return val, ""
		}
		return 0, "undefined:" + v
	}
	// a parenthesised comparison used as an operand: (x == nil), !(a < b)
	if isWholeParen(t) || strings.HasPrefix(t, "!") {
		if v, err := evalAPExpr(t, vars, env); err == "" {
			return v, ""
		} else if strings.HasPrefix(err, "undefined:") {
			return 0, err
		}
	}
	return 0, "unknown:" + t
}

// isWholeParen: t is "( … )" with the first parenthesis closed by the last one.
func isWholeParen(t string) bool {
	if !strings.HasPrefix(t, "(") || !strings.HasSuffix(t, ")") {
		return false
	}
	depth := 0
	for i, ch := range t {
		if ch == '(' {
			depth++
		} else if ch == ')' {
			depth--
			if depth == 0 {
				return i == len(t)-1
			}
		}
	}
	return false
}

func evalLit(l Lit, vars map[string]string, env map[string]int64) (bool, string) {
	a, e1 := evalTerm(l.Atom.L, vars, env)
	if e1 != "" {
		return false, e1
	}
	var res bool
	if l.Atom.Op == "true" {
		res = a != 0
	} else {
		b, e2 := evalTerm(l.Atom.R, vars, env)
		if e2 != "" {
			return false, e2
		}
		switch l.Atom.Op {
		case "==":
			res = a == b
		case "<":
			res = a < b
		case "<=":
			res = a <= b
		default:
			return false, "unknown-op:" + l.Atom.Op
		}
	}
	return res == l.Val, ""
}

// PathEval is the outcome of executing one path on a valuation.
type PathEval struct {
	Path *Path
	Env  map[string]int64 // final values of the model variables
}

// evalPath executes the events of p in program order on env: branch literals must hold;
// stores to tracked access paths update the valuation. Literals over access paths that are
// not tracked are treated as unconstrained when lenient is set.
func evalPath(p *Path, vars map[string]string, env0 map[string]int64, lenient bool) (ok bool, final map[string]int64, problem string) {
	env := map[string]int64{}
	for k, v := range env0 {
		env[k] = v
	}
	for _, ev := range p.Events {
		if ev.Lit != nil {
			holds, err := evalLit(*ev.Lit, vars, env)
			if err != "" {
				if strings.HasPrefix(err, "unknown:") {
					if lenient || ev.Lit.Inl {
						continue
					}
					return false, nil, "a branch reads " + strings.TrimPrefix(err, "unknown:") + ", which is not one of the decision's recognised inputs (condition: " + ev.Lit.Atom.String() + ")"
				}
				if strings.HasPrefix(err, "undefined:") {
					return false, nil, "the path evaluates " + ev.Lit.Atom.String() + " although " + strings.TrimPrefix(err, "undefined:") + " is undefined here (nil dereference)"
				}
				return false, nil, err
			}
			if !holds {
				return false, nil, ""
			}
			continue
		}
		e := ev.Eff
		if e.Kind == "store" || e.Kind == "mapupdate" {
			if v, tracked := vars[e.Target]; tracked {
				val, err := evalTerm(e.Val, vars, env)
				if err != "" {
					// non-nil pointer / unknown value: model as 1 for pointer-ish vars
					val = 1
				}
				env[v] = val
			}
		}
	}
	return true, env, ""
}

// selectPaths returns every path consistent with the valuation.
func selectPaths(paths []*Path, vars map[string]string, env map[string]int64, lenient bool) ([]PathEval, string) {
	var out []PathEval
	for _, p := range paths {
		ok, fin, problem := evalPath(p, vars, env, lenient)
		if problem != "" {
			return nil, problem
		}
		if ok {
			out = append(out, PathEval{Path: p, Env: fin})
		}
	}
	return out, ""
}

// selectPath returns the unique path whose literals all hold in env.
func selectPath(paths []*Path, vars map[string]string, env map[string]int64) (*Path, string) {
	sel, problem := selectPaths(paths, vars, env, false)
	if problem != "" {
		return nil, problem
	}
	if len(sel) == 1 {
		return sel[0].Path, ""
	}
	return nil, fmt.Sprintf("%d paths are consistent with the valuation (expected exactly 1)", len(sel))
}
