package main

import (
	"encoding/json"
	"fmt"
	"os"
	"os/exec"
	"path/filepath"
	"runtime"
	"sort"
	"strings"
	"sync"
)

// Mutant is one single-edit variant of /repo used by the sensitivity audit: a textual
// replacement in one file, loaded through packages.Config.Overlay (in memory; /repo is not
// touched). A mutant whose anchor text no longer occurs is skipped and reported.
type Mutant struct {
	ID       string `json:"id"`
	Property string `json:"property"`
	File     string `json:"file"`
	Old      string `json:"old"`
	New      string `json:"new"`
	Why      string `json:"why"`
	// Equivalent marks a behaviour-preserving edit: the rules must stay silent on it.
	Equivalent bool `json:"equivalent,omitempty"`
	// Edits are further replacements of the same variant (e.g. a rename across files);
	// All replaces every occurrence.
	Edits []MutEdit `json:"edits,omitempty"`
	All   bool      `json:"all,omitempty"`
}

type MutEdit struct {
	File string `json:"file"`
	Old  string `json:"old"`
	New  string `json:"new"`
	All  bool   `json:"all,omitempty"`
}

type mutantResult struct {
	ID       string   `json:"id"`
	Why      string   `json:"why"`
	Status   string   `json:"status"` // killed | survived | skipped | silent(ok) | false-alarm | error
	Reported []string `json:"reported,omitempty"`
}

func loadMutants(vdir string) ([]Mutant, error) {
	var all []Mutant
	files, _ := filepath.Glob(filepath.Join(vdir, "audit", "*.json"))
	sort.Strings(files)
	for _, f := range files {
		b, err := os.ReadFile(f)
		if err != nil {
			return nil, err
		}
		var ms []Mutant
		if err := json.Unmarshal(b, &ms); err != nil {
			return nil, fmt.Errorf("%s: %w", f, err)
		}
		all = append(all, ms...)
	}
	return all, nil
}

// runAudit is the sensitivity audit of the thorough tier (DESIGN.md section 7): it measures
// that the property's obligations are live (every seeded single-edit break is reported) and
// exact (every seeded behaviour-preserving edit is not). It never changes the verdict on /repo.
func runAudit(def *PropDef, repo, vdir string, seed int64) map[string]interface{} {
	muts, err := loadMutants(vdir)
	if err != nil {
		return map[string]interface{}{"error": err.Error()}
	}
	var mine []Mutant
	for _, m := range muts {
		if m.Property == def.ID {
			mine = append(mine, m)
		}
	}
	if len(mine) == 0 {
		return nil
	}
	// VERIF_SEED rotates the order (all variants are always run)
	if n := len(mine); n > 0 && seed != 0 {
		k := int(((seed % int64(n)) + int64(n)) % int64(n))
		mine = append(mine[k:], mine[:k]...)
	}
	exe, _ := os.Executable()
	results := make([]mutantResult, len(mine))
	sem := make(chan struct{}, 6)
	var wg sync.WaitGroup
	for i, m := range mine {
		wg.Add(1)
		go func(i int, m Mutant) {
			defer wg.Done()
			sem <- struct{}{}
			defer func() { <-sem }()
			results[i] = runMutant(exe, def, repo, vdir, m)
		}(i, m)
	}
	wg.Wait()
	// seeded changes from independent sub-agents (/verif/seeded): every change that this
	// property's check reported when it was confirmed must still be reported
	for _, sr := range runSeeds(exe, def, repo, vdir) {
		results = append(results, sr)
	}
	sort.Slice(results, func(i, j int) bool { return results[i].ID < results[j].ID })
	counts := map[string]int{}
	var problems []mutantResult
	for _, r := range results {
		counts[r.Status]++
		if r.Status == "survived" || r.Status == "false-alarm" || r.Status == "error" {
			problems = append(problems, r)
		}
	}
	return map[string]interface{}{
		"variants": len(results), "status_counts": counts, "results": results, "survivors_and_false_alarms": problems,
		"note": "variants are single textual edits of /repo's current files loaded through an in-memory overlay; killed = the property's rules reported a violation on the variant; silent(ok) = a behaviour-preserving variant on which the rules stayed silent",
	}
}

func runMutant(exe string, def *PropDef, repo, vdir string, m Mutant) mutantResult {
	res := mutantResult{ID: m.ID, Why: m.Why}
	edits := append([]MutEdit{{File: m.File, Old: m.Old, New: m.New, All: m.All}}, m.Edits...)
	files := map[string]string{}
	for _, e := range edits {
		path := filepath.Join(repo, e.File)
		cur, ok := files[path]
		if !ok {
			src, err := os.ReadFile(path)
			if err != nil {
				res.Status = "skipped"
				res.Reported = []string{"cannot read " + e.File}
				return res
			}
			cur = string(src)
		}
		if !strings.Contains(cur, e.Old) {
			res.Status = "skipped"
			res.Reported = []string{"anchor text not found in " + e.File + " (the construct was refactored): variant not applicable"}
			return res
		}
		if e.All {
			cur = strings.ReplaceAll(cur, e.Old, e.New)
		} else {
			cur = strings.Replace(cur, e.Old, e.New, 1)
		}
		files[path] = cur
	}
	ovf, _ := os.CreateTemp("", "prunnerlint-overlay-*.json")
	defer os.Remove(ovf.Name())
	b, _ := json.Marshal(files)
	ovf.Write(b)
	ovf.Close()
	out, _ := os.CreateTemp("", "prunnerlint-obs-*.json")
	out.Close()
	defer os.Remove(out.Name())
	c := exec.Command(exe, "-property", def.ID, "-repo", repo, "-verif", vdir, "-overlay", ovf.Name(), "-obs-out", out.Name())
	if o, err := c.CombinedOutput(); err != nil {
		res.Status = "error"
		res.Reported = []string{err.Error() + ": " + string(o)}
		return res
	}
	ob, _ := os.ReadFile(out.Name())
	var v struct {
		Obs   []Ob   `json:"obs"`
		Error string `json:"error"`
	}
	if err := json.Unmarshal(ob, &v); err != nil {
		res.Status = "error"
		res.Reported = []string{err.Error()}
		return res
	}
	if v.Error != "" {
		// a variant that does not type-check is not a valid variant
		res.Status = "skipped"
		res.Reported = []string{"variant does not load/type-check: " + firstLine(v.Error)}
		if strings.Contains(v.Error, "checker panic") {
			res.Status = "error"
		}
		return res
	}
	for _, o := range v.Obs {
		if o.Verdict == "violation" || o.Verdict == "undecided" {
			res.Reported = append(res.Reported, o.Rule+" @ "+o.Construct)
		}
	}
	switch {
	case m.Equivalent && len(res.Reported) == 0:
		res.Status = "silent(ok)"
	case m.Equivalent:
		res.Status = "false-alarm"
	case len(res.Reported) > 0:
		res.Status = "killed"
	default:
		res.Status = "survived"
	}
	if len(res.Reported) > 6 {
		res.Reported = append(res.Reported[:6], fmt.Sprintf("… and %d more", len(res.Reported)-6))
	}
	return res
}

func firstLine(s string) string {
	if i := strings.IndexByte(s, '\n'); i >= 0 {
		return s[:i]
	}
	return s
}

// runSeeds re-evaluates the property on every seeded change (seeded/<id>/patch.diff) that
// lists the property under detected_by in its meta.json. The patch is applied to copies of
// the touched files and loaded as an overlay; /repo is not touched.
func runSeeds(exe string, def *PropDef, repo, vdir string) []mutantResult {
	out := runSeedDir(exe, def, repo, vdir, "seeded", false)
	// behaviour-preserving refactorings from independent sub-agents: this property's rules must stay silent on every one
	if os.Getenv("PRUNNERLINT_AUDIT_NO_EQUIV") == "" { // development aid: the full sweep is tools/all_equiv.sh
		out = append(out, runSeedDir(exe, def, repo, vdir, "seeded-equivalent", true)...)
	}
	return out
}

func runSeedDir(exe string, def *PropDef, repo, vdir, sub string, equivalent bool) []mutantResult {
	metas, _ := filepath.Glob(filepath.Join(vdir, sub, "*", "meta.json"))
	sort.Strings(metas)
	var out []mutantResult
	var mu sync.Mutex
	var wg sync.WaitGroup
	par := runtime.NumCPU() - 4
	if par < 4 {
		par = 4
	}
	sem := make(chan struct{}, par)
	for _, mf := range metas {
		mf := mf
		b, err := os.ReadFile(mf)
		if err != nil {
			continue
		}
		var meta struct {
			ID         string              `json:"id"`
			DetectedBy map[string][]string `json:"detected_by"`
			Files      []string            `json:"files_changed"`
		}
		if json.Unmarshal(b, &meta) != nil || !equivalent && len(meta.DetectedBy[def.ID]) == 0 {
			continue
		}
		wg.Add(1)
		go func() {
			defer wg.Done()
			sem <- struct{}{}
			defer func() { <-sem }()
			res := mutantResult{ID: "seed:" + meta.ID, Why: "seeded change " + meta.ID + " (independent sub-agent), expected to be reported by " + def.ID}
			if equivalent {
				res = mutantResult{ID: "equiv:" + meta.ID, Why: "behaviour-preserving refactoring " + meta.ID + " (independent sub-agent): the rules must stay silent"}
			}
			tmp, err := os.MkdirTemp("", "prunnerlint-seed-*")
			if err != nil {
				return
			}
			patch := filepath.Join(filepath.Dir(mf), "patch.diff")
			okCopy := true
			for _, f := range meta.Files {
				src, err := os.ReadFile(filepath.Join(repo, f))
				if err != nil {
					continue // a file the patch creates
				}
				dst := filepath.Join(tmp, f)
				if os.MkdirAll(filepath.Dir(dst), 0o755) != nil || os.WriteFile(dst, src, 0o644) != nil {
					okCopy = false
				}
			}
			cmd := exec.Command("patch", "-p1", "-s", "-f", "-d", tmp, "-i", patch)
			if o, err := cmd.CombinedOutput(); err != nil || !okCopy {
				res.Status = "skipped"
				res.Reported = []string{"patch no longer applies to the current tree: " + firstLine(string(o))}
				os.RemoveAll(tmp)
				mu.Lock()
				out = append(out, res)
				mu.Unlock()
				return
			}
			files := map[string]string{}
			for _, f := range meta.Files {
				if nb, err := os.ReadFile(filepath.Join(tmp, f)); err == nil {
					files[filepath.Join(repo, f)] = string(nb)
				}
			}
			os.RemoveAll(tmp)
			ovf, _ := os.CreateTemp("", "prunnerlint-overlay-*.json")
			ob, _ := json.Marshal(files)
			ovf.Write(ob)
			ovf.Close()
			outf, _ := os.CreateTemp("", "prunnerlint-obs-*.json")
			outf.Close()
			c := exec.Command(exe, "-property", def.ID, "-repo", repo, "-verif", vdir, "-overlay", ovf.Name(), "-obs-out", outf.Name())
			o, err := c.CombinedOutput()
			rb, _ := os.ReadFile(outf.Name())
			os.Remove(ovf.Name())
			os.Remove(outf.Name())
			var v struct {
				Obs   []Ob   `json:"obs"`
				Error string `json:"error"`
			}
			if err != nil || json.Unmarshal(rb, &v) != nil {
				res.Status = "error"
				res.Reported = []string{string(o)}
				mu.Lock()
				out = append(out, res)
				mu.Unlock()
				return
			}
			if v.Error != "" {
				res.Status = "skipped"
				res.Reported = []string{"patched tree does not load: " + firstLine(v.Error)}
				mu.Lock()
				out = append(out, res)
				mu.Unlock()
				return
			}
			for _, ob := range v.Obs {
				if ob.Verdict == "violation" || ob.Verdict == "undecided" {
					res.Reported = append(res.Reported, ob.Rule+" @ "+ob.Construct)
				}
			}
			switch {
			case equivalent && len(res.Reported) == 0:
				res.Status = "silent(ok)"
			case equivalent:
				res.Status = "false-alarm"
			case len(res.Reported) > 0:
				res.Status = "killed"
			default:
				res.Status = "survived"
			}
			if len(res.Reported) > 4 {
				res.Reported = append(res.Reported[:4], fmt.Sprintf("… and %d more", len(res.Reported)-4))
			}
			mu.Lock()
			out = append(out, res)
			mu.Unlock()
		}()
	}
	wg.Wait()
	sort.Slice(out, func(i, j int) bool { return out[i].ID < out[j].ID })
	return out
}
