package main

// runAudit is the sensitivity audit of the thorough tier (DESIGN.md section 7).
func runAudit(def *PropDef, repo, vdir string, seed int64) map[string]interface{} {
	return nil
}
