package main

import (
	"fmt"
	"go/types"
	"sort"
	"strconv"
	"strings"

	"golang.org/x/tools/go/ssa"
)

func init() {
	register(&PropDef{
		ID:          "C10",
		Level:       "other",
		Explanation: "Structural necessary conditions of a faithful restart, decided from the source: (1) the writer's, the reader's and the reporter's field tables agree — every job/task field that the API mapper reads or that the runner uses on loaded jobs is saved and restored under the same name through an inverse converter pair (whose bodies are checked: err ↦ &err.Error(), s ↦ errors.New(*s), text unchanged), with usable JSON tags; (2) the store's codec value resolves (through the dependency's own initialiser) to a configuration without float truncation; (3) the load loop's normalisation table over (started, completed, canceled) leaves every job terminal and already-terminal rows unchanged (all 8 rows); (4) every persisted job is inserted once into both indexes, the snapshot appends every job of the id index, and loading never touches the wait list. Decides these shapes, not the JSON round trip of arbitrary values. (5) the slice stored into the restored job's Tasks is the one the loop over the persisted tasks fills with the rebuilt jobTasks.",
		Trusted:     []string{"jsoniter/encoding-json round trip of values for a non-lossy configuration", "time.Time JSON precision"},
		NotDecided:  []string{"JSON round trip of arbitrary values (library)", "time precision", "which prefix of history a crash preserves (C09/C11)"},
		Check:       checkC10,
	})
}

var convInverse = map[string]string{"helper.ErrToStrPtr": "helper.StrPtrToErr"}

func checkC10(w *World, r *Report) {
	checkConvInverse(w, r)
	// ---- 1. tables agree
	report := w.FieldReads("server", "PipelineJob", "jobTask", "TaskDef")
	// fields the runner itself needs on loaded jobs (retention decision, running predicate, indexes)
	for _, f := range []string{"ID", "Pipeline", "Created", "Start", "Completed", "Canceled"} {
		if _, ok := report["PipelineJob."+f]; !ok {
			report["PipelineJob."+f] = 0
		}
	}
	saveJob := pickMap(w.FieldMaps("store", "PersistedJob"), "")
	saveTask := pickMap(w.FieldMaps("store", "PersistedTask"), "")
	var loadJob, loadTask *FieldMap
	for _, m := range w.FieldMaps("", "PipelineJob") {
		if srcTypeCount(m, "PersistedJob") > 0 {
			loadJob = m
		}
	}
	for _, m := range w.FieldMaps("", "jobTask") {
		if srcTypeCount(m, "PersistedTask") > 0 {
			loadTask = m
		}
	}
	var loadTaskDef *FieldMap
	for _, m := range w.FieldMaps("definition", "TaskDef") {
		if srcTypeCount(m, "PersistedTask") > 0 {
			loadTaskDef = m
		}
	}
	if saveJob == nil || saveTask == nil || loadJob == nil || loadTask == nil {
		r.Undecided("tables.anchors", "save/load mappers", "-", fmt.Sprintf("composite literals not found: PersistedJob=%v PersistedTask=%v PipelineJob←PersistedJob=%v jobTask←PersistedTask=%v", saveJob != nil, saveTask != nil, loadJob != nil, loadTask != nil))
	} else {
		r.Anchor("save mapper (builds store.PersistedJob)", saveJob.Func)
		r.Anchor("load mapper (builds PipelineJob from PersistedJob)", loadJob.Func)
		r.Anchor("report mapper package", "server")
		checkSaveMap(w, r, saveJob, "PipelineJob")
		checkSaveMap(w, r, saveTask, "jobTask")
		checkLoadMap(w, r, loadJob, "PersistedJob", saveJob)
		checkLoadMap(w, r, loadTask, "PersistedTask", saveTask)
		checkTasksRestored(w, r, loadJob)
		checkTasksSaved(w, r)
		if loadTaskDef != nil {
			checkLoadMap(w, r, loadTaskDef, "PersistedTask", saveTask)
		}
		// coverage of the required (reported/used) fields
		var keys []string
		for k := range report {
			keys = append(keys, k)
		}
		sort.Strings(keys)
		for _, k := range keys {
			parts := strings.SplitN(k, ".", 2)
			owner, field := parts[0], parts[1]
			pos := "-"
			if report[k] != 0 {
				pos = w.Pos(report[k])
			}
			var sv *FieldMap
			var lds []*FieldMap
			switch owner {
			case "PipelineJob":
				sv, lds = saveJob, []*FieldMap{loadJob}
			case "jobTask":
				sv, lds = saveTask, []*FieldMap{loadTask, loadTaskDef}
				if field == "TaskDef" {
					continue
				}
			case "TaskDef":
				sv, lds = saveTask, []*FieldMap{loadTaskDef, loadTask}
			}
			if owner == "PipelineJob" && field == "Tasks" {
				e := sv.Get("Tasks")
				r.Check(e != nil && loadTask != nil, "tables.cover", k, pos, "tasks are saved as a list of PersistedTask and rebuilt on load", "the job's tasks are not saved/restored")
				continue
			}
			saved := false
			for _, e := range sv.Entries {
				if e.SrcField == field && (e.SrcType == owner || owner == "TaskDef" && e.SrcType == "jobTask" || owner == "jobTask" && e.SrcType == "TaskDef") {
					saved = true
				}
			}
			restored := false
			for _, ld := range lds {
				if ld == nil {
					continue
				}
				if e := ld.Get(field); e != nil && e.SrcField == field && strings.HasPrefix(e.SrcType, "Persisted") {
					restored = true
				}
			}
			switch {
			case !saved:
				r.Viol("tables.cover", k, pos, fmt.Sprintf("%s is reported by the API (package server) or used by the runner after a load, but the save mapper %s does not persist it: it is lost by a restart", k, sv.Func))
			case !restored:
				r.Viol("tables.cover", k, pos, fmt.Sprintf("%s is persisted but the load mapper does not restore it: it is lost by a restart", k))
			default:
				r.OK("tables.cover", k, pos, "reported/used ⇒ saved and restored")
			}
		}
	}
	// tags
	for _, tn := range []string{"PersistedJob", "PersistedTask", "PersistedData"} {
		T := w.NamedType("store", tn)
		if T == nil {
			r.Undecided("tables.tags", tn, "-", "type not found")
			continue
		}
		st := structOf(T)
		seen := map[string]string{}
		for i := 0; i < st.NumFields(); i++ {
			f := st.Field(i)
			name, _ := jsonTag(f, st.Tag(i))
			key := tn + "." + f.Name()
			switch {
			case name == "-":
				r.Viol("tables.tags", key, w.Pos(f.Pos()), "json tag \"-\": the field is never written to the store")
			case !f.Exported():
				r.Viol("tables.tags", key, w.Pos(f.Pos()), "unexported field: the codec does not persist it")
			case seen[strings.ToLower(name)] != "":
				r.Viol("tables.tags", key, w.Pos(f.Pos()), "JSON name "+name+" collides with field "+seen[strings.ToLower(name)])
			default:
				r.OK("tables.tags", key, w.Pos(f.Pos()), "persisted as \""+name+"\"")
			}
			seen[strings.ToLower(name)] = f.Name()
		}
	}

	checkCodecLossless(w, r)
	checkLoadNormalisation(w, r)
	r.Floor("tables.cover", 18)
	r.Floor("tables.save", 15)
	r.Floor("tables.load", 15)
	r.Floor("tables.tags", 20)
	r.Floor("codec", 1)
	r.Floor("normalise", 1)
	r.Floor("index", 3)
}

func pickMap(ms []*FieldMap, _ string) *FieldMap {
	var best *FieldMap
	for _, m := range ms {
		if best == nil || len(m.Entries) > len(best.Entries) {
			best = m
		}
	}
	return best
}

func srcTypeCount(m *FieldMap, t string) int {
	n := 0
	for _, e := range m.Entries {
		if e.SrcType == t {
			n++
		}
	}
	return n
}

func checkSaveMap(w *World, r *Report, m *FieldMap, srcType string) {
	for _, e := range m.Entries {
		key := m.Target + "." + e.Field + " ← " + e.Expr
		pos := w.Pos(e.Pos)
		if e.SrcField == "" {
			// computed value (the task list)
			r.OK("tables.save", key, pos, "computed value")
			continue
		}
		okName := e.SrcField == e.Field
		okConv := e.Conv == "" || convInverse[e.Conv] != ""
		if e.Field == "Tasks" && e.SrcField == "Tasks" && e.Conv != "" && strings.HasSuffix(m.Target, "PersistedJob") {
			// the task list converted by a helper of the module: the element table (PersistedTask ← jobTask) is checked where
			// the helper builds the elements, the freshness of the list by tables.tasks-saved
			r.OK("tables.save", key, pos, "task list converted by "+e.Conv+" (elements: PersistedTask table)")
			continue
		}
		switch {
		case !okName:
			r.Viol("tables.save", key, pos, fmt.Sprintf("cross-wired: store field %s is filled from %s.%s", e.Field, e.SrcType, e.SrcField))
		case !okConv:
			r.Viol("tables.save", key, pos, "converter "+e.Conv+" has no registered inverse for loading")
		default:
			r.OK("tables.save", key, pos, "name-identical"+convNote(e.Conv))
		}
	}
}

// checkConvInverse: the converter pair used for error texts is an inverse pair by shape — saving keeps
// the text unchanged (nil ↦ nil, err ↦ &err.Error()), loading rebuilds an error with exactly that text
// (nil ↦ nil, s ↦ errors.New(*s); the empty text may map to nil).
func checkConvInverse(w *World, r *Report) {
	enc := w.FuncByName("helper", "ErrToStrPtr")
	dec := w.FuncByName("helper", "StrPtrToErr")
	if enc == nil || dec == nil {
		r.Undecided("tables.conv-inverse", "helper.ErrToStrPtr / helper.StrPtrToErr", "-", "converter pair not found")
		return
	}
	okE, nE := true, 0
	for _, p := range w.EnumPaths(enc, EnumOpts{}).Paths {
		if p.End != "return" || len(p.Ret) != 1 {
			continue
		}
		isNil := false
		for _, l := range p.Lits {
			if l.Atom.Op == "==" && l.Atom.L == "arg0" && l.Atom.R == "nil" {
				isNil = l.Val
			}
		}
		nE++
		if isNil {
			okE = okE && p.Ret[0] == "nil"
			continue
		}
		cell := strings.TrimPrefix(p.Ret[0], "&")
		stored := ""
		for _, e := range p.Effects {
			if e.Kind == "store" && e.Target == cell {
				stored = e.Val
			}
		}
		okE = okE && strings.HasPrefix(p.Ret[0], "&local:") && stored == "arg0.Error()"
	}
	r.Check(okE && nE >= 2, "tables.conv-inverse", FuncName(enc)+": error ↦ text", w.Pos(enc.Pos()), "nil ↦ nil, err ↦ pointer to err.Error() unchanged", "the save converter does not store the error's text unchanged")
	okD, nD := true, 0
	for _, p := range w.EnumPaths(dec, EnumOpts{}).Paths {
		if p.End != "return" || len(p.Ret) != 1 {
			continue
		}
		nD++
		if p.Ret[0] == "nil" {
			// only for a nil pointer or the empty text
			okNil := false
			for _, l := range p.Lits {
				if l.Atom.Op == "==" && (l.Atom.L == "arg0" && l.Atom.R == "nil" || l.Atom.L == "*arg0" && l.Atom.R == "\"\"") && l.Val {
					okNil = true
				}
			}
			okD = okD && okNil
			continue
		}
		okD = okD && (p.Ret[0] == "errors.New(*arg0)" || strings.HasSuffix(p.Ret[0], "errors.New(*arg0)"))
	}
	r.Check(okD && nD >= 2, "tables.conv-inverse", FuncName(dec)+": text ↦ error", w.Pos(dec.Pos()), "nil/empty ↦ nil, s ↦ errors.New(*s) with the text unchanged", "the load converter does not rebuild the error with exactly the stored text: a failed job is reported differently after a restart")
}

func convNote(c string) string {
	if c == "" {
		return ""
	}
	return " through " + c
}

func checkLoadMap(w *World, r *Report, m *FieldMap, srcType string, save *FieldMap) {
	for _, e := range m.Entries {
		key := m.Target + "." + e.Field + " ← " + e.Expr
		pos := w.Pos(e.Pos)
		if e.SrcField == "" {
			r.OK("tables.load", key, pos, "computed value")
			continue
		}
		if e.SrcType != srcType {
			r.OK("tables.load", key, pos, "not from the store record")
			continue
		}
		// converter must be the inverse of the save converter of the same field
		wantConv := ""
		if se := save.Get(e.SrcField); se != nil && se.Conv != "" {
			wantConv = convInverse[se.Conv]
		}
		switch {
		case e.SrcField != e.Field:
			r.Viol("tables.load", key, pos, fmt.Sprintf("cross-wired: %s.%s is restored from store field %s", m.Target, e.Field, e.SrcField))
		case e.Conv != wantConv:
			r.Viol("tables.load", key, pos, fmt.Sprintf("converter mismatch: restored through %q but saved through the inverse of %q", e.Conv, wantConv))
		default:
			r.OK("tables.load", key, pos, "name-identical"+convNote(e.Conv))
		}
	}
}

// ---------------------------------------------------------------------------------
// 2. lossless codec

func checkCodecLossless(w *World, r *Report) {
	sp := w.Pkg("store")
	if sp == nil {
		return
	}
	// the codec values used by functions of package store that encode/decode
	used := map[string]ssa.Value{}
	for _, fn := range w.ModFuncs {
		if fn.Package() != sp {
			continue
		}
		for _, ci := range findCalls(fn, func(n string, _ *ssa.CallCommon) bool {
			return strings.HasSuffix(n, "NewEncoder") || strings.HasSuffix(n, "NewDecoder") || strings.HasSuffix(n, ".Marshal") || strings.HasSuffix(n, ".Unmarshal")
		}) {
			c := ci.Common()
			if c.IsInvoke() {
				used[w.AP(c.Value)] = c.Value
			} else if c.Signature().Recv() != nil && len(c.Args) > 0 {
				used[w.AP(c.Args[0])] = c.Args[0]
			} else {
				used["package "+calleeName(c)[:strings.LastIndex(calleeName(c), ".")]] = nil
			}
		}
	}
	if len(used) == 0 {
		r.Undecided("codec.lossless", "package store: codec", "-", "no encoder/decoder call found in package store")
		return
	}
	var names []string
	for k := range used {
		names = append(names, k)
	}
	sort.Strings(names)
	for _, name := range names {
		v := used[name]
		key := "store codec " + name
		if v == nil {
			r.Check(strings.HasSuffix(name, "encoding/json"), "codec.lossless", key, "-", "encoding/json: floats are written with full precision", "unknown codec package "+name)
			continue
		}
		lossy, desc, pos, decided := w.codecTruncatesFloats(v, 0)
		switch {
		case !decided:
			r.Undecided("codec.lossless", key, pos, "cannot resolve the codec configuration: "+desc)
		case lossy:
			r.Viol("codec.lossless", key, pos, "the store's codec resolves to "+desc+": floats are written with 6 digits, so a job variable such as 1e-9 is restored as 0")
		default:
			r.OK("codec.lossless", key, pos, "resolves to "+desc+" (no float truncation)")
		}
	}
}

// codecTruncatesFloats resolves a jsoniter API value to the Config literal that produced
// it (following package-level variables into the dependency's own initialiser).
func (w *World) codecTruncatesFloats(v ssa.Value, depth int) (lossy bool, desc string, pos string, decided bool) {
	if depth > 6 {
		return false, "resolution too deep", "-", false
	}
	v = w.Resolve(v)
	switch x := v.(type) {
	case *ssa.UnOp:
		if g, ok := x.X.(*ssa.Global); ok {
			// find the stores to this global
			var stores []*ssa.Store
			for _, mem := range g.Pkg.Members {
				fn, ok := mem.(*ssa.Function)
				if !ok {
					continue
				}
				for _, f := range withClosures(fn) {
					allInstrs(f, func(in ssa.Instruction) {
						if st, ok := in.(*ssa.Store); ok && st.Addr == ssa.Value(g) {
							stores = append(stores, st)
						}
					})
				}
			}
			if len(stores) != 1 {
				return false, fmt.Sprintf("global %s has %d initialising stores", g.Name(), len(stores)), "-", false
			}
			l, d, p, dec := w.codecTruncatesFloats(stores[0].Val, depth+1)
			if !strings.Contains(d, g.Name()) {
				d = globalQual(g) + " = " + d
			}
			if w.InModule(stores[0].Parent()) {
				p = w.InstrPos(stores[0])
			}
			return l, d, p, dec
		}
	case *ssa.Call:
		n := calleeName(&x.Call)
		if strings.HasSuffix(n, "json-iterator/go.(Config).Froze") {
			cfg := x.Call.Args[0]
			ld, ok := cfg.(*ssa.UnOp)
			if !ok {
				return false, "Froze receiver is not a literal", "-", false
			}
			al, ok := ld.X.(*ssa.Alloc)
			if !ok {
				return false, "Froze receiver is not a local literal", "-", false
			}
			lossy := false
			var set []string
			if al.Referrers() != nil {
				for _, ref := range *al.Referrers() {
					fa, ok := ref.(*ssa.FieldAddr)
					if !ok || fa.Referrers() == nil {
						continue
					}
					fname := fieldName(fa.X.Type(), fa.Field)
					for _, rr := range *fa.Referrers() {
						if st, ok := rr.(*ssa.Store); ok && st.Addr == ssa.Value(fa) {
							set = append(set, fname+":"+w.AP(st.Val))
							if fname == "MarshalFloatWith6Digits" && !isBoolConst(st.Val, false) {
								lossy = true
							}
						}
					}
				}
			}
			sort.Strings(set)
			return lossy, "jsoniter.Config{" + strings.Join(set, ", ") + "}.Froze()", w.InstrPos(x), true
		}
	}
	return false, "value " + w.AP(v), "-", false
}

func globalQual(g *ssa.Global) string {
	if g.Pkg != nil {
		p := g.Pkg.Pkg.Path()
		return p[strings.LastIndex(p, "/")+1:] + "." + g.Name()
	}
	return g.Name()
}

// ---------------------------------------------------------------------------------
// 3./4. load loop: normalisation table, index insertion

func checkLoadNormalisation(w *World, r *Report) {
	// anchor: the place where a stored job becomes a *PipelineJob — the call of the load mapper,
	// or (mapper inlined) the PipelineJob literal in the load loop
	loadFn, mapCall, mapper := loadAnchorsX(w)
	if loadFn == nil {
		r.Undecided("normalise.anchors", "load mapper", "-", "no function PersistedJob → *PipelineJob is called, and no PipelineJob literal is built in a loop over the stored jobs")
		return
	}
	r.Anchor("load function (calls the load mapper in a loop)", FuncName(loadFn))
	isRunning := resolveRoles(w).RunPred
	runVars := map[string]string{"recv.Start": "startptr", "recv.Completed": "completed", "recv.Canceled": "canceled"}
	runTable := map[[3]int64]int64{}
	if isRunning == nil {
		r.Undecided("normalise.anchors", "running predicate", "-", "(*PipelineJob).isRunning not found")
		return
	}
	rp := w.EnumPaths(isRunning, EnumOpts{})
	r.Count("paths", len(rp.Paths))
	for _, s := range []int64{0, 1} {
		for _, c := range []int64{0, 1} {
			for _, x := range []int64{0, 1} {
				env := map[string]int64{"startptr": s, "completed": c, "canceled": x}
				p, why := selectPath(rp.Paths, runVars, env)
				if p == nil || len(p.Ret) != 1 {
					r.Undecided("normalise.running-predicate", FuncName(isRunning), w.Pos(isRunning.Pos()), "cannot evaluate the running predicate: "+why)
					return
				}
				v, err := evalBoolTerm(p.Ret[0], runVars, env)
				if err != "" {
					r.Undecided("normalise.running-predicate", FuncName(isRunning), w.Pos(isRunning.Pos()), "cannot evaluate result "+p.Ret[0]+": "+err)
					return
				}
				runTable[[3]int64{s, c, x}] = v
				r.Count("valuations", 1)
			}
		}
	}

	J := strings.TrimPrefix(w.AP(mapCall.(ssa.Value)), "&")
	Jval := w.AP(mapCall.(ssa.Value))
	vars := map[string]string{
		J + ".Start": "startptr", J + ".Completed": "completed", J + ".Canceled": "canceled",
		FuncName(isRunning) + "(" + J + ")": "isrunning", FuncName(isRunning) + "(" + Jval + ")": "isrunning",
	}
	// job predicates other than the running predicate (e.g. a named "is waiting") are spliced in
	res := w.EnumPaths(loadFn, EnumOpts{Start: mapCall.Block(), Inline: true, Opaque: func(f *ssa.Function) bool {
		return f == mapper || f == isRunning || w.statelessCallee(f)
	}})
	r.Count("paths", len(res.Paths))
	// the loop over the stored jobs lies in the load function itself, or in its only caller
	loopInLoadFn := loopHeaderOf(mapCall.Block()) != nil
	// with the mapper inlined, the literal is first filled from the stored record P: P's state
	// fields are the same inputs, and those copies are not "rewrites"
	for _, p := range res.Paths {
		for _, e := range p.Effects {
			if e.Kind == "store" && e.Target == J+".ID" && strings.HasSuffix(e.Val, ".ID") {
				P := strings.TrimSuffix(e.Val, ".ID")
				vars[P+".Start"], vars[P+".Completed"], vars[P+".Canceled"] = "startptr", "completed", "canceled"
			}
		}
	}
	isConstVal := func(v string) bool {
		if v == "true" || v == "false" || v == "nil" || strings.HasPrefix(v, "\"") {
			return true
		}
		_, err := strconv.ParseInt(v, 10, 64)
		return err == nil
	}
	if res.Truncated || len(res.Paths) == 0 {
		r.Undecided("normalise.table", FuncName(loadFn), w.InstrPos(mapCall), "cannot enumerate the load loop body")
		return
	}
	bad := 0
	first := ""
	rows := 0
	for _, s := range []int64{0, 1} {
		for _, c := range []int64{0, 1} {
			for _, x := range []int64{0, 1} {
				rows++
				r.Count("valuations", 1)
				env := map[string]int64{"startptr": s, "completed": c, "canceled": x, "isrunning": runTable[[3]int64{s, c, x}]}
				sel, problem := selectPaths(res.Paths, vars, env, true)
				if problem != "" || len(sel) == 0 {
					bad++
					if first == "" {
						first = fmt.Sprintf("row started=%v completed=%v canceled=%v: %s (no consistent path)", s == 1, c == 1, x == 1, problem)
					}
					continue
				}
				for _, pe := range sel {
					// an already finished job is reported exactly as before: nothing of it (or of its tasks) is rewritten
					if x == 1 || (c == 1 && s == 1) {
						for _, e := range pe.Path.Effects {
							if e.Kind == "store" && strings.HasPrefix(e.Target, J+".") && (mapper != nil || isConstVal(e.Val)) {
								bad++
								if first == "" {
									first = fmt.Sprintf("row started=%v completed=%v canceled=%v (already finished): the load loop rewrites %s := %s", s == 1, c == 1, x == 1, strings.TrimPrefix(e.Target, J), e.Val)
								}
							}
						}
					}
					terminal := pe.Env["completed"] == 1 || pe.Env["canceled"] == 1
					alreadyTerminal := x == 1 || (c == 1 && s == 1)
					unchanged := pe.Env["completed"] == c && pe.Env["canceled"] == x && pe.Env["startptr"] == s
					if !terminal || (alreadyTerminal && !unchanged) {
						bad++
						if first == "" {
							first = fmt.Sprintf("row started=%v completed=%v canceled=%v → completed=%v canceled=%v on path %s", s == 1, c == 1, x == 1, pe.Env["completed"] == 1, pe.Env["canceled"] == 1, pe.Path.LitString())
						}
						break
					}
				}
			}
		}
	}
	r.Check(bad == 0, "normalise.table", FuncName(loadFn)+": (started, completed, canceled) table", w.InstrPos(mapCall),
		fmt.Sprintf("all %d rows end terminal (completed ∨ canceled); already-finished rows are unchanged, including their tasks (no store into the job on their paths)", rows),
		fmt.Sprintf("%d of %d rows violate the normalisation table; first: %s — a job that was waiting or running at the crash is reported as still waiting/running (and holds a slot) after the restart", bad, rows, first))

	// index insertion: on every path of the loop body, exactly one insertion into each index, of the built job
	okIdx := true
	detail := ""
	for _, p := range res.Paths {
		if loopInLoadFn && !strings.HasPrefix(p.End, "backedge") || !loopInLoadFn && p.End != "return" {
			continue
		}
		nID, nPipe := 0, 0
		for _, e := range p.Effects {
			if e.Kind != "mapupdate" {
				continue
			}
			if strings.HasPrefix(e.Target, "recv.jobsByID[") && strings.HasSuffix(e.Target, ".ID]") && e.Val == Jval {
				nID++
			}
			if strings.HasPrefix(e.Target, "recv.jobsByPipeline[") && strings.HasSuffix(e.Target, ".Pipeline]") && strings.Contains(e.Val, "append(") && strings.Contains(e.Val, Jval) {
				nPipe++
			}
		}
		if nID != 1 || nPipe != 1 {
			okIdx = false
			detail = fmt.Sprintf("path %s inserts %d× into the id index and %d× into the pipeline index", p.LitString(), nID, nPipe)
		}
	}
	r.Check(okIdx, "index.insert-once", FuncName(loadFn)+": index insertion", w.InstrPos(mapCall), "every path of the loop body inserts the built job exactly once into the id index (key: its ID) and the pipeline index (key: its Pipeline)", detail+": a persisted job is lost or duplicated by the restart")
	loadEveryJob(w, r, "index.every-stored-job", loadFn, mapCall)
	// loading does not touch the wait list
	touches := false
	for _, f := range withClosures(loadFn) {
		allInstrs(f, func(in ssa.Instruction) {
			if mu, ok := in.(*ssa.MapUpdate); ok && strings.Contains(w.AP(mu.Map), "waitListByPipeline") {
				touches = true
			}
		})
	}
	r.Check(!touches, "index.no-waitlist", FuncName(loadFn)+": wait list untouched", w.Pos(loadFn.Pos()), "loading never enqueues a job", "loading writes the wait list: restored jobs would hold queue capacity")

	// the snapshot appends every job of the id index
	saveMaps := w.FieldMaps("store", "PersistedJob")
	if len(saveMaps) > 0 {
		m := pickMap(saveMaps, "")
		var saveFn *ssa.Function
		for _, fn := range w.ModFuncs {
			if fn.Parent() == nil && fn.Object() != nil && fn.Object().Name() == m.Func && fn.Pos() <= m.Pos {
				saveFn = fn
			}
		}
		// the record literal may sit in a converter helper: the loop over the id index is then in
		// the save function (or the helper of it) that calls the converter
		if ro := resolveRoles(w); ro.Save != nil && saveFn != ro.Save {
			for _, f := range append([]*ssa.Function{ro.Save}, ro.helpersOf(ro.Save)...) {
				has := false
				allInstrs(f, func(in ssa.Instruction) {
					if rg, ok := in.(*ssa.Range); ok && w.AP(rg.X) == "recv.jobsByID" {
						has = true
					}
				})
				if has {
					saveFn = f
				}
			}
		}
		if saveFn != nil {
			var rng *ssa.Range
			allInstrs(saveFn, func(in ssa.Instruction) {
				if rg, ok := in.(*ssa.Range); ok && w.AP(rg.X) == "recv.jobsByID" {
					rng = rg
				}
			})
			okAll := false
			det := "the snapshot does not range over the id index"
			if rng != nil {
				// loop body start: the block after the Next's ok-test
				var body *ssa.BasicBlock
				for _, ref := range *rng.Referrers() {
					if nx, ok := ref.(*ssa.Next); ok {
						blk := nx.Block()
						if ifi, ok := blk.Instrs[len(blk.Instrs)-1].(*ssa.If); ok {
							_ = ifi
							body = blk.Succs[0]
						}
					}
				}
				if body != nil {
					pr := w.EnumPaths(saveFn, EnumOpts{Start: body})
					r.Count("paths", len(pr.Paths))
					okAll = len(pr.Paths) > 0
					// the records go to the Jobs field of the snapshot: stored there in the loop, or the
					// function hands the grown slice back and its caller stores it there
					viaReturn := false
					if rs := saveFn.Signature.Results(); rs.Len() == 1 && strings.HasSuffix(rs.At(0).Type().String(), "store.PersistedJob") {
						for _, caller := range w.ModFuncs {
							for _, ci := range findCalls(caller, func(_ string, c *ssa.CallCommon) bool { return c.StaticCallee() == saveFn }) {
								if cv, ok := ci.(*ssa.Call); ok && cv.Referrers() != nil {
									for _, ref := range *cv.Referrers() {
										if st, ok := ref.(*ssa.Store); ok && st.Val == ssa.Value(cv) && strings.HasSuffix(w.apAddr(st.Addr), ".Jobs") {
											viaReturn = true
										}
									}
								}
							}
						}
					}
					for _, p := range pr.Paths {
						n := 0
						for _, e := range p.Effects {
							if e.Kind == "store" && strings.HasSuffix(e.Target, ".Jobs") && strings.Contains(e.Val, "append(") {
								n++
							}
							if viaReturn && e.Kind == "call" && e.Target == "append" {
								if cv, ok := e.In.(*ssa.Call); ok && strings.HasSuffix(cv.Type().String(), "store.PersistedJob") {
									n++
								}
							}
						}
						if n != 1 {
							okAll = false
							det = fmt.Sprintf("a path of the snapshot loop appends %d records (%s)", n, p.LitString())
						}
					}
				}
			}
			r.Check(okAll, "index.snapshot-all", FuncName(saveFn)+": snapshot covers the id index", w.Pos(saveFn.Pos()), "every iteration over the id index appends exactly one record to the snapshot", det+": jobs are missing from (or duplicated in) the store")
		}
	}
}

// evalBoolTerm evaluates a returned boolean access path ("true", "false", "!x", "x").
// runTableOf evaluates the per-job running predicate on the 8 valuations of (started,
// completed, canceled); nil with a reason when it reads anything else.
func runTableOf(w *World, isRunning *ssa.Function) (map[[3]int64]int64, string) {
	if isRunning == nil {
		return nil, "running predicate not found"
	}
	runVars := map[string]string{"recv.Start": "startptr", "recv.Completed": "completed", "recv.Canceled": "canceled"}
	rp := w.EnumPaths(isRunning, EnumOpts{})
	out := map[[3]int64]int64{}
	for _, s := range []int64{0, 1} {
		for _, c := range []int64{0, 1} {
			for _, x := range []int64{0, 1} {
				env := map[string]int64{"startptr": s, "completed": c, "canceled": x}
				p, why := selectPath(rp.Paths, runVars, env)
				if p == nil || len(p.Ret) != 1 {
					return nil, "cannot evaluate the running predicate: " + why
				}
				v, err := evalBoolTerm(p.Ret[0], runVars, env)
				if err != "" {
					return nil, "cannot evaluate result " + p.Ret[0] + ": " + err
				}
				out[[3]int64{s, c, x}] = v
			}
		}
	}
	return out, ""
}

// loadAnchors finds the place where a stored job becomes a *PipelineJob: the call of the
// load mapper (PersistedJob → *PipelineJob), or — the mapper inlined — the PipelineJob
// literal allocated in a loop of a function that reads the store.
func loadAnchors(w *World) (loadFn *ssa.Function, at ssa.Instruction) {
	f, a, _ := loadAnchorsX(w)
	return f, a
}

func loadAnchorsX(w *World) (loadFn *ssa.Function, at ssa.Instruction, mapper *ssa.Function) {
	jobT := w.NamedType("", "PipelineJob")
	if jobT == nil {
		return nil, nil, nil
	}
	for _, fn := range w.ModFuncs {
		if fn.Parent() != nil || fn.Package() != w.Pkg("") {
			continue
		}
		sig := fn.Signature
		if sig.Recv() == nil && sig.Params().Len() == 1 && sig.Results().Len() == 1 &&
			typeShort(sig.Params().At(0).Type()) == "PersistedJob" && namedOf(sig.Results().At(0).Type()) != nil && namedOf(sig.Results().At(0).Type()).Obj() == jobT.Obj() {
			mapper = fn
		}
	}
	if mapper != nil {
		for _, fn := range w.ModFuncs {
			for _, ci := range findCalls(fn, func(_ string, c *ssa.CallCommon) bool { return c.StaticCallee() == mapper }) {
				if c, ok := ci.(*ssa.Call); ok {
					loadFn, at = fn, c
				}
			}
		}
		if loadFn != nil {
			return loadFn, at, mapper
		}
	}
	// inlined: a function of the root package that calls the store's Load and allocates a PipelineJob in a loop
	for _, fn := range w.ModFuncs {
		if fn.Parent() != nil || fn.Package() != w.Pkg("") {
			continue
		}
		if len(findCalls(fn, func(_ string, c *ssa.CallCommon) bool { return c.IsInvoke() && c.Method.Name() == "Load" })) == 0 {
			continue
		}
		allInstrs(fn, func(in ssa.Instruction) {
			al, ok := in.(*ssa.Alloc)
			if !ok || !al.Heap {
				return
			}
			if n := namedOf(al.Type()); n != nil && n.Obj() == jobT.Obj() && loopHeaderOf(al.Block()) != nil {
				loadFn, at = fn, al
			}
		})
	}
	return loadFn, at, nil
}

// loadEveryJob: no iteration of the load loop skips the mapper call — every stored job is
// built (and, by index.insert-once, registered), so that it is reported, saved again and,
// when retention removes it, removed together with its logs.
func loadEveryJob(w *World, r *Report, rule string, loadFn *ssa.Function, mapCall ssa.Instruction) {
	if loadFn == nil || mapCall == nil {
		r.Undecided(rule, "load loop", "-", "load function or mapper call not found")
		return
	}
	// the innermost loop header that dominates the mapper call
	header := loopHeaderOf(mapCall.Block())
	var passInFn ssa.Instruction = mapCall
	loopFn := loadFn
	if header == nil {
		// the per-job part is a function of its own: every path through it builds the job, and
		// its only call site lies in the loop over the stored jobs
		skip := PathQuery{Fn: loadFn, Target: isReturn, BlockInstr: func(in ssa.Instruction) bool { return in == mapCall }}.Find()
		var sites []ssa.CallInstruction
		var host *ssa.Function
		for _, g := range w.ModFuncs {
			for _, ci := range findCalls(g, func(_ string, c *ssa.CallCommon) bool { return c.StaticCallee() == loadFn }) {
				sites = append(sites, ci)
				host = g
			}
		}
		if len(sites) == 1 && loopHeaderOf(sites[0].Block()) != nil {
			if !r.Check(!skip.Found, rule, FuncName(loadFn)+": every call builds the job", w.InstrPos(mapCall), "every path through the per-job function passes the mapper call", "the per-job load function can return without building the job ("+skip.String()+"): a stored job is silently dropped at start-up") {
				return
			}
			header, passInFn, loopFn = loopHeaderOf(sites[0].Block()), sites[0], host
		}
	}
	if header == nil {
		r.Viol(rule, FuncName(loadFn)+": load loop", w.InstrPos(mapCall), "the load mapper is not called in a loop: at most one stored job is restored")
		return
	}
	isBack := func(in ssa.Instruction) bool {
		b := in.Block()
		if in != b.Instrs[len(b.Instrs)-1] || !header.Dominates(b) {
			return false
		}
		for _, s := range b.Succs {
			if s == header {
				return true
			}
		}
		return false
	}
	res := PathQuery{Fn: loopFn, Start: []ssa.Instruction{header.Instrs[0]}, Target: isBack, BlockInstr: func(in ssa.Instruction) bool { return in == passInFn }}.Find()
	r.Check(!res.Found, rule, FuncName(loadFn)+": every stored job is built", w.InstrPos(mapCall), "every iteration of the load loop passes the mapper call (no stored job is skipped)", "an iteration of the load loop can reach the next one without building the job ("+res.String()+"): a stored job is silently dropped at start-up — it vanishes from the API and the next save, and its logs are never removed")
}

// loopHeaderOf: the innermost loop header that dominates b (nil if b is not in a loop).
func loopHeaderOf(b *ssa.BasicBlock) *ssa.BasicBlock {
	var header *ssa.BasicBlock
	for _, h := range b.Parent().Blocks {
		if !h.Dominates(b) {
			continue
		}
		isHeader := false
		for _, p := range h.Preds {
			if h.Dominates(p) {
				isHeader = true
			}
		}
		// b must be inside the loop: some back-edge source is reachable from b
		if isHeader && (header == nil || header.Dominates(h)) {
			header = h
		}
	}
	return header
}

func evalBoolTerm(t string, vars map[string]string, env map[string]int64) (int64, string) {
	neg := false
	for strings.HasPrefix(t, "!") {
		neg = !neg
		t = t[1:]
	}
	v, err := evalTerm(t, vars, env)
	if err != "" {
		return 0, err
	}
	b := v != 0
	if neg {
		b = !b
	}
	if b {
		return 1, ""
	}
	return 0, ""
}

var _ = types.Identical
