package main

import (
	"fmt"
	"go/constant"
	"go/token"
	"go/types"
	"sort"
	"strings"

	"golang.org/x/tools/go/ssa"
)

func init() {
	register(&PropDef{
		ID:          "C17",
		Level:       "other",
		Explanation: "Structural necessary conditions of 'only valid definitions load and every edit is detected': (1) every field of TaskDef/PipelineDef/PipelinesDef (enumerated from go/types, so new fields are included) is compared by Equals with a sound idiom — maps need a length test, a presence test and a value test — and every 'return true' is dominated by all of them; (2) in the loader every store into the merged pipeline map is preceded on every path by setDefaults, by the validate()==nil edge for the stored value and by the duplicate test; (3) the validation function's branch table over sign classes of concurrency/queue_limit/start_delay equals the stated table and the dependency loop has a presence test; the strategy parser maps exactly the declared constants and errors otherwise; (4) the watcher replaces the definitions on every path where Equals is false. Decides these shapes, not YAML decoding or the behaviour of arbitrary generated inputs.",
		Trusted:     []string{"gopkg.in/yaml.v2 decoding fidelity", "go/types field enumeration is the type's field list"},
		NotDecided:  []string{"YAML decoding", "independence of file enumeration order beyond the duplicate test"},
		Check:       checkC17,
	})
}

// ifFact: one If with its canonical atom; Succ[v] is the successor index taken when the atom has truth value v.
type ifFact struct {
	If                  *ssa.If
	Atom                Atom
	SuccTrue, SuccFalse int
}

func (w *World) ifFacts(fn *ssa.Function) []ifFact {
	var out []ifFact
	allInstrs(fn, func(in ssa.Instruction) {
		x, ok := in.(*ssa.If)
		if !ok {
			return
		}
		op, l, r, neg, konst := w.condAtom(x.Cond, 0)
		if konst != nil {
			return
		}
		at, tv := canonAtom(op, l, r, !neg)
		f := ifFact{If: x, Atom: at}
		if tv {
			f.SuccTrue, f.SuccFalse = 0, 1
		} else {
			f.SuccTrue, f.SuccFalse = 1, 0
		}
		out = append(out, f)
	})
	return out
}

// blockReturns: does control from b reach only a return satisfying pred without further branching?
func blockReturns(b *ssa.BasicBlock, pred func(*ssa.Return) bool) bool {
	for depth := 0; depth < 4; depth++ {
		if len(b.Instrs) == 0 {
			return false
		}
		switch t := b.Instrs[len(b.Instrs)-1].(type) {
		case *ssa.Return:
			return pred(t)
		case *ssa.Jump:
			b = b.Succs[0]
		default:
			return false
		}
	}
	return false
}

func retConstBool(want bool) func(*ssa.Return) bool {
	return func(r *ssa.Return) bool { return len(r.Results) == 1 && isBoolConst(r.Results[0], want) }
}

func checkC17(w *World, r *Report) {
	checkEqualsCoverage(w, r)
	checkLoaderPipeline(w, r)
	checkValidationTable(w, r)
	checkStrategyParser(w, r)
	checkReloadUsesEquals(w, r)
	r.Floor("equals", 15)
	r.Floor("loader", 4)
	r.Floor("validate", 4)
	r.Floor("strategy", 3)
	r.Floor("reload", 2)
}

// ---------------------------------------------------------------------------------
// K8 STRUCTCOVER

func checkEqualsCoverage(w *World, r *Report) {
	dp := w.Pkg("definition")
	if dp == nil {
		r.Undecided("equals.anchors", "package definition", "-", "package not found")
		return
	}
	checked := map[string]bool{}
	var check func(T *types.Named)
	check = func(T *types.Named) {
		name := T.Obj().Name()
		if checked[name] {
			return
		}
		checked[name] = true
		eq := w.FuncByName("definition", name+".Equals")
		if eq == nil {
			r.Viol("equals.exists", name+".Equals", w.Pos(T.Obj().Pos()), "type is part of the definitions but has no Equals method: edits to it cannot be detected")
			return
		}
		fname := FuncName(eq)
		facts := w.ifFacts(eq)
		var retTrue []*ssa.Return
		// a return of `helper(d.F, o.F)` (the last comparison handed back directly) is a `return true`
		// site for every other field and the comparison of F itself
		computed := map[*ssa.Return]*ssa.Call{}
		allInstrs(eq, func(in ssa.Instruction) {
			if rt, ok := in.(*ssa.Return); ok && retConstBool(true)(rt) {
				retTrue = append(retTrue, rt)
			} else if ok && !retConstBool(false)(rt) {
				if c, isC := w.Resolve(rt.Results[0]).(*ssa.Call); isC && len(rt.Results) == 1 && c.Call.StaticCallee() != nil {
					computed[rt] = c
					retTrue = append(retTrue, rt)
					return
				}
				r.Undecided("equals.returns", fname+": non-constant return", w.InstrPos(rt), "Equals returns a computed value; the coverage rule recognises `return false` / `return true` exits and the direct return of a comparison helper only")
			}
		})
		// computedFor: the computed return whose helper is applied to exactly this field pair
		computedFor := func(dR, oR string) (*ssa.Return, *ssa.Function) {
			for rt, c := range computed {
				ap := w.AP(c)
				if strings.HasSuffix(ap, "("+dR+","+oR+")") || strings.HasSuffix(ap, "("+oR+","+dR+")") {
					return rt, c.Call.StaticCallee()
				}
			}
			return nil, nil
		}
		// find: an If whose atom matches and whose "differs" edge returns false; returns the If
		find := func(match func(a Atom) bool, differsWhen bool) *ssa.If {
			for _, f := range facts {
				if !match(f.Atom) {
					continue
				}
				succ := f.SuccFalse
				if differsWhen {
					succ = f.SuccTrue
				}
				if blockReturns(f.If.Block().Succs[succ], retConstBool(false)) {
					return f.If
				}
			}
			return nil
		}
		dominatesAllTrue := func(in ssa.Instruction) bool {
			for _, rt := range retTrue {
				if ssa.Instruction(rt) != in && !instrDominates(in, rt) {
					return false
				}
			}
			return len(retTrue) > 0
		}
		pair := func(a Atom, x, y string) bool {
			return a.L == x && a.R == y || a.L == y && a.R == x
		}
		st := structOf(T)
		for i := 0; i < st.NumFields(); i++ {
			f := st.Field(i)
			fn := f.Name()
			key := name + "." + fn
			pos := w.Pos(f.Pos())
			dR, oR := "recv."+fn, "arg0."+fn
			whole := find(func(a Atom) bool {
				// reflect.DeepEqual / maps.Equal / slices.Equal on the whole field
				return a.Op == "true" && (strings.HasPrefix(a.L, "reflect.DeepEqual(") || strings.HasPrefix(a.L, "maps.Equal(") || strings.HasPrefix(a.L, "slices.Equal(")) &&
					strings.Contains(a.L, dR) && strings.Contains(a.L, oR)
			}, false)
			if whole != nil {
				r.Check(dominatesAllTrue(whole), "equals.cover", key, pos, "compared as a whole by a library equality; dominates every `return true`", "library equality present but a `return true` is reachable without it")
				continue
			}
			switch u := f.Type().Underlying().(type) {
			case *types.Basic:
				ifi := find(func(a Atom) bool { return a.Op == "==" && pair(a, dR, oR) }, false)
				if ifi == nil {
					r.Viol("equals.cover", key, pos, fmt.Sprintf("%s: no comparison `%s != %s → return false` in %s: an edit to this field is ignored by reload", key, dR, oR, fname))
				} else {
					r.Check(dominatesAllTrue(ifi), "equals.cover", key, pos, "scalar compare → return false, dominating every `return true`", "a `return true` is reachable without the comparison of "+key)
				}
			case *types.Pointer:
				// decided by evaluation, not by the shape of the comparison: on the five order types of
				// (nil | value) × (nil | same value | other value) every path consistent with an
				// unequal pair returns false, and an equal pair has a path that does not return
				// false because of this field (all other inputs unconstrained)
				pvars := map[string]string{dR: "dptr", oR: "optr", "*" + dR: "dval", "*" + oR: "oval"}
				pr := w.EnumPaths(eq, EnumOpts{Inline: true, MaxPaths: 20000})
				badP := ""
				for _, val := range []struct {
					dptr, optr, dval, oval int64
					equal                  bool
				}{{0, 0, 0, 0, true}, {0, 1, 0, 7, false}, {1, 0, 7, 0, false}, {1, 1, 7, 7, true}, {1, 1, 7, 9, false}} {
					env := map[string]int64{"dptr": val.dptr, "optr": val.optr}
					if val.dptr == 1 {
						env["dval"] = val.dval
					}
					if val.optr == 1 {
						env["oval"] = val.oval
					}
					sel, problem := selectPaths(pr.Paths, pvars, env, true)
					if problem != "" || len(sel) == 0 || pr.Truncated {
						badP = "cannot evaluate " + fname + " on the pointer cases: " + problem
						break
					}
					someTrue, allFalse := false, true
					for _, pe := range sel {
						if pe.Path.End != "return" || len(pe.Path.Ret) != 1 {
							continue
						}
						if pe.Path.Ret[0] == "true" {
							someTrue = true
							allFalse = false
						} else if pe.Path.Ret[0] != "false" {
							allFalse = false
						}
					}
					if !val.equal && !allFalse {
						badP = fmt.Sprintf("for %s = %s and other = %s a path returns true", key, ptrStr(val.dptr, val.dval), ptrStr(val.optr, val.oval))
					}
					if val.equal && !someTrue {
						badP = fmt.Sprintf("for equal %s (%s) no path returns true", key, ptrStr(val.dptr, val.dval))
					}
				}
				r.Check(badP == "", "equals.cover", key, pos, "pointer field: unequal nil-ness or pointee ⇒ false on every consistent path; equal ⇒ not rejected (5 order types)", key+" (pointer) is not compared by nil-ness and pointee: "+badP+" — an edit to this field is ignored by reload (or equal definitions are reported as changed)")
			case *types.Slice:
				// helper(d.F, o.F) negated → return false
				var helper *ssa.Function
				ifi := find(func(a Atom) bool {
					if a.Op != "true" || !strings.HasSuffix(a.L, "("+dR+","+oR+")") && !strings.HasSuffix(a.L, "("+oR+","+dR+")") {
						return false
					}
					return true
				}, false)
				if ifi != nil {
					if c, ok := w.Resolve(ifi.Cond).(*ssa.Call); ok {
						helper = c.Call.StaticCallee()
					} else if u, ok := ifi.Cond.(*ssa.UnOp); ok {
						if c, ok := w.Resolve(u.X).(*ssa.Call); ok {
							helper = c.Call.StaticCallee()
						}
					}
				}
				var cmpAt ssa.Instruction
				if ifi != nil {
					cmpAt = ifi
				}
				if ifi == nil || helper == nil {
					if rt, h := computedFor(dR, oR); rt != nil {
						cmpAt, helper = rt, h
					}
				}
				if cmpAt == nil || helper == nil {
					r.Viol("equals.cover", key, pos, fmt.Sprintf("%s (slice): no `!helper(%s, %s) → return false`", key, dR, oR))
					break
				}
				hok, why := w.sliceHelperSound(helper)
				r.Check(hok && dominatesAllTrue(cmpAt), "equals.cover", key, pos, "slice helper "+FuncName(helper)+" compares length and every element; dominates every `return true`", "slice comparison unsound: "+why)
				_ = u
			case *types.Map:
				// a comparison helper for the whole map (plain function, or method of a named map type):
				// `!helper(d.F, o.F) → return false`, or its result returned directly
				{
					var cmpAt ssa.Instruction
					var helper *ssa.Function
					if ifi := find(func(a Atom) bool {
						return a.Op == "true" && (strings.HasSuffix(a.L, "("+dR+","+oR+")") || strings.HasSuffix(a.L, "("+oR+","+dR+")")) && !strings.Contains(a.L, ".Equals(")
					}, false); ifi != nil {
						cond := ifi.Cond
						if u, ok := cond.(*ssa.UnOp); ok && u.Op == token.NOT {
							cond = u.X
						}
						if c, ok := w.Resolve(cond).(*ssa.Call); ok {
							cmpAt, helper = ifi, c.Call.StaticCallee()
						}
					}
					if cmpAt == nil {
						if rt, h := computedFor(dR, oR); rt != nil {
							cmpAt, helper = rt, h
						}
					}
					if cmpAt != nil && helper != nil {
						hok, why := w.mapHelperSound(helper, u)
						r.Check(hok && dominatesAllTrue(cmpAt), "equals.cover", key, pos, "map helper "+FuncName(helper)+" compares length, presence and value of every key; dominates every `return true`", "map comparison unsound: "+why)
						if en, ok := u.Elem().(*types.Named); ok && w.InModulePkg(en.Obj().Pkg()) {
							if _, isStruct := en.Underlying().(*types.Struct); isStruct {
								check(en)
							}
						}
						break
					}
				}
				lenIf := find(func(a Atom) bool { return a.Op == "==" && pair(a, "len("+dR+")", "len("+oR+")") }, false)
				// range over one side, comma-ok lookup on the other
				var okSide string
				var presence, value *ssa.If
				for _, sides := range [][2]string{{dR, oR}, {oR, dR}} {
					rng, oth := sides[0], sides[1]
					k := "rangekey(" + rng + ")"
					v := "rangeval(" + rng + ")"
					p := find(func(a Atom) bool { return a.Op == "true" && a.L == "has("+oth+"["+k+"])" }, false)
					var val *ssa.If
					if _, isStruct := u.Elem().Underlying().(*types.Struct); isStruct {
						val = find(func(a Atom) bool {
							return a.Op == "true" && strings.Contains(a.L, ".Equals(") && strings.Contains(a.L, v) && strings.Contains(a.L, oth+"["+k+"]")
						}, false)
					} else {
						val = find(func(a Atom) bool { return a.Op == "==" && pair(a, oth+"["+k+"]", v) }, false)
					}
					if val != nil && (value == nil || p != nil) {
						presence, value, okSide = p, val, rng
					}
				}
				switch {
				case lenIf == nil:
					r.Viol("equals.cover", key, pos, key+" (map): no length comparison → return false")
				case value == nil:
					r.Viol("equals.cover", key, pos, key+" (map): no per-key value comparison → return false")
				case presence == nil:
					r.Viol("equals.cover", key, pos, fmt.Sprintf("%s (map): the value comparison in %s looks the key up without a presence test (comma-ok): a missing key reads as the zero value, so maps with different keys and zero values compare equal and the edit is ignored by reload (the Tasks comparison in the same type has the test — sibling idioms disagree)", key, fname))
				default:
					// the range must dominate every return true
					var rng ssa.Instruction
					allInstrs(eq, func(in ssa.Instruction) {
						if rg, ok := in.(*ssa.Range); ok && w.AP(rg.X) == okSide {
							rng = in
						}
					})
					r.Check(rng != nil && dominatesAllTrue(rng) && dominatesAllTrue(lenIf), "equals.cover", key, pos,
						"length + presence (comma-ok) + value comparison, all → return false; loop dominates every `return true`", "a `return true` is reachable without the map comparison of "+key)
				}
				if en, ok := u.Elem().(*types.Named); ok && w.InModulePkg(en.Obj().Pkg()) {
					if _, isStruct := en.Underlying().(*types.Struct); isStruct {
						check(en)
					}
				}
			default:
				r.Undecided("equals.cover", key, pos, fmt.Sprintf("field of kind %T: no comparison idiom is defined for it", u))
			}
		}
	}
	for _, n := range []string{"PipelinesDef", "PipelineDef", "TaskDef"} {
		T := w.NamedType("definition", n)
		if T == nil {
			r.Undecided("equals.anchors", n, "-", "type not found")
			continue
		}
		check(T)
	}
}

// sliceHelperSound: helper(a, b []T) bool compares the lengths and every element.
func (w *World) sliceHelperSound(h *ssa.Function) (bool, string) {
	if h == nil || h.Blocks == nil {
		return false, "helper has no body"
	}
	if qualifiedName(h) == "slices.Equal" || qualifiedName(h) == "reflect.DeepEqual" {
		return true, ""
	}
	facts := w.ifFacts(h)
	lenOK, elemOK := false, false
	for _, f := range facts {
		diff := f.If.Block().Succs[f.SuccFalse]
		if f.Atom.Op != "==" || !blockReturns(diff, retConstBool(false)) {
			continue
		}
		a := f.Atom
		if a.L == "len(arg0)" && a.R == "len(arg1)" || a.L == "len(arg1)" && a.R == "len(arg0)" {
			lenOK = true
		}
		// element compare: arg0[idx] vs arg1[idx] with the same index expression (range value form allowed)
		l, rr := a.L, a.R
		if strings.HasPrefix(l, "arg1[") {
			l, rr = rr, l
		}
		if strings.HasPrefix(l, "arg0[") && strings.HasPrefix(rr, "arg1[") && l[len("arg0"):] == rr[len("arg1"):] {
			elemOK = true
		}
	}
	// every return true must be after the loop: the element If must be in a loop whose header dominates return true
	if !lenOK {
		return false, FuncName(h) + " does not compare lengths"
	}
	if !elemOK {
		return false, FuncName(h) + " does not compare elements index by index"
	}
	return true, ""
}

// mapHelperSound: h(a, b) over two maps (parameters, or receiver and parameter) compares the lengths,
// ranges over one side with a comma-ok presence test on the other and compares the values (by
// Equals for struct values), every difference → return false; its `return true` exits are dominated
// by the length test and the loop.
func (w *World) mapHelperSound(h *ssa.Function, mt *types.Map) (bool, string) {
	if h == nil || h.Blocks == nil {
		if h != nil && (qualifiedName(h) == "maps.Equal" || qualifiedName(h) == "reflect.DeepEqual") {
			return true, ""
		}
		return false, "helper has no body"
	}
	if len(h.Params) != 2 {
		return false, FuncName(h) + " does not take the two maps"
	}
	A, B := w.AP(h.Params[0]), w.AP(h.Params[1])
	facts := w.ifFacts(h)
	find := func(match func(a Atom) bool) *ssa.If {
		for _, f := range facts {
			if match(f.Atom) && blockReturns(f.If.Block().Succs[f.SuccFalse], retConstBool(false)) {
				return f.If
			}
		}
		return nil
	}
	pair := func(a Atom, x, y string) bool { return a.L == x && a.R == y || a.L == y && a.R == x }
	lenIf := find(func(a Atom) bool { return a.Op == "==" && pair(a, "len("+A+")", "len("+B+")") })
	if lenIf == nil {
		return false, FuncName(h) + " does not compare the lengths"
	}
	_, elemStruct := mt.Elem().Underlying().(*types.Struct)
	for _, sides := range [][2]string{{A, B}, {B, A}} {
		rng, oth := sides[0], sides[1]
		k, v := "rangekey("+rng+")", "rangeval("+rng+")"
		presence := find(func(a Atom) bool { return a.Op == "true" && a.L == "has("+oth+"["+k+"])" })
		var value *ssa.If
		if elemStruct {
			value = find(func(a Atom) bool {
				return a.Op == "true" && strings.Contains(a.L, ".Equals(") && strings.Contains(a.L, v) && strings.Contains(a.L, oth+"["+k+"]")
			})
		} else {
			value = find(func(a Atom) bool { return a.Op == "==" && pair(a, oth+"["+k+"]", v) })
		}
		if presence == nil || value == nil {
			continue
		}
		var rg ssa.Instruction
		allInstrs(h, func(in ssa.Instruction) {
			if x, ok := in.(*ssa.Range); ok && w.AP(x.X) == rng {
				rg = in
			}
		})
		okDom := rg != nil
		nTrue := 0
		allInstrs(h, func(in ssa.Instruction) {
			if rt, ok := in.(*ssa.Return); ok && !retConstBool(false)(rt) {
				nTrue++
				if !retConstBool(true)(rt) || rg == nil || !instrDominates(rg, rt) || !instrDominates(lenIf, rt) {
					okDom = false
				}
			}
		})
		if okDom && nTrue > 0 {
			return true, ""
		}
		return false, FuncName(h) + ": a `return true` is reachable without the length test and the loop"
	}
	return false, FuncName(h) + " has no presence test (comma-ok) plus value comparison per key"
}

// ---------------------------------------------------------------------------------
// loader: defaults → validate → duplicate check before every store into the merged map

func checkLoaderPipeline(w *World, r *Report) {
	defT := w.NamedType("definition", "PipelinesDef")
	if defT == nil {
		r.Undecided("loader.anchors", "PipelinesDef", "-", "type not found")
		return
	}
	// anchor: functions in package definition with a MapUpdate on recv.Pipelines of a *PipelinesDef receiver, reading a file
	dp := w.Pkg("definition")
	var loaders []*ssa.Function
	for _, fn := range w.ModFuncs {
		if fn.Package() != dp {
			continue
		}
		hasDecode := len(findCalls(fn, func(n string, _ *ssa.CallCommon) bool {
			return strings.HasSuffix(n, ".Decode") || strings.HasSuffix(n, ".Unmarshal")
		})) > 0
		if hasDecode {
			loaders = append(loaders, fn)
		}
	}
	if len(loaders) == 0 {
		r.Undecided("loader.anchors", "definition loader", "-", "no function in package definition decodes YAML")
		return
	}
	validate := w.FuncByRole("definition", "PipelineDef.validate", func(f *ssa.Function) bool { return recvIs(f, "PipelineDef") && sigHas(f, nil, []string{"error"}) })
	// the per-file loader may be split: a function that decodes (and applies defaults) and one
	// that validates and stores. Entry = the function of the package that reaches both; the
	// rules about the store are checked in the storing function, the defaults rule along the
	// entry's calls.
	calleesIn := func(f *ssa.Function) []*ssa.Function {
		var out []*ssa.Function
		allInstrs(f, func(in ssa.Instruction) {
			if c := callCommonOf(in); c != nil {
				if g := c.StaticCallee(); g != nil && g.Blocks != nil && g.Package() == dp {
					out = append(out, g)
				}
			}
		})
		return out
	}
	storesIn := func(f *ssa.Function) []*ssa.MapUpdate {
		var ups []*ssa.MapUpdate
		allInstrs(f, func(in ssa.Instruction) {
			if mu, ok := in.(*ssa.MapUpdate); ok && strings.HasSuffix(w.AP(mu.Map), ".Pipelines") && strings.HasPrefix(w.AP(mu.Map), "recv.") {
				ups = append(ups, mu)
			}
		})
		return ups
	}
	type split struct{ entry, decoder, storer *ssa.Function }
	var splits []split
	for _, ld := range loaders {
		if len(storesIn(ld)) > 0 {
			splits = append(splits, split{ld, ld, ld})
			continue
		}
		// an entry that calls this decoder and a storing function
		found := false
		for _, e := range w.ModFuncs {
			if e.Package() != dp || e.Parent() != nil {
				continue
			}
			callsDec := false
			var storer *ssa.Function
			// (a function that applies the defaults rewrites the entries of its own receiver's map: not the merge)
			isDefaults := func(g *ssa.Function) bool { return w.storesField(g, "PipelineDef", "Concurrency") }
			for _, g := range calleesIn(e) {
				if g == ld {
					callsDec = true
				}
				if len(storesIn(g)) > 0 && !isDefaults(g) {
					storer = g
				}
			}
			// the entry stores into the merged map itself, after calling the decoder
			if storer == nil && len(storesIn(e)) > 0 && !isDefaults(e) {
				storer = e
			}
			if callsDec && storer != nil {
				splits = append(splits, split{e, ld, storer})
				found = true
			}
		}
		// the decoder itself hands every decoded pipeline to a storing helper of the same receiver
		if !found {
			for _, g := range calleesIn(ld) {
				if g != ld && len(storesIn(g)) > 0 && !w.storesField(g, "PipelineDef", "Concurrency") {
					splits = append(splits, split{ld, ld, g})
					found = true
				}
			}
		}
		if !found {
			r.Viol("loader.store", FuncName(ld)+": store into the merged map", w.Pos(ld.Pos()), "loader never stores into recv.Pipelines")
		}
	}
	var entries []*ssa.Function
	for _, sp := range splits {
		entries = append(entries, sp.entry)
		ld := sp.storer
		r.Anchor("definition loader (decodes a file)", FuncName(sp.decoder))
		if sp.storer != sp.decoder {
			r.Anchor("definition loader (stores into the merged map)", FuncName(sp.storer))
		}
		updates := storesIn(ld)
		for _, mu := range updates {
			key := FuncName(ld) + ": " + w.AP(mu.Map) + "[…] = …"
			pos := w.InstrPos(mu)
			// defaults
			defs := findCalls(ld, func(n string, c *ssa.CallCommon) bool {
				f := c.StaticCallee()
				return f != nil && w.InModule(f) && w.storesField(f, "PipelineDef", "Concurrency")
			})
			okD := false
			for _, d := range defs {
				if instrDominates(d, mu) {
					okD = true
				}
			}
			if !okD && sp.decoder != sp.storer {
				// defaults are applied in the decoder before every success return, and the entry
				// calls the decoder before the storing function
				decDefs := findCalls(sp.decoder, func(n string, c *ssa.CallCommon) bool {
					f := c.StaticCallee()
					return f != nil && w.InModule(f) && w.storesField(f, "PipelineDef", "Concurrency")
				})
				allSucc := len(decDefs) > 0
				allInstrs(sp.decoder, func(in ssa.Instruction) {
					rt, ok := in.(*ssa.Return)
					if !ok || rt.Block() == sp.decoder.Recover || len(rt.Results) == 0 || !w.maybeNilError(sp.decoder, rt, rt.Results[len(rt.Results)-1]) {
						return
					}
					dom := false
					for _, d := range decDefs {
						if instrDominates(d, rt) {
							dom = true
						}
					}
					if !dom {
						allSucc = false
					}
				})
				var decCall, stCall ssa.Instruction
				allInstrs(sp.entry, func(in ssa.Instruction) {
					if c := callCommonOf(in); c != nil {
						if c.StaticCallee() == sp.decoder {
							decCall = in
						}
						if c.StaticCallee() == sp.storer {
							stCall = in
						}
					}
				})
				okD = allSucc && decCall != nil && stCall != nil && instrDominates(decCall, stCall)
				if sp.storer == sp.entry {
					// the entry stores itself: the decoder call (which applied the defaults) dominates the store
					okD = allSucc && decCall != nil && instrDominates(decCall, mu)
				}
			}
			if !okD {
				// … or the storing function applies the default itself: every path to the store has
				// tested `<stored cell>.Concurrency == 0` and, on the zero edge, stored 1 into it
				lp := w.EnumPaths(ld, EnumOpts{MaxPaths: 20000})
				cell := w.AP(mu.Value)
				nTo, okAll := 0, !lp.Truncated
				for _, p := range lp.Paths {
					at := -1
					for k, ev := range p.Events {
						if ev.Eff != nil && ev.Eff.In == ssa.Instruction(mu) {
							at = k
						}
					}
					if at < 0 {
						continue
					}
					nTo++
					tested, fixed, zero := false, false, false
					for _, ev := range p.Events[:at] {
						if ev.Lit != nil && ev.Lit.Atom.Op == "==" && ev.Lit.Atom.L == cell+".Concurrency" && ev.Lit.Atom.R == "0" {
							tested, zero = true, ev.Lit.Val
						}
						if ev.Eff != nil && ev.Eff.Kind == "store" && ev.Eff.Target == cell+".Concurrency" && ev.Eff.Val == "1" {
							fixed = true
						}
					}
					if !tested || zero && !fixed {
						okAll = false
					}
				}
				okD = okAll && nTo > 0
			}
			if !okD && sp.entry == sp.decoder && sp.storer != sp.decoder {
				okD = w.defaultsLoopBeforeCall(sp.entry, sp.storer)
			}
			r.Check(okD, "loader.defaults", key, pos, "a call that applies the concurrency default dominates the store", "no defaults call dominates the store: concurrency 0 would be rejected or stored unset")
			// validate()==nil edge
			okV := false
			detail := "no call of the validation function on the stored value"
			for _, vc := range findCalls(ld, func(_ string, c *ssa.CallCommon) bool { return validate != nil && c.StaticCallee() == validate }) {
				call, ok := vc.(*ssa.Call)
				if !ok {
					continue
				}
				if !w.sameValueOrCell(call.Call.Args[0], mu.Value) {
					detail = "validate is called on " + w.AP(call.Call.Args[0]) + ", not on the stored value " + w.AP(mu.Value)
					continue
				}
				tests := w.nilTests(ld, call)
				if len(tests) == 0 {
					detail = "the result of validate is not tested"
					continue
				}
				res := PathQuery{Fn: ld, Target: func(in ssa.Instruction) bool { return in == ssa.Instruction(mu) },
					BlockEdge: func(b *ssa.BasicBlock, s int) bool {
						for _, t := range tests {
							if t.If.Block() == b && s == t.OkSucc {
								return true
							}
						}
						return false
					}}.Find()
				if res.Found {
					detail = "the store is reachable without the validate()==nil edge (" + res.String() + ")"
					continue
				}
				okV = true
			}
			r.Check(okV, "loader.validate", key, pos, "every path to the store takes the validate()==nil edge for the stored value", detail+": an invalid pipeline is loaded")
			// duplicate test
			okDup := false
			ddetail := "no comma-ok lookup of the same key in the merged map"
			for _, f := range w.ifFacts(ld) {
				want := "has(" + w.AP(mu.Map) + "[" + w.AP(mu.Key) + "])"
				if f.Atom.Op != "true" || f.Atom.L != want {
					continue
				}
				exists := f.If.Block().Succs[f.SuccTrue]
				if !blockReturns(exists, func(rt *ssa.Return) bool { return len(rt.Results) > 0 && !isNilConst(rt.Results[len(rt.Results)-1]) }) {
					ddetail = "the exists-edge of the duplicate test does not return an error"
					continue
				}
				res := PathQuery{Fn: ld, Target: func(in ssa.Instruction) bool { return in == ssa.Instruction(mu) },
					BlockEdge: func(b *ssa.BasicBlock, s int) bool { return b == f.If.Block() && s == f.SuccFalse }}.Find()
				if res.Found {
					ddetail = "the store is reachable without passing the duplicate test (" + res.String() + ")"
					continue
				}
				okDup = true
			}
			r.Check(okDup, "loader.duplicate", key, pos, "every path to the store passes the not-yet-declared edge of a comma-ok lookup of the same key; the declared edge returns an error", ddetail+": a duplicate name silently overwrites an earlier pipeline (result depends on file order)")
		}
	}
	// the recursive loader propagates errors of the per-file loader and hands out only its result
	if lr := w.FuncByName("definition", "LoadRecursively"); lr != nil {
		for _, ld := range entries {
			for _, vc := range findCalls(lr, func(_ string, c *ssa.CallCommon) bool { return c.StaticCallee() == ld }) {
				call, ok := vc.(*ssa.Call)
				if !ok {
					continue
				}
				tests := w.nilTests(lr, call)
				okE := len(tests) > 0
				for _, t := range tests {
					if !blockReturns(t.If.Block().Succs[1-t.OkSucc], func(rt *ssa.Return) bool {
						return len(rt.Results) == 2 && isNilConst(rt.Results[0]) && !isNilConst(rt.Results[1])
					}) {
						okE = false
					}
				}
				r.Check(okE, "loader.error-propagation", FuncName(lr)+": error of "+FuncName(ld), w.InstrPos(call), "a failing file makes the whole load fail with (nil, err)", "the error of a failing file is not returned as (nil, err): a partially loaded / invalid set is used")
			}
		}
	}
}

// storesField: does fn store to field T.F?
func (w *World) storesField(fn *ssa.Function, typeName, field string) bool {
	found := false
	for _, f := range withClosures(fn) {
		allInstrs(f, func(in ssa.Instruction) {
			if st, ok := in.(*ssa.Store); ok {
				if fa, ok := w.resolveAddr(st.Addr).(*ssa.FieldAddr); ok {
					fr := fieldOfAddr(fa)
					if fr.Owner != nil && fr.Owner.Obj().Name() == typeName && fr.Name == field {
						found = true
					}
				}
			}
		})
	}
	return found
}

// sameValueOrCell: a and b are the same SSA value or loads of the same local cell.
func ptrStr(ptr, val int64) string {
	if ptr == 0 {
		return "nil"
	}
	return fmt.Sprintf("&%d", val)
}

func (w *World) sameValueOrCell(a, b ssa.Value) bool {
	if a == b || w.Resolve(a) == w.Resolve(b) {
		return true
	}
	// the address of a cell (pointer receiver) and a load of that cell
	for _, pair := range [][2]ssa.Value{{a, b}, {b, a}} {
		if al, ok := w.resolveAddr(pair[0]).(*ssa.Alloc); ok {
			if ld, ok := pair[1].(*ssa.UnOp); ok && ld.Op == token.MUL && w.resolveAddr(ld.X) == ssa.Value(al) {
				return true
			}
		}
	}
	ua, ok1 := a.(*ssa.UnOp)
	ub, ok2 := b.(*ssa.UnOp)
	if ok1 && ok2 && w.resolveAddr(ua.X) == w.resolveAddr(ub.X) {
		if _, isAlloc := w.resolveAddr(ua.X).(*ssa.Alloc); isAlloc {
			return true
		}
	}
	return false
}

// ---------------------------------------------------------------------------------
// validation table over sign classes

func checkValidationTable(w *World, r *Report) {
	v := w.FuncByRole("definition", "PipelineDef.validate", func(f *ssa.Function) bool { return recvIs(f, "PipelineDef") && sigHas(f, nil, []string{"error"}) })
	if v == nil {
		r.Undecided("validate.anchors", "PipelineDef.validate", "-", "validation function not found")
		return
	}
	r.Anchor("validation function", FuncName(v))
	fname := FuncName(v)
	// region: from entry until the first loop header (the dependency loop)
	// (named predicates and an extracted dependency check are spliced in; the region ends at the first loop at any depth)
	res := w.EnumPaths(v, EnumOpts{Inline: true, StopDeep: true, StopBlock: func(b *ssa.BasicBlock) bool {
		for _, in := range b.Instrs {
			if _, ok := in.(*ssa.Next); ok {
				return true
			}
		}
		return false
	}})
	r.Count("paths", len(res.Paths))
	if res.Truncated {
		r.Undecided("validate.table", fname, w.Pos(v.Pos()), "path cap exceeded")
		return
	}
	vars := map[string]string{
		"recv.Concurrency": "conc", "recv.QueueLimit": "limitptr", "*recv.QueueLimit": "limit", "recv.StartDelay": "delay",
	}
	nVal, bad := 0, 0
	var firstBad string
	for _, conc := range []int64{-2, -1, 0, 1, 2} {
		for _, limitNil := range []bool{true, false} {
			for _, limit := range []int64{-1, 0, 1, 2} {
				if limitNil && limit != -1 {
					continue
				}
				for _, delay := range []int64{-1, 0, 1, 5} {
					nVal++
					env := map[string]int64{"conc": conc, "limit": limit, "delay": delay, "limitptr": 1}
					if limitNil {
						env["limitptr"] = 0
						delete(env, "limit")
					}
					wantErr := conc <= 0 || (!limitNil && limit < 0) || delay < 0 || (delay > 0 && !limitNil && limit == 0)
					p, why := selectPath(res.Paths, vars, env)
					if p == nil {
						bad++
						if firstBad == "" {
							firstBad = fmt.Sprintf("valuation conc=%d limit=%s delay=%d: %s", conc, limStr(limitNil, limit), delay, why)
						}
						continue
					}
					gotErr := p.End == "return" && len(p.Ret) == 1 && p.Ret[0] != "nil"
					passed := strings.HasPrefix(p.End, "stop:") || p.End == "return" && len(p.Ret) == 1 && p.Ret[0] == "nil"
					if conc == 0 && (gotErr || passed) {
						// concurrency 0 never reaches validate when loading: the loader applies the
						// default first (rule loader.defaults), so either answer keeps the property
						continue
					}
					if gotErr != wantErr || (!wantErr && !passed) {
						bad++
						if firstBad == "" {
							firstBad = fmt.Sprintf("valuation conc=%d limit=%s delay=%d: code %s but the stated table says %s (path: %s)", conc, limStr(limitNil, limit), delay, errStr(gotErr), errStr(wantErr), p.LitString())
						}
					}
				}
			}
		}
	}
	r.Count("valuations", nVal)
	r.Check(bad == 0, "validate.table", fname+": concurrency/queue_limit/start_delay table", w.Pos(v.Pos()),
		fmt.Sprintf("%d valuations over sign classes agree with: error ⇔ conc<0 ∨ limit<0 ∨ delay<0 ∨ (delay>0 ∧ limit=0); conc=0 is defaulted before validation (either answer accepted)", nVal),
		fmt.Sprintf("%d of %d valuations disagree with the stated validation table; first: %s", bad, nVal, firstBad))

	// dependency loop: presence test for every depends_on entry in the same pipeline's tasks, decided
	// on the paths of the validation function with its helpers spliced in (the loop may sit in a
	// helper of the receiver or of its task map)
	pos := w.Pos(v.Pos())
	dres := w.EnumPaths(v, EnumOpts{Inline: true, MaxPaths: 20000})
	isDepLit := func(l Lit) bool {
		return l.Atom.Op == "true" && strings.HasPrefix(l.Atom.L, "has(recv.Tasks[") && strings.Contains(l.Atom.L, "rangeval(recv.Tasks).DependsOn[")
	}
	nMiss, okDep, okAll, nNil := 0, !dres.Truncated, false, 0
	for _, p := range dres.Paths {
		miss, exhausted := false, false
		for _, l := range p.Lits {
			if isDepLit(l) && !l.Val {
				miss = true
				pos = w.InstrPos(l.At)
			}
			if l.Atom.Op == "true" && l.Atom.L == "rangeok(recv.Tasks)" && !l.Val {
				exhausted = true
			}
		}
		_ = exhausted
		if miss {
			nMiss++
			if !(p.End == "return" && len(p.Ret) == 1 && p.Ret[0] != "nil") {
				okDep = false
			}
		}
	}
	// success only after all tasks were checked: every return that can hand back nil is a nil constant
	// dominated by the loop over the tasks, or the result of a helper (of the receiver, or of its task
	// map) for which the same holds
	var nilOK func(f *ssa.Function, tasksAP string, depth int) bool
	nilOK = func(f *ssa.Function, tasksAP string, depth int) bool {
		var rng ssa.Instruction
		allInstrs(f, func(in ssa.Instruction) {
			if rg, ok := in.(*ssa.Range); ok && w.AP(rg.X) == tasksAP {
				rng = in
			}
		})
		ok := true
		allInstrs(f, func(in ssa.Instruction) {
			rt, isRt := in.(*ssa.Return)
			if !isRt || len(rt.Results) != 1 || (f.Recover != nil && rt.Block() == f.Recover) {
				return
			}
			val := w.Resolve(rt.Results[0])
			switch {
			case isNilConst(val):
				nNil++
				if rng == nil || !instrDominates(rng, rt) {
					ok = false
				}
			case !w.maybeNilError(f, rt, val):
			default:
				c, isC := val.(*ssa.Call)
				g := (*ssa.Function)(nil)
				if isC {
					g = c.Call.StaticCallee()
				}
				if g == nil || g.Blocks == nil || !w.InModule(g) || depth > 2 || len(c.Call.Args) == 0 {
					ok = false
					return
				}
				switch w.AP(c.Call.Args[0]) {
				case tasksAP:
					ok = ok && nilOK(g, w.AP(g.Params[0]), depth+1)
				case strings.TrimSuffix(tasksAP, ".Tasks"):
					ok = ok && nilOK(g, w.AP(g.Params[0])+".Tasks", depth+1)
				default:
					ok = false
				}
			}
		})
		return ok
	}
	okAll = nilOK(v, "recv.Tasks", 0)
	r.Check(okDep && nMiss > 0, "validate.dependencies", fname+": depends_on presence test", pos, "every depends_on entry of every task is looked up (comma-ok) in the pipeline's own tasks; a miss returns an error", "no presence test of depends_on entries in the pipeline's own tasks (or a miss does not return an error): a dependency on an unknown task loads")
	// every nil return is after the loop over all tasks was exhausted
	r.Check(okAll && nNil > 0, "validate.dependencies-all", fname+": success only after all tasks were checked", pos, "every nil return is dominated by the loop over all tasks (in the function or in the helper whose result is handed back)", "a nil return is reachable without iterating over the tasks")

	// setDefaults: concurrency 0 → 1, written back
	sd := w.FuncByName("definition", "(*PipelinesDef).setDefaults")
	if sd == nil {
		for _, fn := range w.ModFuncs {
			if fn.Package() == w.Pkg("definition") && fn.Parent() == nil && w.storesField(fn, "PipelineDef", "Concurrency") {
				sd = fn
			}
		}
	}
	if sd == nil {
		r.Viol("validate.defaults", "defaults function", "-", "no function applies the concurrency default")
		return
	}
	// on every path that takes the Concurrency == 0 edge: the value 1 is stored into that cell and
	// the cell is afterwards written into a pipelines map under the ranged key (at once, or where
	// the loader stores the validated pipeline)
	okSD := false
	sp := w.EnumPaths(sd, EnumOpts{MaxPaths: 20000})
	nZero := 0
	okAllZero := !sp.Truncated
	for _, p := range sp.Paths {
		zeroAt := -1
		cell := ""
		for k, ev := range p.Events {
			if ev.Lit != nil && ev.Lit.Atom.Op == "==" && strings.HasSuffix(ev.Lit.Atom.L, ".Concurrency") && ev.Lit.Atom.R == "0" && ev.Lit.Val {
				zeroAt, cell = k, strings.TrimSuffix(ev.Lit.Atom.L, ".Concurrency")
			}
		}
		if zeroAt < 0 || strings.HasPrefix(p.End, "backedge") && false {
			continue
		}
		st1, mu, failed := false, false, false
		for _, ev := range p.Events[zeroAt+1:] {
			if ev.Eff == nil {
				continue
			}
			e := ev.Eff
			if e.Kind == "store" && e.Target == cell+".Concurrency" && e.Val == "1" {
				st1 = true
			}
			if e.Kind == "mapupdate" && st1 && strings.Contains(e.Target, ".Pipelines[rangekey(") {
				mu = true
			}
		}
		// a path that ends in an error return stores nothing: not a success path
		if p.End == "return" && len(p.Ret) > 0 && p.Ret[len(p.Ret)-1] != "nil" {
			failed = true
		}
		if failed || p.End == "panic" {
			continue
		}
		nZero++
		if !(st1 && mu) {
			okAllZero = false
		}
	}
	okSD = okAllZero && nZero > 0
	r.Check(okSD, "validate.defaults", FuncName(sd)+": concurrency 0 → 1", w.Pos(sd.Pos()), "on Concurrency == 0 the value 1 is stored and written back under the same key", "the default is not (exactly) `Concurrency == 0 → 1, written back to the map`")
}

func limStr(isNil bool, v int64) string {
	if isNil {
		return "nil"
	}
	return fmt.Sprint(v)
}

func errStr(b bool) string {
	if b {
		return "returns an error"
	}
	return "accepts"
}

// ---------------------------------------------------------------------------------

func checkStrategyParser(w *World, r *Report) {
	T := w.NamedType("definition", "QueueStrategy")
	if T == nil {
		r.Undecided("strategy.anchors", "QueueStrategy", "-", "type not found")
		return
	}
	um := w.FuncByName("definition", "(*QueueStrategy).UnmarshalYAML")
	if um == nil {
		r.Viol("strategy.parser", "QueueStrategy.UnmarshalYAML", w.Pos(T.Obj().Pos()), "no YAML parser for the strategy: names are not validated")
		return
	}
	// declared constants
	consts := map[string]int64{}
	sc := T.Obj().Pkg().Scope()
	for _, n := range sc.Names() {
		if c, ok := sc.Lookup(n).(*types.Const); ok && types.Identical(c.Type(), T) {
			if v, ok := constant.Int64Val(c.Val()); ok {
				consts[n] = v
			}
		}
	}
	res := w.EnumPaths(um, EnumOpts{})
	r.Count("paths", len(res.Paths))
	mapped := map[int64]string{}
	defaultErr := true
	decBad, nDecOK, nDecFail := "", 0, 0
	for _, p := range res.Paths {
		if p.End != "return" {
			continue
		}
		var name string
		allFalse := true
		sawName := false
		for _, l := range p.Lits {
			if l.Atom.Op == "==" && strings.HasPrefix(l.Atom.R, "\"") {
				sawName = true
				if l.Val {
					name = strings.Trim(l.Atom.R, "\"")
					allFalse = false
				}
			}
		}
		stored := int64(-1)
		for _, e := range p.Effects {
			if e.Kind == "store" && e.Target == "*recv" {
				if st, ok := e.In.(*ssa.Store); ok {
					if c, ok := st.Val.(*ssa.Const); ok && c.Value != nil {
						stored, _ = constant.Int64Val(constant.ToInt(c.Value))
					}
				}
			}
		}
		if name != "" && stored >= 0 {
			mapped[stored] = name
		}
		// the result of reading the name (the unmarshal callback): a name is mapped only behind its
		// err == nil edge with a nil result; its failure is returned and stores nothing
		var dec *Lit
		for i, l := range p.Lits {
			if l.Atom.Op == "==" && l.Atom.R == "nil" && (strings.HasPrefix(l.Atom.L, "arg0(") || strings.HasPrefix(l.Atom.L, "dyn:arg0(")) {
				dec = &p.Lits[i]
			}
		}
		switch {
		case dec == nil:
			if stored >= 0 {
				decBad = "a strategy is stored on a path that never tested the result of reading the name"
			}
		case dec.Val:
			nDecOK++
			if name != "" && stored >= 0 && p.Ret[0] != "nil" {
				decBad = "the recognised name " + name + " returns the error " + p.Ret[0]
			}
		default:
			nDecFail++
			if stored >= 0 || unwrapErrAP(p.Ret[0]) != dec.Atom.L {
				decBad = "when reading the name fails the parser returns " + p.Ret[0] + " (stored a strategy: " + fmt.Sprint(stored >= 0) + ")"
			}
			if name != "" {
				decBad = "a name is compared although reading it failed"
			}
		}
		if sawName && allFalse && (p.Ret[0] == "nil" || stored >= 0) {
			defaultErr = false
		}
	}
	var names []string
	for n := range consts {
		names = append(names, n)
	}
	sort.Strings(names)
	for _, n := range names {
		want := strings.ToLower(strings.TrimPrefix(n, "QueueStrategy"))
		got, ok := mapped[consts[n]]
		r.Check(ok && got == want, "strategy.names", "QueueStrategy constant "+n, w.Pos(um.Pos()),
			fmt.Sprintf("name %q parses to %s", got, n), fmt.Sprintf("declared strategy %s (=%d) is parsed from %q, expected %q", n, consts[n], got, want))
	}
	r.Check(decBad == "" && nDecOK > 0 && nDecFail > 0, "strategy.decode-result", FuncName(um)+": result of reading the name", w.Pos(um.Pos()),
		"names are compared and a strategy is stored only behind the err == nil edge of the unmarshal callback; its error is returned",
		"the strategy parser does not use the result of reading the name correctly: "+decBad+" — a configured queue_strategy is silently ignored (the pipeline appends where it should replace) or a definition that cannot be read is accepted")
	r.Check(defaultErr, "strategy.default", FuncName(um)+": unknown name", w.Pos(um.Pos()), "an unknown strategy name returns an error and stores nothing", "an unknown strategy name is accepted")
}

// ---------------------------------------------------------------------------------

func checkReloadUsesEquals(w *World, r *Report) {
	ap := w.Pkg("app")
	if ap == nil {
		r.Undecided("reload.anchors", "package app", "-", "not found")
		return
	}
	n := 0
	for _, fn := range w.ModFuncs {
		if fn.Package() != ap && (fn.Parent() == nil || fn.Parent().Package() != ap) {
			continue
		}
		calls := findCalls(fn, func(name string, _ *ssa.CallCommon) bool {
			return name == modPath+".(PipelineRunner).ReplaceDefinitions"
		})
		if len(calls) == 0 {
			continue
		}
		n++
		fname := FuncName(fn)
		r.Anchor("reload function (calls ReplaceDefinitions)", fname)
		res := w.EnumPaths(fn, EnumOpts{})
		r.Count("paths", len(res.Paths))
		sawUnequal := false
		for _, p := range res.Paths {
			var eqLit *Lit
			loaded := ""
			for i, l := range p.Lits {
				if l.Atom.Op == "true" && strings.Contains(l.Atom.L, "PipelinesDef).Equals(") {
					eqLit = &p.Lits[i]
				}
			}
			replaced := ""
			for _, e := range p.Effects {
				if e.Kind == "call" && strings.HasSuffix(e.Target, "definition.LoadRecursively") {
					loaded = "definition.LoadRecursively(" + e.Val + ")#0"
				}
				if e.Kind == "call" && strings.HasSuffix(e.Target, "ReplaceDefinitions") {
					replaced = e.Val
				}
			}
			if eqLit == nil {
				r.Check(replaced == "", "reload.guarded", fname+": path without an Equals test", w.Pos(fn.Pos()), "does not replace", "definitions are replaced on a path that never compared them ("+p.LitString()+")")
				continue
			}
			if !eqLit.Val {
				sawUnequal = true
				okR := replaced != "" && loaded != "" && strings.HasSuffix(replaced, loaded) && strings.Contains(eqLit.Atom.L, "*"+loaded)
				r.Check(okR, "reload.on-change", fname+": Equals false → ReplaceDefinitions(new)", w.InstrPos(eqLit.At),
					"on the unequal edge the freshly loaded definitions are passed to ReplaceDefinitions", "on the unequal edge ReplaceDefinitions is not called with the freshly loaded definitions (replaced="+replaced+", loaded="+loaded+", compared="+eqLit.Atom.L+"): a detected edit is not applied")
				// the baseline of the comparison is a variable that outlives this invocation and
				// is set to the applied definitions on this path (else the next comparison is
				// made against stale definitions and a later edit can be classified as no change)
				baseOK, baseWhy := false, "the comparison's other operand is not identified"
				if iff, ok := eqLit.At.(*ssa.If); ok {
					cond := w.Resolve(iff.Cond)
					if u, ok := cond.(*ssa.UnOp); ok && u.Op.String() == "!" {
						cond = w.Resolve(u.X)
					}
					if call, ok := cond.(*ssa.Call); ok && len(call.Call.Args) == 2 {
						for _, a := range call.Call.Args {
							if strings.Contains(w.AP(a), loaded) {
								continue
							}
							base := w.Resolve(a)
							// a value receiver/argument is the dereference of the pointer that is kept
							if d, ok := base.(*ssa.UnOp); ok && d.Op.String() == "*" {
								if _, isStruct := d.Type().Underlying().(*types.Struct); isStruct {
									base = w.Resolve(d.X)
								}
							}
							ld, isLoad := base.(*ssa.UnOp)
							if _, isCall := base.(*ssa.Call); isCall {
								baseOK, baseWhy = true, "the baseline is asked from a function at every reload"
								break
							}
							if !isLoad || ld.Op.String() != "*" {
								baseWhy = "the freshly loaded definitions are compared with " + w.AP(a) + ", a value fixed when this function was entered: after the first applied reload every comparison is made against stale definitions"
								break
							}
							addr := w.resolveAddr(ld.X)
							if al, ok := addr.(*ssa.Alloc); ok && al.Parent() == fn {
								baseWhy = "the baseline " + w.AP(a) + " is a variable local to one invocation"
								break
							}
							loc := w.apAddr(ld.X)
							stored := false
							for _, e := range p.Effects {
								if e.Kind == "store" && e.Target == loc && e.Val == loaded {
									stored = true
								}
							}
							if stored {
								baseOK, baseWhy = true, "the baseline "+loc+" outlives the invocation and is set to the applied definitions"
							} else {
								baseWhy = "the baseline " + loc + " is not set to the applied definitions on the path that replaces them"
							}
						}
					}
				}
				r.Check(baseOK, "reload.baseline", fname+": baseline of the change detection", w.InstrPos(eqLit.At), baseWhy, baseWhy+": an edit that returns the file to an earlier content is reported as 'no change' and never applied (jobs accepted afterwards keep the previous definitions, limits included)")
			}
		}
		r.Check(sawUnequal, "reload.on-change", fname+": an unequal path exists", w.Pos(fn.Pos()), "present", "no path tests Equals")
	}
	if n == 0 {
		r.Viol("reload.on-change", "package app: reload function", "-", "no function in package app calls ReplaceDefinitions")
	}
}

// defaultsLoopBeforeCall: in entry, a completed loop over the decoded map M tests every element's
// Concurrency against 0, stores 1 on the zero edge and writes the element back under its key; the
// storing helper is called afterwards (outside that loop) with an element ranged from the same M.
func (w *World) defaultsLoopBeforeCall(entry, storer *ssa.Function) bool {
	var stCalls []ssa.CallInstruction
	stCalls = findCalls(entry, func(_ string, c *ssa.CallCommon) bool { return c.StaticCallee() == storer })
	if len(stCalls) == 0 {
		return false
	}
	for _, f := range w.ifFacts(entry) {
		a := f.Atom
		if (a.Op != "==" && a.Op != "!=") || !strings.HasSuffix(a.L, ".Concurrency") || a.R != "0" {
			continue
		}
		cell := strings.TrimSuffix(a.L, ".Concurrency")
		zeroSucc := f.SuccTrue
		if a.Op == "!=" {
			zeroSucc = f.SuccFalse
		}
		zeroBlk := f.If.Block().Succs[zeroSucc]
		hd, body := naturalLoop(f.If.Block())
		if hd == nil {
			continue
		}
		// the loop ranges over a map M
		M := ""
		for _, in := range hd.Instrs {
			if nx, ok := in.(*ssa.Next); ok {
				if rg, ok := nx.Iter.(*ssa.Range); ok {
					M = w.AP(rg.X)
				}
			}
		}
		if M == "" {
			continue
		}
		var fix *ssa.Store
		var back *ssa.MapUpdate
		allInstrs(entry, func(in ssa.Instruction) {
			if !body[in.Block()] {
				return
			}
			if st, ok := in.(*ssa.Store); ok && w.apAddr(st.Addr) == cell+".Concurrency" && isConstInt(st.Val, 1) && zeroBlk.Dominates(st.Block()) {
				fix = st
			}
			if mu, ok := in.(*ssa.MapUpdate); ok && w.AP(mu.Map) == M && w.AP(mu.Key) == "rangekey("+M+")" {
				back = mu
			}
		})
		if fix == nil || back == nil || !instrDominates(fix, back) || len(earlyExits(hd, body)) > 0 {
			continue
		}
		okCalls := true
		for _, ci := range stCalls {
			if body[ci.Block()] || !hd.Dominates(ci.Block()) {
				okCalls = false
			}
			fromM := false
			for _, arg := range ci.Common().Args {
				if ap := w.AP(arg); ap == "rangeval("+M+")" || strings.HasPrefix(ap, "rangeval("+M+")") {
					fromM = true
				}
			}
			okCalls = okCalls && fromM
		}
		if okCalls {
			return true
		}
	}
	return false
}
