package main

import (
	"fmt"
	"go/token"
	"go/types"
	"sort"
	"strings"

	"golang.org/x/tools/go/ssa"
)

// K10 ARGFLOW — intra-procedural def-use propagation of one value to the argument positions
// and struct fields it can reach: through locals, phis, conversions, append/variadic slices,
// and a short list of pass-through library functions.

type flowSink struct {
	Kind string // "arg" | "field" | "return"
	Name string // callee name / field "T.F"
	Idx  int    // argument index (receiver = 0 for methods, as in CallCommon.Args)
	Pos  ssa.Instruction
}

func (s flowSink) String() string {
	if s.Kind == "arg" {
		return fmt.Sprintf("%s#%d", s.Name, s.Idx)
	}
	return s.Kind + ":" + s.Name
}

var passThrough = map[string]bool{
	"builtin.append": true, "io.MultiWriter": true, "io/ioutil.ReadAll": true, "io.ReadAll": true, "io.MultiReader": true,
}

func (w *World) flowSinks(src ssa.Value) []flowSink {
	var sinks []flowSink
	seen := map[ssa.Value]bool{}
	// srcFn: returns of the function the flow starts in are followed to its callers only when
	// the source is a call made in it (a value produced there), not when it is a parameter
	var srcFn *ssa.Function
	if p, ok := src.(*ssa.Parameter); ok {
		srcFn = p.Parent()
	}
	var visit func(v ssa.Value)
	visit = func(v ssa.Value) {
		if v == nil || seen[v] {
			return
		}
		seen[v] = true
		refs := v.Referrers()
		if refs == nil {
			return
		}
		for _, r := range *refs {
			switch x := r.(type) {
			case *ssa.Extract:
				if x.Index == 0 {
					visit(x)
				}
			case *ssa.Phi, *ssa.ChangeType, *ssa.MakeInterface, *ssa.Convert, *ssa.Slice, *ssa.ChangeInterface, *ssa.TypeAssert:
				visit(x.(ssa.Value))
			case *ssa.IndexAddr:
				// an element read out of a slice the value was put into
				if x.X == v && x.Referrers() != nil {
					for _, ir := range *x.Referrers() {
						if ld, ok := ir.(*ssa.UnOp); ok && ld.Op == token.MUL {
							visit(ld)
						}
					}
				}
			case *ssa.Store:
				if x.Val != v {
					continue
				}
				switch a := x.Addr.(type) {
				case *ssa.Alloc:
					if a.Referrers() != nil {
						for _, ar := range *a.Referrers() {
							if ld, ok := ar.(*ssa.UnOp); ok && ld.Op == token.MUL {
								visit(ld)
							}
							// the cell is captured by a closure: its loads there
							if mc, ok := ar.(*ssa.MakeClosure); ok {
								if cf, ok := mc.Fn.(*ssa.Function); ok {
									for bi, b := range mc.Bindings {
										if b == ssa.Value(a) && bi < len(cf.FreeVars) && cf.FreeVars[bi].Referrers() != nil {
											for _, fr := range *cf.FreeVars[bi].Referrers() {
												if ld, ok := fr.(*ssa.UnOp); ok && ld.Op == token.MUL {
													visit(ld)
												}
											}
										}
									}
								}
							}
						}
					}
				case *ssa.IndexAddr:
					if al, ok := a.X.(*ssa.Alloc); ok && al.Referrers() != nil {
						for _, ar := range *al.Referrers() {
							if sl, ok := ar.(*ssa.Slice); ok {
								visit(sl)
							}
						}
					}
				case *ssa.FieldAddr:
					fr := fieldOfAddr(a)
					sinks = append(sinks, flowSink{Kind: "field", Name: fr.String(), Pos: x})
					// an unexported struct type of the module (a small holder such as "the opened logs of a
					// task"): field-based — the flow goes on at every load of that field in the module
					if n := namedOf(a.X.Type()); n != nil && n.Obj().Pkg() != nil && w.InModulePkg(n.Obj().Pkg()) && !n.Obj().Exported() {
						for _, ld := range w.fieldLoads(n, a.Field) {
							visit(ld)
						}
					}
					// loads of the same field of the same base
					if base, ok := a.X.(*ssa.Alloc); ok && base.Referrers() != nil {
						for _, br := range *base.Referrers() {
							if fa2, ok := br.(*ssa.FieldAddr); ok && fa2.Field == a.Field && fa2.Referrers() != nil {
								for _, fr2 := range *fa2.Referrers() {
									if ld, ok := fr2.(*ssa.UnOp); ok && ld.Op == token.MUL {
										visit(ld)
									}
								}
							}
						}
					}
				}
			case *ssa.Return:
				idx := 0
				for i, rv := range x.Results {
					if rv == v {
						idx = i
					}
				}
				sinks = append(sinks, flowSink{Kind: "return", Name: FuncName(x.Parent()), Idx: idx, Pos: x})
				// a module function handing the value back: go on at its static call sites
				// (result idx of a tuple, or the call value itself)
				if g := x.Parent(); g != nil && w.InModule(g) && g != srcFn {
					for _, caller := range w.ModFuncs {
						for _, ci := range findCalls(caller, func(_ string, c *ssa.CallCommon) bool { return c.StaticCallee() == g }) {
							cv, ok := ci.(*ssa.Call)
							if !ok {
								continue
							}
							if len(x.Results) == 1 {
								visit(cv)
							} else if cv.Referrers() != nil {
								for _, ref := range *cv.Referrers() {
									if ex, ok := ref.(*ssa.Extract); ok && ex.Index == idx {
										visit(ex)
									}
								}
							}
						}
					}
				}
			case ssa.CallInstruction:
				c := x.Common()
				name := calleeName(c)
				// the value is the receiver of an interface method call (w.Close())
				if c.IsInvoke() && c.Value == v {
					sinks = append(sinks, flowSink{Kind: "recv", Name: "invoke:" + c.Method.Name(), Pos: x})
				}
				for i, a := range c.Args {
					if a == v {
						sinks = append(sinks, flowSink{Kind: "arg", Name: name, Idx: i, Pos: x})
					}
				}
				if passThrough[name] {
					if cv, ok := x.(*ssa.Call); ok {
						visit(cv)
					}
				} else if cv, ok := x.(*ssa.Call); ok {
					// a module helper that hands one of its parameters on to its result
					if callee := c.StaticCallee(); callee != nil && callee.Blocks != nil && w.InModule(callee) {
						for i, a := range c.Args {
							if a == v && i < len(callee.Params) && w.paramReachesReturn(callee, i) {
								visit(cv)
							}
						}
					}
				}
			}
		}
	}
	visit(src)
	sort.Slice(sinks, func(i, j int) bool { return sinks[i].String() < sinks[j].String() })
	return sinks
}

// paramReachesReturn: the value of parameter i of f can flow (flowSinks rules) to a result of f.
func (w *World) paramReachesReturn(f *ssa.Function, i int) bool {
	k := [2]interface{}{f, i}
	if v, ok := w.prrMemo[k]; ok {
		return v
	}
	if w.prrMemo == nil {
		w.prrMemo = map[[2]interface{}]bool{}
	}
	w.prrMemo[k] = false
	out := false
	for _, s := range w.flowSinks(f.Params[i]) {
		if s.Kind == "return" && s.Pos.Parent() == f {
			out = true
		}
	}
	w.prrMemo[k] = out
	return out
}

func sinkSet(s []flowSink) map[string]bool {
	m := map[string]bool{}
	for _, x := range s {
		m[x.String()] = true
	}
	return m
}

// paramIndex returns the index in CallCommon.Args of the parameter named name of fn.
func paramIndex(fn *ssa.Function, name string) int {
	for i, p := range fn.Params {
		if p.Name() == name {
			return i
		}
	}
	return -1
}

func sinkList(m map[string]bool) string {
	var s []string
	for k := range m {
		s = append(s, k)
	}
	sort.Strings(s)
	return strings.Join(s, ", ")
}

// fieldLoads: every load of field idx of the named struct type n in the module.
func (w *World) fieldLoads(n *types.Named, idx int) []ssa.Value {
	k := [2]interface{}{n.Obj(), idx}
	if w.fieldLoadMemo == nil {
		w.fieldLoadMemo = map[[2]interface{}][]ssa.Value{}
	}
	if v, ok := w.fieldLoadMemo[k]; ok {
		return v
	}
	var out []ssa.Value
	for _, f := range w.ModFuncs {
		allInstrs(f, func(in ssa.Instruction) {
			switch x := in.(type) {
			case *ssa.FieldAddr:
				if m := namedOf(x.X.Type()); m != nil && m.Obj() == n.Obj() && x.Field == idx && x.Referrers() != nil {
					for _, r := range *x.Referrers() {
						if ld, ok := r.(*ssa.UnOp); ok && ld.Op == token.MUL {
							out = append(out, ld)
						}
					}
				}
			case *ssa.Field:
				if m := namedOf(x.X.Type()); m != nil && m.Obj() == n.Obj() && x.Field == idx {
					out = append(out, x)
				}
			}
		})
	}
	w.fieldLoadMemo[k] = out
	return out
}
