package main

import (
	"fmt"
	"go/token"
	"go/types"
	"sort"
	"strings"

	"golang.org/x/tools/go/ssa"
)

// K1 LOCKSET — interprocedural lock-state analysis for the runner mutex.
//
// Lattice U < R < W < X (X = the runner object is not yet published: constructor context).
// Meet = min. One analysis context per (function, entry state) that actually arises.

type lockState int

const (
	lsU lockState = iota
	lsR
	lsW
	lsX
)

func (s lockState) String() string { return [...]string{"U", "R", "W", "X(unpublished)"}[s] }

type ctxKey struct {
	fn *ssa.Function
	st lockState
}

type ctxOrigin struct {
	parent ctxKey
	how    string
}

type accessOb struct {
	fn     *ssa.Function
	in     ssa.Instruction
	write  bool
	what   string // access path / description
	min    lockState
	minCtx ctxKey
	seen   bool
}

type lockAnalysis struct {
	w         *World
	reachMemo map[[2]ssa.Instruction]bool
	runnerT   *types.Named
	jobT      *types.Named
	taskT     *types.Named
	mxName    string
	wgName    string
	guardMap  []types.Type // guarded map types
	mutable   map[string]bool
	fieldsOf  map[string]bool // all "T.f" of guarded types

	origin        map[ctxKey]ctxOrigin
	work          []ctxKey
	exit          map[ctxKey]lockState
	inprog        map[ctxKey]bool
	access        map[ssa.Instruction]*accessOb
	lockOps       []lockOpOb
	blockOb       []lockOpOb
	pairing       []lockOpOb
	funcsAnalysed map[*ssa.Function]bool
	callSites     int
	rootCache     map[*ssa.Function]bool
	curFn         *ssa.Function // function whose instruction is being evaluated
}

type lockOpOb struct {
	fn   *ssa.Function
	in   ssa.Instruction
	rule string
	key  string
	ok   bool
	msg  string
	ctx  ctxKey
}

func newLockAnalysis(w *World) (*lockAnalysis, error) {
	la := &lockAnalysis{w: w, mutable: map[string]bool{}, fieldsOf: map[string]bool{},
		origin: map[ctxKey]ctxOrigin{}, exit: map[ctxKey]lockState{}, inprog: map[ctxKey]bool{},
		access: map[ssa.Instruction]*accessOb{}, funcsAnalysed: map[*ssa.Function]bool{}}
	la.runnerT = w.NamedType("", "PipelineRunner")
	la.jobT = w.NamedType("", "PipelineJob")
	la.taskT = w.NamedType("", "jobTask")
	if la.runnerT == nil || la.jobT == nil || la.taskT == nil {
		return nil, fmt.Errorf("anchor types PipelineRunner/PipelineJob/jobTask not found in the root package")
	}
	rs := structOf(la.runnerT)
	var rwFields []string
	for i := 0; i < rs.NumFields(); i++ {
		f := rs.Field(i)
		ts := f.Type().String()
		switch ts {
		case "sync.RWMutex":
			rwFields = append(rwFields, canonField(f))
		case "sync.WaitGroup":
			la.wgName = canonField(f)
		}
		if m, ok := f.Type().Underlying().(*types.Map); ok {
			if la.elemGuarded(m.Elem()) {
				la.guardMap = append(la.guardMap, f.Type())
			}
		}
	}
	// the state lock: the runner's RWMutex; with several, the one most lock operations in the module address (a second one is a
	// leaf mutex for some counters, see leafGuardedFields)
	if len(rwFields) == 1 {
		la.mxName = rwFields[0]
	} else if len(rwFields) > 1 {
		count := map[string]int{}
		for _, fn := range w.ModFuncs {
			allInstrs(fn, func(in ssa.Instruction) {
				c := callCommonOf(in)
				if c == nil || len(c.Args) == 0 {
					return
				}
				if f := c.StaticCallee(); f == nil || f.Pkg == nil || f.Pkg.Pkg.Path() != "sync" {
					return
				}
				if fa, ok := c.Args[0].(*ssa.FieldAddr); ok {
					if n := namedOf(fa.X.Type()); n != nil && n.Obj() == la.runnerT.Obj() {
						count[fieldName(fa.X.Type(), fa.Field)]++
					}
				}
			})
		}
		best := ""
		for _, f := range rwFields {
			if best == "" || count[f] > count[best] {
				best = f
			}
		}
		la.mxName = best
	}
	if la.mxName == "" {
		return nil, fmt.Errorf("runner has no sync.RWMutex field (state lock anchor unresolved)")
	}
	for _, T := range []*types.Named{la.runnerT, la.jobT, la.taskT} {
		s := structOf(T)
		for i := 0; i < s.NumFields(); i++ {
			la.fieldsOf[T.Obj().Name()+"."+canonField(s.Field(i))] = true
		}
	}
	la.computeMutable()
	return la, nil
}

// elemGuarded: *PipelineJob, []*PipelineJob, jobTask, []jobTask ...
func (la *lockAnalysis) elemGuarded(t types.Type) bool {
	switch u := t.(type) {
	case *types.Pointer:
		return la.isGuardedNamed(namedOf(u))
	case *types.Slice:
		return la.elemGuarded(u.Elem())
	case *types.Named:
		if la.isGuardedNamed(u) {
			return true
		}
		if s, ok := u.Underlying().(*types.Slice); ok {
			return la.elemGuarded(s.Elem())
		}
	}
	return false
}

func (la *lockAnalysis) isGuardedNamed(n *types.Named) bool {
	if n == nil {
		return false
	}
	o := n.Obj()
	return o == la.runnerT.Obj() || o == la.jobT.Obj() || o == la.taskT.Obj()
}

func (la *lockAnalysis) isGuardedMap(t types.Type) bool {
	for _, g := range la.guardMap {
		if types.Identical(g, t) {
			return true
		}
	}
	return false
}

// guardedSlice: slice (or named slice) whose elements are *PipelineJob or jobTask.
func (la *lockAnalysis) isGuardedSlice(t types.Type) bool {
	s, ok := t.Underlying().(*types.Slice)
	if !ok {
		return false
	}
	switch e := s.Elem().(type) {
	case *types.Pointer:
		return la.isGuardedNamed(namedOf(e))
	case *types.Named:
		return la.isGuardedNamed(e)
	}
	return false
}

// rootField walks a FieldAddr chain outwards and returns the outermost guarded struct
// field it designates ("PipelineJob.Start"), the base pointer of that struct, and ok.
func (la *lockAnalysis) rootField(addr ssa.Value) (key string, base ssa.Value, ok bool) {
	addr = la.w.resolveAddr(addr)
	for {
		fa, isFA := addr.(*ssa.FieldAddr)
		if !isFA {
			return "", nil, false
		}
		n := namedOf(fa.X.Type())
		if la.isGuardedNamed(n) {
			return n.Obj().Name() + "." + fieldName(fa.X.Type(), fa.Field), fa.X, true
		}
		addr = la.w.resolveAddr(fa.X)
	}
}

// fresh reports whether v designates memory allocated in the current function (not yet
// reachable by anyone else through the guarded state).
func (la *lockAnalysis) fresh(v ssa.Value, seen map[ssa.Value]bool) bool {
	if seen == nil {
		seen = map[ssa.Value]bool{}
	}
	if seen[v] {
		return true
	}
	seen[v] = true
	v = la.w.resolveAddr(v)
	switch x := v.(type) {
	case *ssa.Alloc, *ssa.MakeSlice, *ssa.MakeMap:
		// memory allocated by an enclosing function is not fresh inside a closure that
		// may run later (goroutine, callback)
		if in, ok := v.(ssa.Instruction); ok && la.curFn != nil && in.Parent() != la.curFn {
			return false
		}
		return true
	case *ssa.Const:
		return x.Value == nil
	case *ssa.Slice:
		return la.fresh(x.X, seen)
	case *ssa.IndexAddr:
		return la.fresh(x.X, seen)
	case *ssa.FieldAddr:
		return la.fresh(x.X, seen)
	case *ssa.ChangeType:
		return la.fresh(x.X, seen)
	case *ssa.Convert:
		return la.fresh(x.X, seen)
	case *ssa.Phi:
		for _, e := range x.Edges {
			if !la.fresh(e, seen) {
				return false
			}
		}
		return true
	case *ssa.Call:
		if b, ok := x.Call.Value.(*ssa.Builtin); ok && b.Name() == "append" {
			return la.fresh(x.Call.Args[0], seen)
		}
		return false
	case *ssa.UnOp:
		if x.Op == token.MUL {
			r := la.w.Resolve(v)
			if r != v {
				return la.fresh(r, seen)
			}
			// a slice held in a field of an unguarded helper struct (the sorter): fresh if
			// every store to that field stores a fresh value
			if fa, ok := la.w.resolveAddr(x.X).(*ssa.FieldAddr); ok {
				if n := namedOf(fa.X.Type()); n != nil && !la.isGuardedNamed(n) && la.w.InModulePkg(n.Obj().Pkg()) {
					return la.freshField(n, fieldName(fa.X.Type(), fa.Field), seen)
				}
			}
		}
		return false
	case *ssa.Parameter:
		return la.freshParam(x, seen)
	}
	return false
}

// freshParam: every in-module static call site passes a fresh value for this parameter, and
// the function is not enterable from outside the module.
func (la *lockAnalysis) freshParam(p *ssa.Parameter, seen map[ssa.Value]bool) bool {
	fn := p.Parent()
	if fn.Parent() != nil || la.isRootCached(fn) {
		return false
	}
	idx := -1
	for i, q := range fn.Params {
		if q == p {
			idx = i
		}
	}
	n := 0
	okAll := true
	saved := la.curFn
	defer func() { la.curFn = saved }()
	for _, caller := range la.w.ModFuncs {
		la.curFn = caller
		allInstrs(caller, func(in ssa.Instruction) {
			c := callCommonOf(in)
			if c == nil {
				return
			}
			if c.StaticCallee() == fn {
				n++
				if idx >= len(c.Args) || !la.fresh(c.Args[idx], seen) {
					okAll = false
				}
				return
			}
			// the function used as a value: unknown callers
			for _, a := range c.Args {
				if funcValue(a) == fn {
					okAll = false
				}
			}
		})
	}
	return okAll && n > 0
}

func (la *lockAnalysis) freshField(owner *types.Named, field string, seen map[ssa.Value]bool) bool {
	n := 0
	okAll := true
	saved := la.curFn
	defer func() { la.curFn = saved }()
	for _, fn := range la.w.ModFuncs {
		la.curFn = fn
		allInstrs(fn, func(in ssa.Instruction) {
			st, ok := in.(*ssa.Store)
			if !ok {
				return
			}
			fa, ok := la.w.resolveAddr(st.Addr).(*ssa.FieldAddr)
			if !ok {
				return
			}
			if o := namedOf(fa.X.Type()); o == nil || o.Obj() != owner.Obj() || fieldName(fa.X.Type(), fa.Field) != field {
				return
			}
			n++
			if !la.fresh(st.Val, seen) {
				okAll = false
			}
		})
	}
	return okAll && n > 0
}

func (la *lockAnalysis) isRootCached(fn *ssa.Function) bool {
	if la.rootCache == nil {
		la.rootCache = map[*ssa.Function]bool{}
	}
	if v, ok := la.rootCache[fn]; ok {
		return v
	}
	v := la.isRoot(fn)
	la.rootCache[fn] = v
	return v
}

func (la *lockAnalysis) computeMutable() {
	for _, fn := range la.w.ModFuncs {
		la.curFn = fn
		allInstrs(fn, func(in ssa.Instruction) {
			st, ok := in.(*ssa.Store)
			if !ok {
				return
			}
			if key, base, ok := la.rootField(st.Addr); ok {
				if !la.fresh(base, nil) {
					la.mutable[key] = true
				}
				return
			}
			// whole-struct store into non-fresh memory of a guarded struct type
			if p, ok := st.Addr.Type().Underlying().(*types.Pointer); ok {
				if n := namedOf(p.Elem()); la.isGuardedNamed(n) {
					if _, isStruct := p.Elem().Underlying().(*types.Struct); isStruct && !la.fresh(st.Addr, nil) {
						s := structOf(n)
						for i := 0; i < s.NumFields(); i++ {
							la.mutable[n.Obj().Name()+"."+canonField(s.Field(i))] = true
						}
					}
				}
			}
		})
	}
}

func isSyncType(t types.Type) bool {
	if p, ok := t.(*types.Pointer); ok {
		t = p.Elem()
	}
	n, ok := t.(*types.Named)
	return ok && n.Obj().Pkg() != nil && n.Obj().Pkg().Path() == "sync"
}

// ---------------------------------------------------------------------------------

// mxOp classifies a call as an operation on the runner's state lock.
func (la *lockAnalysis) mxOp(c *ssa.CallCommon) string {
	f := c.StaticCallee()
	if f == nil || f.Signature.Recv() == nil || len(c.Args) == 0 {
		return ""
	}
	o := f.Object()
	if o == nil || o.Pkg() == nil || o.Pkg().Path() != "sync" {
		return ""
	}
	rn := namedOf(f.Signature.Recv().Type())
	if rn == nil || rn.Obj().Name() != "RWMutex" {
		return ""
	}
	fa, ok := la.w.resolveAddr(c.Args[0]).(*ssa.FieldAddr)
	if !ok {
		return ""
	}
	if n := namedOf(fa.X.Type()); n == nil || n.Obj() != la.runnerT.Obj() || fieldName(fa.X.Type(), fa.Field) != la.mxName {
		return ""
	}
	switch o.Name() {
	case "Lock", "RLock", "Unlock", "RUnlock", "TryLock", "TryRLock":
		return o.Name()
	}
	return ""
}

func (la *lockAnalysis) isWaitGroupWait(c *ssa.CallCommon) bool {
	f := c.StaticCallee()
	if f == nil || f.Signature.Recv() == nil {
		return false
	}
	o := f.Object()
	if o == nil || o.Pkg() == nil || o.Pkg().Path() != "sync" || o.Name() != "Wait" {
		return false
	}
	rn := namedOf(f.Signature.Recv().Type())
	return rn != nil && rn.Obj().Name() == "WaitGroup"
}

var syncHOF = map[string]bool{
	"sort.Slice": true, "sort.SliceStable": true, "sort.Sort": true, "sort.Stable": true, "sort.Search": true,
	"slices.SortFunc": true, "slices.SortStableFunc": true, "(*sync.Map).Range": true, "(*sync.Once).Do": true,
	"sort.SliceIsSorted": true, "strings.Map": true, "strings.FieldsFunc": true,
}

func (la *lockAnalysis) addCtx(k ctxKey, from ctxKey, how string) {
	if k.fn == nil || k.fn.Blocks == nil || !la.w.InModule(k.fn) {
		return
	}
	if _, ok := la.origin[k]; ok {
		return
	}
	la.origin[k] = ctxOrigin{parent: from, how: how}
	la.work = append(la.work, k)
}

func (la *lockAnalysis) chain(k ctxKey) string {
	var parts []string
	for i := 0; i < 8; i++ {
		o, ok := la.origin[k]
		if !ok {
			break
		}
		parts = append(parts, fmt.Sprintf("%s[%s] %s", FuncName(k.fn), k.st, o.how))
		if o.parent.fn == nil {
			break
		}
		k = o.parent
	}
	return strings.Join(parts, " ← ")
}

// funcValue returns the function a value denotes if it is a closure, a function, or a bound method.
func funcValue(v ssa.Value) *ssa.Function {
	switch x := v.(type) {
	case *ssa.MakeClosure:
		return x.Fn.(*ssa.Function)
	case *ssa.Function:
		return x
	case *ssa.ChangeType:
		return funcValue(x.X)
	case *ssa.MakeInterface:
		return funcValue(x.X)
	}
	return nil
}

// isRoot: functions that code outside the module can enter (at lock state U).
func (la *lockAnalysis) isRoot(fn *ssa.Function) bool {
	if fn.Parent() != nil {
		return false
	}
	o := fn.Object()
	if o == nil {
		return false
	}
	if o.Name() == "main" || o.Name() == "init" || strings.HasPrefix(fn.Name(), "init#") {
		return true
	}
	if !o.Exported() {
		return false
	}
	recv := fn.Signature.Recv()
	if recv == nil {
		return true
	}
	n := namedOf(recv.Type())
	// a read accessor of a record that the runner hands out under its lock (the job, a task, the task list): like the record's
	// exported fields it is meant to be used inside the ReadJob/IterateJobs callbacks — it is not one of the runner's operations.
	// It is judged in the lock state of its callers inside the module; a method that stores or locks is an operation.
	if n != nil && la.isRecordType(n) && la.readOnlyMethod(fn) {
		return false
	}
	if n == nil || n.Obj().Exported() {
		return true
	}
	// a compiler-made wrapper (promoted method of an embedded field) of an unexported type is
	// callable from outside only through an interface: not at all if no value of the type is ever
	// converted to one
	if fn.Synthetic != "" {
		boxed := false
		for _, f := range la.w.ModFuncs {
			allInstrs(f, func(in ssa.Instruction) {
				if mi, ok := in.(*ssa.MakeInterface); ok {
					if xn := namedOf(mi.X.Type()); xn != nil && xn.Obj() == n.Obj() {
						boxed = true
					}
				}
			})
		}
		if !boxed {
			return false
		}
	}
	// exported method of an unexported type: enterable from outside if the type is handed
	// out by an exported function, or if the call graph has a caller outside the module that
	// is not one of the synchronous sort helpers.
	for _, f := range la.w.ModFuncs {
		if fo := f.Object(); fo != nil && fo.Exported() && f.Parent() == nil {
			res := f.Signature.Results()
			for i := 0; i < res.Len(); i++ {
				if rn := namedOf(res.At(i).Type()); rn != nil && rn.Obj() == n.Obj() {
					return true
				}
			}
		}
	}
	if node := la.w.CallGraph().Nodes[fn]; node != nil {
		for _, e := range node.In {
			c := e.Caller.Func
			if la.w.InModule(c) {
				continue
			}
			if c.Pkg != nil && (c.Pkg.Pkg.Path() == "sort" || c.Pkg.Pkg.Path() == "slices") {
				continue
			}
			if c.Synthetic != "" {
				continue
			}
			return true
		}
	}
	return false
}

func (la *lockAnalysis) run() {
	for _, fn := range la.w.ModFuncs {
		if la.isRootCached(fn) {
			la.addCtx(ctxKey{fn, lsU}, ctxKey{}, "exported entry point (callable by embedders, HTTP server, signal/timer/OS)")
		}
	}
	for len(la.work) > 0 {
		k := la.work[0]
		la.work = la.work[1:]
		la.analyze(k, true)
	}
}

// analyze runs the intraprocedural dataflow for one context and returns the exit state.
func (la *lockAnalysis) analyze(k ctxKey, emit bool) lockState {
	if !emit {
		if e, ok := la.exit[k]; ok {
			return e
		}
		if la.inprog[k] {
			return k.st
		}
	}
	la.inprog[k] = true
	defer delete(la.inprog, k)
	fn := k.fn
	if emit {
		la.funcsAnalysed[fn] = true
	}
	n := len(fn.Blocks)
	in := make([]int, n)
	out := make([]int, n)
	for i := range in {
		in[i], out[i] = -1, -1
	}
	in[0] = int(k.st)
	// defers in registration order
	var defers []*ssa.Defer
	allInstrs(fn, func(i ssa.Instruction) {
		if d, ok := i.(*ssa.Defer); ok {
			defers = append(defers, d)
		}
	})
	exit := -1
	dummy := -1
	transfer := func(b *ssa.BasicBlock, st lockState, emit bool, ex *int) lockState {
		for _, ins := range b.Instrs {
			st = la.step(k, ins, st, defers, emit, ex)
		}
		return st
	}
	changed := true
	for iter := 0; changed && iter < 50; iter++ {
		changed = false
		for _, b := range fn.Blocks {
			if b.Index != 0 {
				m := -1
				for _, p := range b.Preds {
					if out[p.Index] < 0 {
						continue
					}
					if m < 0 || out[p.Index] < m {
						m = out[p.Index]
					}
				}
				if m < 0 {
					continue
				}
				in[b.Index] = m
			}
			if in[b.Index] < 0 {
				continue
			}
			o := int(transfer(b, lockState(in[b.Index]), false, &dummy))
			if o != out[b.Index] {
				out[b.Index] = o
				changed = true
			}
		}
	}
	for _, b := range fn.Blocks {
		if in[b.Index] < 0 {
			continue
		}
		if emit {
			// inconsistent lock state at a merge point
			for _, p := range b.Preds {
				if out[p.Index] >= 0 && out[p.Index] != in[b.Index] && lockState(in[b.Index]) != lsX && lockState(out[p.Index]) != lsX {
					la.pairing = append(la.pairing, lockOpOb{fn: fn, in: b.Instrs[0], rule: "K1.pairing", ctx: k,
						key: FuncName(fn) + ": merge of paths with different lock states", ok: false,
						msg: fmt.Sprintf("block %d is entered in state %s from block %d but in %s on another path (an acquire is not released, or is released twice, on some path)", b.Index, lockState(out[p.Index]), p.Index, lockState(in[b.Index]))})
				}
			}
		}
		transfer(b, lockState(in[b.Index]), emit, &exit)
	}
	if exit < 0 {
		exit = int(k.st)
	}
	la.exit[k] = lockState(exit)
	return lockState(exit)
}

// step is the transfer function of one instruction; with emit it also records obligations
// and propagates contexts to callees.
func (la *lockAnalysis) step(k ctxKey, ins ssa.Instruction, st lockState, defers []*ssa.Defer, emit bool, exit *int) lockState {
	w := la.w
	la.curFn = k.fn
	switch x := ins.(type) {
	case *ssa.Alloc:
		if n := namedOf(x.Type()); n != nil && n.Obj() == la.runnerT.Obj() && x.Heap {
			return lsX
		}
	case *ssa.MakeClosure:
		if st == lsX {
			st = k.st // publication of the constructed object
		}
		if emit {
			la.escapeCheck(k, x, st)
		}
	case *ssa.Go:
		if st == lsX {
			st = k.st
		}
		if emit {
			la.callSites++
			for _, callee := range la.calleesOf(x) {
				la.addCtx(ctxKey{callee, lsU}, k, "spawned by go at "+w.InstrPos(x))
			}
		}
	case *ssa.Defer:
		// runs at exit, see RunDefers
	case *ssa.RunDefers:
		for i := len(defers) - 1; i >= 0; i-- {
			// only a defer that can have been registered on a path to this exit runs here (an early
			// return in front of `Lock(); defer Unlock()` does not unlock)
			if !instrDominates(defers[i], x) && !la.reaches(defers[i], x) {
				continue
			}
			st = la.call(k, defers[i], &defers[i].Call, st, emit, "deferred at ")
		}
	case *ssa.Call:
		st = la.call(k, x, &x.Call, st, emit, "called at ")
	case *ssa.Return:
		if st == lsX {
			st = k.st
		}
		if *exit < 0 || int(st) < *exit {
			*exit = int(st)
		}
		if emit {
			if st != k.st && la.locksMx(k.fn) {
				la.pairing = append(la.pairing, lockOpOb{fn: k.fn, in: x, rule: "K1.pairing", ctx: k,
					key: FuncName(k.fn) + ": return with lock state ≠ entry state", ok: false,
					msg: fmt.Sprintf("returns in state %s but was entered in %s: an acquire of %s is not released on this path", st, k.st, la.mxName)})
			}
		}
	case *ssa.Store:
		if emit {
			la.storeOb(k, x, st)
		}
	case *ssa.UnOp:
		if emit && x.Op == token.MUL {
			la.loadOb(k, x, st)
		}
	case *ssa.Lookup:
		if emit && la.isGuardedMap(x.X.Type()) && !la.fresh(x.X, nil) {
			la.record(k, x, false, "map read "+w.AP(x.X)+"[…]", st)
		}
	case *ssa.MapUpdate:
		if emit && la.isGuardedMap(x.Map.Type()) && !la.fresh(x.Map, nil) {
			la.record(k, x, true, "map write "+w.AP(x.Map)+"[…] = …", st)
		}
	case *ssa.Range:
		if emit && la.isGuardedMap(x.X.Type()) && !la.fresh(x.X, nil) {
			la.record(k, x, false, "map range "+w.AP(x.X), st)
		}
	}
	return st
}

func (la *lockAnalysis) locksMx(fn *ssa.Function) bool {
	found := false
	allInstrs(fn, func(in ssa.Instruction) {
		if c := callCommonOf(in); c != nil {
			if op := la.mxOp(c); op == "Lock" || op == "RLock" {
				found = true
			}
		}
	})
	return found
}

func (la *lockAnalysis) calleesOf(site ssa.CallInstruction) []*ssa.Function {
	c := site.Common()
	if f := funcValue(c.Value); f != nil && !c.IsInvoke() {
		return []*ssa.Function{f}
	}
	return la.w.Callees(site)
}

// call handles a (possibly deferred) call at lock state st.
func (la *lockAnalysis) call(k ctxKey, site ssa.CallInstruction, c *ssa.CallCommon, st lockState, emit bool, how string) lockState {
	w := la.w
	if op := la.mxOp(c); op != "" {
		var ok bool
		var ns lockState
		var msg string
		switch op {
		case "Lock", "TryLock":
			ok, ns = st == lsU, lsW
			msg = fmt.Sprintf("%s.Lock() while the state lock is already held (%s): sync.RWMutex is not re-entrant — self-deadlock", la.mxName, st)
		case "RLock", "TryRLock":
			ok, ns = st == lsU, lsR
			msg = fmt.Sprintf("%s.RLock() while the state lock is already held (%s): recursive read locking deadlocks with a pending writer", la.mxName, st)
		case "Unlock":
			ok, ns = st == lsW, lsU
			msg = fmt.Sprintf("%s.Unlock() in state %s (needs W)", la.mxName, st)
		case "RUnlock":
			ok, ns = st == lsR, lsU
			msg = fmt.Sprintf("%s.RUnlock() in state %s (needs R)", la.mxName, st)
		}
		if emit {
			la.lockOps = append(la.lockOps, lockOpOb{fn: k.fn, in: site, rule: "K1b.reentrancy", ctx: k,
				key: FuncName(k.fn) + ": " + la.mxName + "." + op + "()", ok: ok, msg: msg})
		}
		return ns
	}
	if emit {
		la.callSites++
	}
	// blocking on work that needs the lock
	if st != lsU && st != lsX && la.isWaitGroupWait(c) {
		if emit {
			la.blockOb = append(la.blockOb, lockOpOb{fn: k.fn, in: site, rule: "K1b.blocking", ctx: k,
				key: FuncName(k.fn) + ": WaitGroup.Wait()", ok: false,
				msg: fmt.Sprintf("waits for goroutines while holding %s (%s); the awaited goroutines/callbacks need the lock", la.mxName, st)})
		}
	} else if emit && la.isWaitGroupWait(c) {
		la.blockOb = append(la.blockOb, lockOpOb{fn: k.fn, in: site, rule: "K1b.blocking", ctx: k,
			key: FuncName(k.fn) + ": WaitGroup.Wait()", ok: true, msg: "state " + st.String()})
	}
	// builtins on guarded containers
	if b, ok := c.Value.(*ssa.Builtin); ok {
		if emit {
			switch b.Name() {
			case "delete":
				if la.isGuardedMap(c.Args[0].Type()) && !la.fresh(c.Args[0], nil) {
					la.record(k, site, true, "delete("+w.AP(c.Args[0])+", …)", st)
				}
			case "len":
				if la.isGuardedMap(c.Args[0].Type()) && !la.fresh(c.Args[0], nil) {
					la.record(k, site, false, "len("+w.AP(c.Args[0])+")", st)
				}
			case "append":
				if la.isGuardedSlice(c.Args[0].Type()) && !la.fresh(c.Args[0], nil) {
					la.record(k, site, true, "append("+w.AP(c.Args[0])+", …) (may write the shared backing array)", st)
				}
			case "copy":
				if la.isGuardedSlice(c.Args[0].Type()) && !la.fresh(c.Args[0], nil) {
					la.record(k, site, true, "copy into "+w.AP(c.Args[0]), st)
				}
				if la.isGuardedSlice(c.Args[1].Type()) && !la.fresh(c.Args[1], nil) {
					la.record(k, site, false, "copy from "+w.AP(c.Args[1]), st)
				}
			}
		}
		return st
	}
	callees := la.calleesOf(site)
	res := -1
	external := false
	for _, callee := range callees {
		if !w.InModule(callee) || callee.Blocks == nil {
			external = true
			continue
		}
		if emit {
			la.addCtx(ctxKey{callee, st}, k, how+w.InstrPos(site))
		}
		e := int(la.analyze(ctxKey{callee, st}, false))
		if res < 0 || e < res {
			res = e
		}
	}
	if len(callees) == 0 {
		external = true
	}
	if external && emit {
		la.externalCall(k, site, c, st)
	}
	if res < 0 {
		return st
	}
	return lockState(res)
}

// externalCall handles function values and guarded containers handed to code outside the module.
func (la *lockAnalysis) externalCall(k ctxKey, site ssa.CallInstruction, c *ssa.CallCommon, st lockState) {
	w := la.w
	name := ""
	if f := c.StaticCallee(); f != nil {
		name = f.String()
		if o := f.Object(); o != nil && o.Pkg() != nil && f.Signature.Recv() == nil {
			name = o.Pkg().Path() + "." + o.Name()
		}
	}
	sync := syncHOF[name]
	for _, a := range c.Args {
		a = w.Resolve(a)
		if f := funcValue(a); f != nil {
			if sync {
				la.addCtx(ctxKey{f, st}, k, "passed to synchronous "+name+" at "+w.InstrPos(site))
			} else {
				la.addCtx(ctxKey{f, lsU}, k, "callback handed to "+nameOr(name, "external code")+" at "+w.InstrPos(site)+" (runs later, on its own goroutine/stack)")
			}
			continue
		}
		// a function-typed parameter handed on to external code (a helper that arms a timer with the
		// callback it is given): every function value the module's callers pass for it runs there
		if prm, ok := a.(*ssa.Parameter); ok {
			if _, isFunc := prm.Type().Underlying().(*types.Signature); isFunc && prm.Parent() != nil {
				for _, l := range w.argOrigins(prm.Parent(), paramIdxOf(prm), 0) {
					if f := funcValue(w.Resolve(l.v)); f != nil {
						if sync {
							la.addCtx(ctxKey{f, st}, k, "passed through "+FuncName(prm.Parent())+" to synchronous "+name+" at "+w.InstrPos(site))
						} else {
							la.addCtx(ctxKey{f, lsU}, k, "callback handed through "+FuncName(prm.Parent())+" to "+nameOr(name, "external code")+" at "+w.InstrPos(site)+" (runs later, on its own goroutine/stack)")
						}
					}
				}
			}
		}
		if sync && (name == "sort.Sort" || name == "sort.Stable") {
			if mi, ok := a.(*ssa.MakeInterface); ok {
				ms := w.Prog.MethodSets.MethodSet(mi.X.Type())
				for i := 0; i < ms.Len(); i++ {
					switch ms.At(i).Obj().Name() {
					case "Len", "Less", "Swap":
						la.addCtx(ctxKey{w.Prog.MethodValue(ms.At(i)), st}, k, "sort.Interface method used by "+name+" at "+w.InstrPos(site))
					}
				}
			}
		}
		// a guarded slice handed to sort.* is rewritten in place
		if sync && strings.HasPrefix(name, "sort.") || strings.HasPrefix(name, "slices.Sort") {
			if la.isGuardedSlice(a.Type()) && !la.fresh(a, nil) {
				la.record(k, site, true, name+"("+w.AP(a)+") rewrites the slice in place", st)
			}
		}
	}
}

func nameOr(a, b string) string {
	if a != "" {
		return a
	}
	return b
}

// escapeCheck: a closure that is neither called, deferred, spawned nor passed as an argument
// (e.g. stored into a struct or returned) may run anywhere: root it at U.
func (la *lockAnalysis) escapeCheck(k ctxKey, mc *ssa.MakeClosure, st lockState) {
	refs := mc.Referrers()
	if refs == nil {
		return
	}
	fn := mc.Fn.(*ssa.Function)
	for _, r := range *refs {
		switch x := r.(type) {
		case *ssa.Call, *ssa.Go, *ssa.Defer:
			_ = x // handled at the call
		case *ssa.DebugRef:
		default:
			// stored / returned / converted: VTA resolves in-module dynamic calls; in
			// addition treat it as enterable from outside at U.
			la.addCtx(ctxKey{fn, lsU}, k, "function value escapes ("+fmt.Sprintf("%T", r)+") at "+la.w.InstrPos(mc))
		}
	}
}

func (la *lockAnalysis) record(k ctxKey, in ssa.Instruction, write bool, what string, st lockState) {
	ob := la.access[in]
	if ob == nil {
		ob = &accessOb{fn: k.fn, in: in, write: write, what: what, min: st, minCtx: k}
		la.access[in] = ob
		return
	}
	if st < ob.min {
		ob.min, ob.minCtx = st, k
	}
}

func (la *lockAnalysis) storeOb(k ctxKey, st *ssa.Store, ls lockState) {
	w := la.w
	if key, base, ok := la.rootField(st.Addr); ok {
		if isSyncType(st.Addr.Type()) || la.fresh(base, nil) {
			return
		}
		la.record(k, st, true, "store "+key+" ("+w.apAddr(st.Addr)+")", ls)
		return
	}
	addr := w.resolveAddr(st.Addr)
	if ia, ok := addr.(*ssa.IndexAddr); ok {
		if la.isGuardedSlice(ia.X.Type()) && !la.fresh(ia.X, nil) {
			la.record(k, st, true, "element store "+w.AP(ia), ls)
		}
		return
	}
	// whole-struct store through a pointer to a guarded struct
	if p, ok := addr.Type().Underlying().(*types.Pointer); ok {
		if n := namedOf(p.Elem()); la.isGuardedNamed(n) && !la.fresh(addr, nil) {
			if _, isStruct := p.Elem().Underlying().(*types.Struct); isStruct {
				la.record(k, st, true, "whole-struct store *"+w.AP(addr), ls)
			}
		}
	}
}

func (la *lockAnalysis) loadOb(k ctxKey, ld *ssa.UnOp, ls lockState) {
	w := la.w
	if key, base, ok := la.rootField(ld.X); ok {
		if !la.mutable[key] || isSyncType(ld.X.Type()) || la.fresh(base, nil) {
			return
		}
		la.record(k, ld, false, "load "+key+" ("+w.apAddr(ld.X)+")", ls)
		return
	}
	addr := w.resolveAddr(ld.X)
	if ia, ok := addr.(*ssa.IndexAddr); ok {
		if la.isGuardedSlice(ia.X.Type()) && !la.fresh(ia.X, nil) {
			la.record(k, ld, false, "element load "+w.AP(ia), ls)
		}
		return
	}
	if p, ok := addr.Type().Underlying().(*types.Pointer); ok {
		if n := namedOf(p.Elem()); la.isGuardedNamed(n) && !la.fresh(addr, nil) {
			if _, isAlloc := addr.(*ssa.Alloc); isAlloc {
				return
			}
			if _, isStruct := p.Elem().Underlying().(*types.Struct); isStruct {
				la.record(k, ld, false, "whole-struct load *"+w.AP(addr), ls)
			}
		}
	}
}

// sortedAccess returns the access obligations in source order.
func (la *lockAnalysis) sortedAccess() []*accessOb {
	var out []*accessOb
	for _, o := range la.access {
		out = append(out, o)
	}
	sort.Slice(out, func(i, j int) bool {
		a, b := out[i], out[j]
		if a.in.Pos() != b.in.Pos() {
			return a.in.Pos() < b.in.Pos()
		}
		return a.what < b.what
	})
	return out
}

// reaches: some control-flow path leads from instruction a to instruction b (same function).
func (la *lockAnalysis) reaches(a, b ssa.Instruction) bool {
	k := [2]ssa.Instruction{a, b}
	if v, ok := la.reachMemo[k]; ok {
		return v
	}
	if la.reachMemo == nil {
		la.reachMemo = map[[2]ssa.Instruction]bool{}
	}
	saved := nilGuardEdge
	nilGuardEdge = nil // plain reachability
	v := PathQuery{Fn: a.Parent(), Start: []ssa.Instruction{a}, Target: func(x ssa.Instruction) bool { return x == b }}.Find().Found
	nilGuardEdge = saved
	la.reachMemo[k] = v
	return v
}

// isRecordType: the job type, the task type, or a named slice of them (types of values handed out under the runner's lock).
func (la *lockAnalysis) isRecordType(n *types.Named) bool {
	if n.Obj() == la.jobT.Obj() || n.Obj() == la.taskT.Obj() {
		return true
	}
	if sl, ok := n.Underlying().(*types.Slice); ok {
		el := sl.Elem()
		if p, isP := el.(*types.Pointer); isP {
			el = p.Elem()
		}
		if en := namedOf(el); en != nil && (en.Obj() == la.jobT.Obj() || en.Obj() == la.taskT.Obj()) {
			return true
		}
	}
	return false
}

// readOnlyMethod: no store except into its own locals, no map update, no go/defer/send, no mutex operation, and only calls of
// other read-only methods of record types, builtins and functions outside the module that take no pointer to the record.
func (la *lockAnalysis) readOnlyMethod(fn *ssa.Function) bool {
	return la.readOnlyRec(fn, 0)
}

func (la *lockAnalysis) readOnlyRec(fn *ssa.Function, d int) bool {
	if fn == nil || fn.Blocks == nil || d > 3 {
		return false
	}
	ok := true
	allInstrs(fn, func(in ssa.Instruction) {
		switch x := in.(type) {
		case *ssa.Store:
			if _, isAlloc := la.w.resolveAddr(x.Addr).(*ssa.Alloc); isAlloc {
				return
			}
			if fa, isFA := x.Addr.(*ssa.FieldAddr); isFA {
				if _, baseAlloc := la.w.resolveAddr(fa.X).(*ssa.Alloc); baseAlloc {
					return
				}
			}
			if ia, isIA := x.Addr.(*ssa.IndexAddr); isIA {
				if _, baseAlloc := la.w.resolveAddr(ia.X).(*ssa.Alloc); baseAlloc {
					return
				}
			}
			ok = false
		case *ssa.MapUpdate, *ssa.Send, *ssa.Go, *ssa.Defer, *ssa.Select:
			ok = false
		case *ssa.Call:
			if _, isB := x.Call.Value.(*ssa.Builtin); isB {
				return
			}
			if la.mxOp(&x.Call) != "" {
				ok = false
				return
			}
			g := x.Call.StaticCallee()
			if g == nil {
				ok = false
				return
			}
			if la.w.InModule(g) {
				if !la.readOnlyRec(g, d+1) {
					ok = false
				}
			}
		}
	})
	return ok
}

// leafGuardedFields: runner fields that are guarded not by the state lock but by a second mutex of the runner (a "leaf" mutex
// for counters and the like): every access to the field anywhere in the module lies, within its function, behind a Lock of that
// same mutex that dominates it with no Unlock of it in between (a deferred Unlock releases at the exit). Writes need the
// exclusive Lock. Returns field name → mutex field name.
func (la *lockAnalysis) leafGuardedFields() map[string]string {
	out := map[string]string{}
	rs := structOf(la.runnerT)
	var leaf []string
	for i := 0; i < rs.NumFields(); i++ {
		f := rs.Field(i)
		if ts := f.Type().String(); (ts == "sync.Mutex" || ts == "sync.RWMutex") && canonField(f) != la.mxName {
			leaf = append(leaf, canonField(f))
		}
	}
	if len(leaf) == 0 {
		return out
	}
	// op on mutex field m of a runner value: "Lock" | "RLock" | "Unlock" | "RUnlock" | ""
	opOn := func(c *ssa.CallCommon, m string) string {
		f := c.StaticCallee()
		if f == nil || len(c.Args) == 0 {
			return ""
		}
		name := f.Name()
		if name != "Lock" && name != "RLock" && name != "Unlock" && name != "RUnlock" {
			return ""
		}
		fa, ok := c.Args[0].(*ssa.FieldAddr)
		if !ok || fieldName(fa.X.Type(), fa.Field) != m {
			return ""
		}
		if n := namedOf(fa.X.Type()); n == nil || n.Obj() != la.runnerT.Obj() {
			return ""
		}
		return name
	}
	held := func(in ssa.Instruction, m string, write bool) bool {
		fn := in.Parent()
		var locks, unlocks []ssa.Instruction
		allInstrs(fn, func(x ssa.Instruction) {
			c := callCommonOf(x)
			if c == nil {
				return
			}
			if _, isDefer := x.(*ssa.Defer); isDefer {
				return
			}
			switch opOn(c, m) {
			case "Lock":
				locks = append(locks, x)
			case "RLock":
				if !write {
					locks = append(locks, x)
				}
			case "Unlock", "RUnlock":
				unlocks = append(unlocks, x)
			}
		})
		dom := false
		for _, l := range locks {
			if instrDominates(l, in) {
				dom = true
			}
		}
		if !dom {
			return false
		}
		isLock := func(x ssa.Instruction) bool {
			for _, l := range locks {
				if l == x {
					return true
				}
			}
			return false
		}
		if len(unlocks) > 0 {
			if (PathQuery{Fn: fn, Start: unlocks, Target: func(x ssa.Instruction) bool { return x == in }, BlockInstr: isLock}).Find().Found {
				return false
			}
		}
		return true
	}
	// all accesses per runner field
	byField := map[string][]*accessOb{}
	for _, ob := range la.access {
		if i := strings.Index(ob.what, "PipelineRunner."); i >= 0 {
			rest := ob.what[i+len("PipelineRunner."):]
			j := 0
			for j < len(rest) && (rest[j] == '_' || rest[j] >= '0' && rest[j] <= '9' || rest[j] >= 'a' && rest[j] <= 'z' || rest[j] >= 'A' && rest[j] <= 'Z') {
				j++
			}
			byField[rest[:j]] = append(byField[rest[:j]], ob)
		}
	}
	for f, obs := range byField {
		for _, m := range leaf {
			all := len(obs) > 0
			for _, ob := range obs {
				if !held(ob.in, m, ob.write) {
					all = false
					break
				}
			}
			if all {
				out[f] = m
			}
		}
	}
	return out
}
