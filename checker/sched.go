package main

import (
	"fmt"
	"go/constant"
	"go/token"
	"go/types"
	"regexp"
	"sort"
	"strings"

	"golang.org/x/tools/go/ssa"
)

// Shared sub-checks of the scheduling properties (C01–C08, C11, C12, C15, C16). Each emits
// its obligations into the report of the property that invokes it.

// ---------------------------------------------------------------------------------
// admission table (K3)

type admitRow struct {
	count, conc, delay, ignore int64
	limitNil                   bool
	limit, strategy, length    int64
}

func (a admitRow) String() string {
	return fmt.Sprintf("running=%d concurrency=%d start_delay=%d ignoreDelay=%v queue_limit=%s strategy=%d waiting=%d", a.count, a.conc, a.delay, a.ignore == 1, limStr(a.limitNil, a.limit), a.strategy, a.length)
}

// countHost: the function that holds the counting loop — the counting function, or the
// admission function itself when the loop was inlined into it — and the access path of the
// list it ranges over in that function's terms.
func (ro *Roles) countHost() (fn *ssa.Function, list string) {
	if ro.Count != nil {
		fn = ro.Count
		for i, p := range fn.Params {
			if strings.HasPrefix(shapeString(p.Type()), "[]") && strings.HasSuffix(shapeString(p.Type()), "PipelineJob") {
				idx := i
				if fn.Signature.Recv() != nil {
					idx = i - 1
				}
				if idx < 0 {
					return fn, "recv" // a method of a named list type
				}
				return fn, fmt.Sprintf("arg%d", idx)
			}
		}
		return fn, "recv.jobsByPipeline[arg0]"
	}
	if ro.Admit != nil {
		return ro.Admit, "recv.jobsByPipeline[" + ro.admitPipelineArg() + "]"
	}
	return nil, ""
}

// admitPipelineArg: the access path of the admission function's pipeline-name parameter.
func (ro *Roles) admitPipelineArg() string {
	if ro.Admit == nil {
		return "arg0"
	}
	for i, p := range ro.Admit.Params {
		if p.Type().String() == "string" {
			if ro.Admit.Signature.Recv() != nil {
				return fmt.Sprintf("arg%d", i-1)
			}
			return fmt.Sprintf("arg%d", i)
		}
	}
	return "arg0"
}

// admitVars maps the access paths that occur in the admission function's literals to the
// inputs of the decision table. The paths are classified by what they are — a field of the
// pipeline's definition (looked up by the pipeline argument or received as a parameter), the
// length of the pipeline's wait list, the running count (call of the counting function or the
// counter of an inlined counting loop), the ignore-delay parameter — not by a fixed spelling.
func (ro *Roles) admitVars(paths []*Path) (map[string]string, string) {
	w := ro.w
	vars := map[string]string{}
	P := ro.admitPipelineArg()
	defBases := map[string]bool{}
	classify := func(s string) {
		if s == "" || vars[s] != "" {
			return
		}
		base := func(suffix string) {
			defBases[strings.TrimPrefix(strings.TrimSuffix(s, suffix), "*")] = true
		}
		switch {
		case strings.HasSuffix(s, ".Concurrency"):
			vars[s] = "conc"
			base(".Concurrency")
		case strings.HasSuffix(s, ".StartDelay"):
			vars[s] = "delay"
			base(".StartDelay")
		case strings.HasSuffix(s, ".QueueLimit") && strings.HasPrefix(s, "*"):
			vars[s] = "limit"
			base(".QueueLimit")
		case strings.HasSuffix(s, ".QueueLimit"):
			vars[s] = "limitptr"
			base(".QueueLimit")
		case strings.HasSuffix(s, ".QueueStrategy"):
			vars[s] = "strategy"
			base(".QueueStrategy")
		case s == "len(recv."+waitListField+"["+P+"])":
			vars[s] = "len"
		case ro.Count != nil && strings.HasPrefix(s, FuncName(ro.Count)+"("):
			args := strings.TrimSuffix(strings.TrimPrefix(s, FuncName(ro.Count)+"("), ")")
			if args == "recv,"+P || args == "recv.jobsByPipeline["+P+"]" || args == "recv,recv.jobsByPipeline["+P+"]" {
				vars[s] = "count"
			}
		}
	}
	for _, p := range paths {
		for _, l := range p.Lits {
			classify(l.Atom.L)
			classify(l.Atom.R)
		}
	}
	// the ignore-delay parameter: the admission function's bool (or named bool) parameter
	if i := ro.modeParamIdx(); i >= 0 {
		idx := i
		if ro.Admit.Signature.Recv() != nil {
			idx = i - 1
		}
		vars[fmt.Sprintf("arg%d", idx)] = "ignore"
	}
	// the counter of an inlined counting loop; the list's length is at least the count
	if ro.Count == nil {
		if ph := ro.inlinedCounter(); ph != nil {
			vars[w.AP(ph)] = "count"
			vars["len(recv.jobsByPipeline["+P+"])"] = "njobs"
		}
	}
	// side conditions: one definition, and it is the one of the pipeline argument
	if len(defBases) != 1 {
		var bs []string
		for b := range defBases {
			bs = append(bs, b)
		}
		sort.Strings(bs)
		return vars, "the admission function reads definition fields of " + strings.Join(bs, ", ") + " (expected exactly one definition)"
	}
	for b := range defBases {
		if b == "recv.defs.Pipelines["+P+"]" {
			continue
		}
		// a definition parameter: every call site passes the definition of the pipeline it asks about
		okAll, n := true, 0
		for i, prm := range ro.Admit.Params {
			ap := w.AP(prm)
			if ap != b {
				continue
			}
			pIdx := -1
			for j, q := range ro.Admit.Params {
				if w.AP(q) == P {
					pIdx = j
				}
			}
			for _, l := range w.argOrigins(ro.Admit, i, 0) {
				n++
				def := w.AP(l.v)
				pl := ""
				if pIdx >= 0 && pIdx < len(l.in.Common().Args) {
					pl = w.AP(l.in.Common().Args[pIdx])
				}
				// rendered in the caller: its own receiver is "recv" too (methods of the runner)
				ranged := def == "rangeval(recv.defs.Pipelines)" && pl == "rangekey(recv.defs.Pipelines)" // listing: the element of the same iteration
				if def != "recv.defs.Pipelines["+pl+"]" && !strings.HasPrefix(def, "recv.defs.Pipelines["+pl+"]") && !ranged {
					okAll = false
				}
			}
		}
		if !okAll || n == 0 {
			return vars, "the admission function decides on the definition " + b + ", which is not (at every call) the current definition of the pipeline it is asked about"
		}
	}
	return vars, ""
}

// inlinedCounter: the loop-carried counter of a counting loop inside the admission function
// (value compared with the definition's Concurrency).
func (ro *Roles) inlinedCounter() *ssa.Phi {
	w := ro.w
	var out *ssa.Phi
	allInstrs(ro.Admit, func(in ssa.Instruction) {
		b, ok := in.(*ssa.BinOp)
		if !ok {
			return
		}
		for _, pair := range [][2]ssa.Value{{b.X, b.Y}, {b.Y, b.X}} {
			if strings.HasSuffix(w.AP(pair[1]), ".Concurrency") {
				if ph, ok := w.Resolve(pair[0]).(*ssa.Phi); ok {
					out = ph
				}
			}
		}
	})
	return out
}

// admitReference is the decision table as stated by the property and the README.
func (ro *Roles) admitReference(a admitRow) string {
	busy := a.count >= a.conc || (a.delay > 0 && a.ignore == 0)
	switch {
	case !busy:
		return "Start"
	case !a.limitNil && a.limit == 0:
		return "NoQueue"
	case a.strategy == ro.StrategyReplace && a.length > 0:
		return "Replace"
	case !a.limitNil && a.length >= a.limit:
		return "QueueFull"
	}
	return "Queue"
}

func admitRows() []admitRow {
	var rows []admitRow
	for _, count := range []int64{0, 1, 2, 3} {
		for _, conc := range []int64{1, 2} {
			for _, delay := range []int64{0, 5} {
				for _, ignore := range []int64{0, 1} {
					for _, lim := range []int64{-1, 0, 1, 2} { // -1 = unset
						for _, strat := range []int64{0, 1} {
							for _, length := range []int64{0, 1, 2, 3} {
								rows = append(rows, admitRow{count, conc, delay, ignore, lim < 0, lim, strat, length})
							}
						}
					}
				}
			}
		}
	}
	return rows
}

// admissionTable evaluates the admission function on every order type of its inputs.
// mode: "equal" (C05: the whole table), "start-implies-free" (C01), "delay-queues" (C07).
func (ro *Roles) admissionTable(r *Report, rule, mode string) {
	w := ro.w
	if !ro.need(r, rule, map[string]*ssa.Function{"admission function": ro.Admit}) {
		return
	}
	// (helpers of the admission function — named predicates, an extracted queue decision — are spliced in)
	res := w.EnumPaths(ro.Admit, EnumOpts{Inline: true})
	r.Count("paths", len(res.Paths))
	key := FuncName(ro.Admit) + ": decision table (" + mode + ")"
	pos := w.Pos(ro.Admit.Pos())
	if res.Truncated {
		r.Undecided(rule, key, pos, "path cap exceeded")
		return
	}
	vars, vproblem := ro.admitVars(res.Paths)
	if vproblem != "" {
		r.Undecided(rule, key, pos, vproblem)
		return
	}
	inlinedCount := ro.Count == nil
	bad, n := 0, 0
	first := ""
	for _, row := range admitRows() {
		env := map[string]int64{"count": row.count, "njobs": row.count, "conc": row.conc, "delay": row.delay, "ignore": ro.modeValue(row.ignore == 1), "strategy": row.strategy, "len": row.length, "limitptr": 1, "limit": row.limit}
		if row.limitNil {
			env["limitptr"] = 0
			delete(env, "limit")
		}
		n++
		var p *Path
		got := "?"
		if !inlinedCount {
			var why string
			p, why = selectPath(res.Paths, vars, env)
			if p == nil {
				r.Undecided(rule, key, pos, "cannot evaluate the admission function on "+row.String()+": "+why)
				return
			}
			if len(p.Ret) == 1 {
				var v int64
				if _, err := fmt.Sscan(p.Ret[0], &v); err == nil {
					got = ro.ActionName[v]
				}
			}
		} else {
			// the counting loop is part of the function: its branches are unconstrained, every
			// consistent path must give the same decision
			sel, problem := selectPaths(res.Paths, vars, env, true)
			if problem != "" || len(sel) == 0 {
				r.Undecided(rule, key, pos, "cannot evaluate the admission function on "+row.String()+": "+problem)
				return
			}
			for _, pe := range sel {
				if pe.Path.End != "return" || len(pe.Path.Ret) != 1 {
					continue
				}
				g := "?"
				var v int64
				if _, err := fmt.Sscan(pe.Path.Ret[0], &v); err == nil {
					g = ro.ActionName[v]
				}
				if p != nil && g != got {
					got = "?(" + got + "/" + g + ")"
				} else if p == nil {
					got = g
				}
				p = pe.Path
			}
			if p == nil {
				r.Undecided(rule, key, pos, "no returning path for "+row.String())
				return
			}
		}
		want := ro.admitReference(row)
		ok := true
		switch mode {
		case "equal":
			ok = got == want
		case "start-implies-free":
			ok = got != "Start" || row.count < row.conc
		case "delay-queues":
			ok = !(row.delay > 0 && row.ignore == 0) || got != "Start"
		}
		if !ok {
			bad++
			if first == "" {
				first = fmt.Sprintf("%s → code decides %s, stated table says %s (path: %s)", row.String(), got, want, p.LitString())
			}
		}
	}
	r.Count("valuations", n)
	desc := map[string]string{
		"equal":              "every valuation agrees with: busy := running ≥ concurrency ∨ (delay>0 ∧ ¬ignore); ¬busy→Start; limit=0→NoQueue; replace∧waiting>0→Replace; limit set ∧ waiting≥limit→QueueFull; else Queue",
		"start-implies-free": "Start ⇒ running < concurrency on every valuation",
		"delay-queues":       "start_delay > 0 ∧ ¬ignore ⇒ the decision is never Start",
	}[mode]
	r.Check(bad == 0, rule, key, pos, fmt.Sprintf("%d valuations (order types of running?concurrency × delay × ignore × limit × strategy × waiting): %s", n, desc),
		fmt.Sprintf("%d of %d valuations violate the table; first: %s", bad, n, first))
}

// ---------------------------------------------------------------------------------
// running predicate (K3, 8 rows) and counting function shape

func (ro *Roles) runPredTable(r *Report, rule string, equality bool) map[[3]int64]int64 {
	w := ro.w
	if !ro.need(r, rule, map[string]*ssa.Function{"running predicate": ro.RunPred}) {
		return nil
	}
	vars := map[string]string{"recv.Start": "startptr", "recv.Completed": "completed", "recv.Canceled": "canceled"}
	res := w.EnumPaths(ro.RunPred, EnumOpts{})
	r.Count("paths", len(res.Paths))
	table := map[[3]int64]int64{}
	key := FuncName(ro.RunPred) + ": 8-row table"
	pos := w.Pos(ro.RunPred.Pos())
	bad := ""
	for _, s := range []int64{0, 1} {
		for _, c := range []int64{0, 1} {
			for _, x := range []int64{0, 1} {
				r.Count("valuations", 1)
				env := map[string]int64{"startptr": s, "completed": c, "canceled": x}
				p, why := selectPath(res.Paths, vars, env)
				if p == nil || len(p.Ret) != 1 {
					r.Undecided(rule, key, pos, "cannot evaluate: "+why)
					return nil
				}
				v, err := evalBoolTerm(p.Ret[0], vars, env)
				if err != "" {
					r.Undecided(rule, key, pos, "cannot evaluate result "+p.Ret[0]+": "+err)
					return nil
				}
				table[[3]int64{s, c, x}] = v
				want := int64(0)
				if s == 1 && c == 0 && x == 0 {
					want = 1
				}
				if (equality && v != want) || (!equality && want == 1 && v == 0) {
					bad = fmt.Sprintf("started=%v completed=%v canceled=%v → %v, expected %v", s == 1, c == 1, x == 1, v == 1, want == 1)
				}
			}
		}
	}
	if equality {
		r.Check(bad == "", rule, key, pos, "equals Start≠nil ∧ ¬Completed ∧ ¬Canceled on all 8 rows", "the running predicate differs from 'started and neither completed nor canceled': "+bad)
	} else {
		r.Check(bad == "", rule, key, pos, "true whenever Start≠nil ∧ ¬Completed ∧ ¬Canceled (no under-count) on all 8 rows", "a job that is started and neither completed nor canceled is not counted as running: "+bad+" — the limit can be exceeded")
	}
	return table
}

// countShape: the counting function ranges over the whole per-pipeline list of its pipeline
// argument and increments whenever the running predicate holds.
func (ro *Roles) countShape(r *Report, rule string) {
	w := ro.w
	if !ro.need(r, rule, map[string]*ssa.Function{"running predicate": ro.RunPred, "admission function": ro.Admit}) {
		return
	}
	fn, list := ro.countHost()
	if fn == nil {
		r.Undecided(rule, "counting loop", "-", "neither a counting function nor a counting loop in the admission function")
		return
	}
	key := FuncName(fn) + ": counts every running job of the pipeline"
	pos := w.Pos(fn.Pos())
	// the list iterated
	listOK, incOK, noOtherBranch := false, false, true
	facts := w.ifFacts(fn)
	for _, f := range facts {
		a := f.Atom
		if a.Op == "true" && strings.HasPrefix(a.L, FuncName(ro.RunPred)+"("+list+"[") {
			listOK = true
			// the true edge increments the counter
			blk := f.If.Block().Succs[f.SuccTrue]
			for _, in := range blk.Instrs {
				if b, ok := in.(*ssa.BinOp); ok && b.Op == token.ADD && isConstInt(b.Y, 1) {
					// ... and the loop goes on: no return is reachable from here without
					// passing the loop condition again
					var loopIf ssa.Instruction
					for _, g := range facts {
						if g.Atom.Op == "<" && strings.Contains(g.Atom.R, "len("+list+")") {
							loopIf = g.If
						}
					}
					esc := PathQuery{Fn: fn, Start: []ssa.Instruction{in}, Target: isReturn, BlockInstr: func(x ssa.Instruction) bool { return x == loopIf }}.Find()
					incOK = loopIf != nil && !esc.Found
				}
			}
		} else if a.Op == "<" && strings.Contains(a.R, "len("+list+")") {
			// the loop condition
		} else if fn == ro.Count {
			noOtherBranch = false
		}
	}
	// the result is the counter phi (not a constant), and a slice parameter is the pipeline's list at the call
	retOK := true
	if fn == ro.Count {
		allInstrs(fn, func(in ssa.Instruction) {
			if rt, ok := in.(*ssa.Return); ok {
				if _, isC := rt.Results[0].(*ssa.Const); isC {
					retOK = false
				}
			}
		})
		if strings.HasPrefix(list, "arg") || list == "recv" {
			P := ro.admitPipelineArg()
			for _, ci := range findCalls(ro.Admit, func(_ string, c *ssa.CallCommon) bool { return c.StaticCallee() == fn }) {
				okArg := false
				for _, a := range ci.Common().Args {
					if w.AP(a) == "recv.jobsByPipeline["+P+"]" {
						okArg = true
					}
				}
				listOK = listOK && okArg
			}
		}
	} else {
		retOK = ro.inlinedCounter() != nil
	}
	r.Check(listOK && incOK && noOtherBranch && retOK, rule, key, pos,
		"ranges over jobsByPipeline[pipeline argument] and adds 1 exactly when the running predicate holds; no other branch, result is the counter",
		fmt.Sprintf("counting function shape not recognised or wrong (iterates the pipeline's list with the running predicate=%v, increments on it=%v, no other branch=%v, returns the counter=%v): running jobs can be under-counted", listOK, incOK, noOtherBranch, retOK))
}

// ---------------------------------------------------------------------------------
// accept function: effects per action

type acceptPath struct {
	p        *Path
	actions  map[string]bool // possible actions on this path
	rejected bool
	reason   string
}

func (ro *Roles) admitReturnable() map[string]bool {
	out := map[string]bool{}
	if ro.admitRetMemo != nil {
		return ro.admitRetMemo
	}
	for _, p := range ro.w.EnumPaths(ro.Admit, EnumOpts{Inline: true}).Paths {
		if p.End != "return" || len(p.RetVals) != 1 {
			continue
		}
		if c, ok := p.RetVals[0].(*ssa.Const); ok {
			out[ro.ActionName[c.Int64()]] = true
		} else {
			out["?"] = true
		}
	}
	ro.admitRetMemo = out
	return out
}

// actionSetOn narrows the set of possible actions by the literals of a path that compare the
// admission result (a call of callee) with constants.
func (ro *Roles) actionSetOn(p *Path, calleePrefix string) (map[string]bool, string) {
	set := map[string]bool{}
	for k := range ro.admitReturnable() {
		set[k] = true
	}
	admitAP := ""
	for _, l := range p.Lits {
		if l.Atom.Op != "==" || !strings.HasPrefix(l.Atom.L, calleePrefix) {
			continue
		}
		var v int64
		if _, err := fmt.Sscan(l.Atom.R, &v); err != nil {
			continue
		}
		admitAP = l.Atom.L
		name := ro.ActionName[v]
		if l.Val {
			for k := range set {
				if k != name {
					delete(set, k)
				}
			}
		} else {
			delete(set, name)
		}
	}
	return set, admitAP
}

func setStr(m map[string]bool) string {
	var s []string
	for k := range m {
		s = append(s, k)
	}
	sort.Strings(s)
	return "{" + strings.Join(s, ",") + "}"
}

func isTraceEffect(e Effect, ro *Roles) (bool, string) {
	switch e.Kind {
	case "mapupdate", "delete":
		for _, m := range []string{"jobsByID", "jobsByPipeline", "waitListByPipeline"} {
			if strings.Contains(e.Target, "recv."+m) || strings.Contains(e.Val, "recv."+m) && e.Kind == "delete" {
				return true, e.Kind + " " + m
			}
		}
	case "store":
		if strings.Contains(e.Target, "recv.waitListByPipeline") || strings.Contains(e.Target, "recv.jobsBy") {
			return true, "store " + e.Target
		}
		if strings.HasPrefix(e.Target, "recv.") && !strings.HasPrefix(e.Target, "recv.mx") {
			return true, "store " + e.Target
		}
	case "call", "defer", "go":
		if e.Target == "time.AfterFunc" {
			return true, "timer armed"
		}
		if e.Callee != nil && (e.Callee == ro.Persist || e.Callee == ro.Start) {
			return true, e.Kind + " " + FuncName(e.Callee)
		}
		if e.Kind == "go" {
			return true, "goroutine"
		}
	}
	return false, ""
}

// isSnapshotCtor: a function from the definition's task map to the job's own task list.
func (ro *Roles) isSnapshotCtor(f *ssa.Function) bool {
	ps := f.Signature.Params()
	for i := 0; i < ps.Len(); i++ {
		t := ps.At(i).Type().String()
		if strings.HasPrefix(t, "map[string]") && strings.HasSuffix(t, "definition.TaskDef") {
			return f.Signature.Results().Len() == 1
		}
	}
	return false
}

// acceptEffects checks the accept function path by path. which selects rule groups.
func (ro *Roles) acceptEffects(r *Report, which map[string]bool) {
	w := ro.w
	if !ro.need(r, "accept", map[string]*ssa.Function{"accept function": ro.Accept, "admission function": ro.Admit, "start function": ro.Start, "persist request": ro.Persist}) {
		return
	}
	fn := ro.Accept
	fname := FuncName(fn)
	// every helper is spliced in except the task-snapshot constructor (it is referred to by name below)
	res := w.EnumPaths(fn, EnumOpts{Inline: true, Opaque: ro.isSnapshotCtor})
	r.Count("paths", len(res.Paths))
	if res.Truncated || len(res.Paths) == 0 {
		r.Undecided("accept.paths", fname, w.Pos(fn.Pos()), "cannot enumerate the accept function's paths")
		return
	}
	admitPrefix := FuncName(ro.Admit) + "("
	type agg struct {
		ok  bool
		bad string
		pos string
		n   int
	}
	aggs := map[string]*agg{}
	note := func(rule, key string, ok bool, pos, bad string) {
		k := rule + "\x00" + key
		a := aggs[k]
		if a == nil {
			a = &agg{ok: true, pos: pos}
			aggs[k] = a
		}
		a.n++
		if !ok && a.ok {
			a.ok, a.bad, a.pos = false, bad, pos
		}
	}
	jobAP := ""
	for _, p := range res.Paths {
		if p.End != "return" || len(p.Ret) != 2 {
			continue
		}
		set, admitAP := ro.actionSetOn(p, admitPrefix)
		pos := w.Pos(fn.Pos())
		if len(p.Lits) > 0 {
			pos = w.InstrPos(p.Lits[len(p.Lits)-1].At)
		}
		rejected := p.Ret[1] != "nil"
		// the admission call passes ignore = false
		if admitAP != "" && which["ignore-false"] {
			note("accept.ignore-false", fname+": admission call", ro.isModeConst(strings.TrimSuffix(admitAP[strings.LastIndex(admitAP, ",")+1:], ")"), false), pos, "the accept function asks the admission decision with ignoreStartDelay = "+admitAP[strings.LastIndex(admitAP, ",")+1:]+": a delayed job can be started by the request itself")
		}
		if rejected {
			if which["rejected-effect-free"] {
				var traces []string
				for _, e := range p.Effects {
					if t, what := isTraceEffect(e, ro); t {
						traces = append(traces, what)
					}
				}
				note("accept.rejected-effect-free", fname+": rejected request "+p.Ret[1], len(traces) == 0, pos,
					"a rejected request ("+p.Ret[1]+") leaves a trace: "+strings.Join(traces, ", ")+" (path: "+p.LitString()+")")
			}
			if which["shutdown-gate"] && strings.Contains(p.Ret[1], "ErrShuttingDown") {
				// the gate is the first branch
				first := len(p.Lits) > 0 && strings.HasSuffix(p.Lits[0].Atom.L, ".isShuttingDown") && flagSetLit(p.Lits[0])
				note("accept.shutdown-gate", fname+": shutting-down test first", first, pos, "the shutting-down flag is not the first test of the accept function")
			}
			continue
		}
		// success path
		var idReg, pipeReg, persist, push, replaceStore, prevCanceled, startCall, timer bool
		var timerDur, jobVal string
		startIdx, pipeIdx := -1, -1
		unlockBetween := false
		admitIdx := -1
		for i, e := range substFreshFields(p.Effects) {
			switch {
			case e.Kind == "mapupdate" && strings.HasPrefix(e.Target, "recv.jobsByID["):
				idReg = true
				jobVal = e.Val
			case e.Kind == "mapupdate" && strings.HasPrefix(e.Target, "recv.jobsByPipeline[arg0]") && strings.HasPrefix(e.Val, "append(recv.jobsByPipeline[arg0],["):
				pipeReg = true
				pipeIdx = i
			case (e.Kind == "defer" || e.Kind == "call") && e.Callee == ro.Persist:
				persist = true
			case e.Kind == "mapupdate" && strings.HasPrefix(e.Target, "recv.waitListByPipeline[arg0]"):
				if e.Val == "append(recv.waitListByPipeline[arg0],["+jobVal+"])" {
					push = true
				} else {
					note("accept.queue-form", fname+": wait-list update", false, w.InstrPos(e.In), "wait list is updated with "+e.Val+", not a push-back of the new job")
				}
			case e.Kind == "store" && strings.HasPrefix(e.Target, "recv.waitListByPipeline[arg0][") && strings.HasSuffix(e.Target, "]"):
				if e.Target == "recv.waitListByPipeline[arg0][(len(recv.waitListByPipeline[arg0]) - 1)]" && e.Val == jobVal {
					replaceStore = true
				} else {
					note("accept.replace-form", fname+": wait-list slot store", false, w.InstrPos(e.In), "stores "+e.Val+" into "+e.Target+": not 'overwrite the last entry with the new job'")
				}
			case e.Kind == "store" && e.Target == "recv.waitListByPipeline[arg0][(len(recv.waitListByPipeline[arg0]) - 1)].Canceled" && e.Val == "true":
				prevCanceled = true
			case e.Kind == "call" && e.Callee == ro.Start:
				startCall = true
				startIdx = i
				if which["start-arg"] {
					note("accept.start-arg", fname+": job passed to the start function", strings.HasSuffix(e.Val, ","+jobVal), w.InstrPos(e.In), "the start function is called with "+e.Val+", not the job just registered")
				}
			case e.Kind == "call" && e.Target == "time.AfterFunc":
				timer = true
				timerDur = e.Val[:strings.Index(e.Val+",", ",")]
			case e.Kind == "call" && e.Callee == ro.Admit:
				admitIdx = i
			case e.Kind == "call" && (strings.HasSuffix(e.Target, "RWMutex).Unlock") || strings.HasSuffix(e.Target, "RWMutex).RUnlock")):
				if admitIdx >= 0 {
					unlockBetween = true
				}
			}
			if jobAP == "" && e.Kind == "mapupdate" && strings.HasPrefix(e.Target, "recv.jobsByID[") {
				jobAP = strings.TrimPrefix(e.Val, "&")
			}
		}
		if which["registered"] {
			note("accept.registered", fname+": accepted job is indexed", idReg && pipeReg, pos, fmt.Sprintf("a request is acknowledged but the job is not registered in both indexes (by id=%v, by pipeline=%v) on path %s: it cannot be reported, counted or canceled", idReg, pipeReg, p.LitString()))
			note("accept.persist-requested", fname+": accepted job is persisted", persist, pos, "a request is acknowledged without a persist request: the change never reaches the store (path "+p.LitString()+")")
		}
		act := setStr(set)
		if which["per-action"] {
			switch {
			case len(set) == 1 && set["Queue"]:
				note("accept.action-queue", fname+": action Queue", push && !startCall && !replaceStore, pos, fmt.Sprintf("on Queue the job must be pushed to the back of the wait list and not started (push=%v start=%v replace=%v)", push, startCall, replaceStore))
			case len(set) == 1 && set["Replace"]:
				// the admission table (table.admission) answers Replace only for a non-empty wait list: a
				// defensive `len(waitList) == 0` branch under Replace is not taken
				emptyGuard := false
				for _, l := range p.Lits {
					if l.Atom.L == "len(recv."+waitListField+"[arg0])" && (l.Atom.Op == "==" && l.Atom.R == "0" && l.Val || l.Atom.Op == "<=" && l.Atom.R == "0" && l.Val || l.Atom.Op == "<" && l.Atom.R == "1" && l.Val) {
						emptyGuard = true
					}
					if l.Atom.R == "len(recv."+waitListField+"[arg0])" && l.Atom.Op == "<" && l.Atom.L == "0" && !l.Val {
						emptyGuard = true
					}
				}
				if emptyGuard {
					break
				}
				note("accept.action-replace", fname+": action Replace", replaceStore && prevCanceled && !startCall && !push, pos, fmt.Sprintf("on Replace the last waiting job must be marked canceled and its slot overwritten by the new job (overwritten=%v previous canceled=%v start=%v push=%v)", replaceStore, prevCanceled, startCall, push))
			case len(set) == 1 && set["Start"]:
				note("accept.action-start", fname+": action Start", startCall && !push && !replaceStore, pos, fmt.Sprintf("on Start the job must be started and must not enter the wait list (start=%v push=%v replace=%v)", startCall, push, replaceStore))
			default:
				note("accept.action-set", fname+": success path with action set "+act, false, pos, "a success path is taken for actions "+act+": the switch over the admission decision is not exhaustive (path "+p.LitString()+")")
			}
		}
		if which["admit-guard"] && startCall {
			note("accept.admit-guard", fname+": start only on Start", len(set) == 1 && set["Start"], pos, "the start function is called where the admission decision may be "+act)
			note("accept.registered-before-start", fname+": indexed before started", pipeIdx >= 0 && pipeIdx < startIdx, pos, "the job is started before it is appended to the per-pipeline index: the next admission does not count it")
			note("accept.one-region", fname+": decision and start in one lock region", !unlockBetween, pos, "the state lock is released between the admission decision and the start")
		}
		if which["timer"] {
			// timer armed ⇔ the job's own delay > 0, with the job's own delay
			var delayLit *Lit
			for i, l := range p.Lits {
				if strings.HasSuffix(l.Atom.L, ".StartDelay") && l.Atom.R == "0" && l.Atom.Op == "<=" {
					delayLit = &p.Lits[i]
				}
			}
			if delayLit == nil {
				note("accept.timer", fname+": timer armed iff delay > 0", false, pos, "no test of the job's own start delay on a success path")
			} else {
				positive := !delayLit.Val
				okT := timer == positive && (!timer || timerDur == delayLit.Atom.L)
				note("accept.timer", fname+": timer armed iff delay > 0", okT, pos, fmt.Sprintf("delay>0=%v but timer armed=%v with duration %s (expected the job's own %s)", positive, timer, timerDur, delayLit.Atom.L))
			}
		}
	}
	if which["shutdown-gate"] {
		if _, ok := aggs["accept.shutdown-gate\x00"+fname+": shutting-down test first"]; !ok {
			note("accept.shutdown-gate", fname+": shutting-down test first", false, w.Pos(fn.Pos()), "the accept function has no path that rejects a request because the runner is shutting down: requests issued after (or during) shutdown are accepted and left unfinished")
		}
	}
	// snapshot of the definition in the job literal (C16.1 / C07.2)
	if which["snapshot"] && jobAP != "" {
		want := map[string]string{
			"StartDelay": "recv.defs.Pipelines[arg0].StartDelay", "Env": "recv.defs.Pipelines[arg0].Env",
			"Tasks": "buildJobTasks(recv.defs.Pipelines[arg0].Tasks)", "Pipeline": "arg0",
		}
		got := map[string]string{}
		for _, p := range res.Paths {
			for _, e := range p.Effects {
				if e.Kind == "store" && strings.HasPrefix(e.Target, jobAP+".") {
					got[strings.TrimPrefix(e.Target, jobAP+".")] = e.Val
				}
			}
		}
		var ks []string
		for k := range want {
			ks = append(ks, k)
		}
		sort.Strings(ks)
		for _, k := range ks {
			okS := got[k] == want[k]
			if k == "Tasks" {
				okS = strings.HasSuffix(got[k], "(recv.defs.Pipelines[arg0].Tasks)") && !strings.HasPrefix(got[k], "recv.")
			}
			r.Check(okS, "accept.snapshot", fname+": job."+k, w.Pos(fn.Pos()), "job."+k+" ← "+got[k]+" (definition looked up in the same lock region)", "job."+k+" is "+nameOr(got[k], "not set")+", expected "+want[k]+": the job does not carry a snapshot of its definition")
		}
	}
	var keys []string
	for k := range aggs {
		keys = append(keys, k)
	}
	sort.Strings(keys)
	for _, k := range keys {
		a := aggs[k]
		parts := strings.SplitN(k, "\x00", 2)
		if a.ok {
			r.OK(parts[0], parts[1], a.pos, fmt.Sprintf("holds on all %d path(s) where it applies", a.n))
		} else {
			r.Viol(parts[0], parts[1], a.pos, a.bad)
		}
	}
}

var plainParamRe = regexp.MustCompile(`^arg[0-9]+$`)
var freshFieldRe = regexp.MustCompile(`^local:[A-Za-z0-9_#]+\.[A-Za-z0-9_]+$`)

// substFreshFields rewrites, in path order, reads of a field of an object allocated on the path
// (`local:x.F`, `&local:x.F`) into the value that was stored there last (the composite literal's
// initialiser): a helper that is handed the new job and uses job.Pipeline then reads the same access
// path as the caller that uses its own parameter.
func substFreshFields(effs []Effect) []Effect {
	out := make([]Effect, len(effs))
	cur := map[string]string{}
	var keys []string
	sub := func(s string) string {
		if len(cur) == 0 || !strings.Contains(s, "local:") {
			return s
		}
		for _, k := range keys {
			v, ok := cur[k]
			if !ok {
				continue
			}
			for _, pat := range []string{"&" + k, k} {
				for from := 0; ; {
					i := strings.Index(s[from:], pat)
					if i < 0 {
						break
					}
					i += from
					end := i + len(pat)
					if end < len(s) && (s[end] == '_' || s[end] >= '0' && s[end] <= '9' || s[end] >= 'a' && s[end] <= 'z' || s[end] >= 'A' && s[end] <= 'Z') {
						from = end
						continue
					}
					s = s[:i] + v + s[end:]
					from = i + len(v)
				}
			}
		}
		return s
	}
	for i, e := range effs {
		e2 := e
		if e.Kind == "store" && freshFieldRe.MatchString(e.Target) {
			e2.Val = sub(e.Val)
			if plainParamRe.MatchString(e2.Val) { // only a parameter handed on unchanged (Pipeline: pipeline)
				if _, seen := cur[e.Target]; !seen {
					keys = append(keys, e.Target)
					// longer keys first, so that x.FooBar is not rewritten as x.Foo + "Bar"
					sort.Slice(keys, func(a, b int) bool { return len(keys[a]) > len(keys[b]) })
				}
				cur[e.Target] = e2.Val
			} else {
				delete(cur, e.Target)
			}
		} else {
			e2.Target, e2.Val = sub(e.Target), sub(e.Val)
		}
		out[i] = e2
	}
	return out
}

// isTruthyConst: the constant true, or a non-zero integer constant (a state of a small enum).
func isTruthyConst(v ssa.Value) bool {
	c, ok := v.(*ssa.Const)
	if !ok || c.Value == nil {
		return false
	}
	if c.Value.Kind() == constant.Bool {
		return constant.BoolVal(c.Value)
	}
	if c.Value.Kind() == constant.Int {
		n, exact := constant.Int64Val(c.Value)
		return exact && n != 0
	}
	return false
}

// flagSetLit: the literal holds exactly when the flag (bool, or enum with 0 = not set) is set.
func flagSetLit(l Lit) bool {
	switch {
	case l.Atom.Op == "true":
		return l.Val
	case l.Atom.Op == "==" && l.Atom.R != "0":
		return l.Val
	case l.Atom.Op == "==" && l.Atom.R == "0", l.Atom.Op == "!=" && l.Atom.R != "0":
		return !l.Val
	case l.Atom.Op == "!=" && l.Atom.R == "0":
		return l.Val
	}
	return false
}

// modeParamIdx: the index (in Params) of the admission function's "ignore the start delay" parameter:
// its bool parameter, or a parameter of a small integer enum of the module other than the action type.
func (ro *Roles) modeParamIdx() int {
	if ro.Admit == nil {
		return -1
	}
	for i, p := range ro.Admit.Params {
		if b, ok := p.Type().Underlying().(*types.Basic); ok && b.Kind() == types.Bool {
			return i
		}
	}
	for i, p := range ro.Admit.Params {
		if n, ok := p.Type().(*types.Named); ok && n.Obj().Pkg() == ro.Root.Pkg && !types.Identical(n, ro.ActionT) {
			if b, ok := n.Underlying().(*types.Basic); ok && b.Info()&types.IsInteger != 0 {
				return i
			}
		}
	}
	return -1
}

// modeValues decides what the values of the mode parameter MEAN from the admission function itself:
// a value "ignores" the delay when a delayed job with a free slot gets Start under it, and "respects"
// it when the same job does not. (A bool named ignoreStartDelay, its negation applyStartDelay and a
// two-valued enum are all covered; no name is consulted.) ok is false when the parameter has no
// unique respecting and no unique ignoring value — the table is then evaluated with false=0/true=1.
func (ro *Roles) modeValues() (respect, ignore int64, ok bool) {
	if ro.modeMemo != nil {
		return ro.modeMemo[0], ro.modeMemo[1], ro.modeMemo[2] == 1
	}
	ro.modeMemo = &[3]int64{0, 1, 0}
	i := ro.modeParamIdx()
	if i < 0 {
		return 0, 1, false
	}
	var cands []int64
	if b, isB := ro.Admit.Params[i].Type().Underlying().(*types.Basic); isB && b.Kind() == types.Bool {
		cands = []int64{0, 1}
	} else {
		sc := ro.Root.Pkg.Scope()
		for _, n := range sc.Names() {
			if c, isC := sc.Lookup(n).(*types.Const); isC && types.Identical(c.Type(), ro.Admit.Params[i].Type()) {
				if v, exact := constant.Int64Val(c.Val()); exact {
					cands = append(cands, v)
				}
			}
		}
	}
	res := ro.w.EnumPaths(ro.Admit, EnumOpts{Inline: true})
	if res.Truncated {
		return 0, 1, false
	}
	vars, problem := ro.admitVars(res.Paths)
	if problem != "" {
		return 0, 1, false
	}
	var resp, ign []int64
	for _, v := range cands {
		env := map[string]int64{"count": 0, "njobs": 0, "conc": 1, "delay": 5, "ignore": v, "strategy": 0, "len": 0, "limitptr": 0}
		sel, prob := selectPaths(res.Paths, vars, env, true)
		if prob != "" || len(sel) == 0 {
			return 0, 1, false
		}
		starts, other := false, false
		for _, pe := range sel {
			if pe.Path.End != "return" || len(pe.Path.Ret) != 1 {
				continue
			}
			if pe.Path.Ret[0] == fmt.Sprint(ro.Actions["Start"]) {
				starts = true
			} else {
				other = true
			}
		}
		switch {
		case starts && !other:
			ign = append(ign, v)
		case other && !starts:
			resp = append(resp, v)
		}
	}
	if len(resp) == 1 && len(ign) == 1 {
		ro.modeMemo = &[3]int64{resp[0], ign[0], 1}
		return resp[0], ign[0], true
	}
	return 0, 1, false
}

// modeValue: the value of the mode parameter that stands for ignore = b.
func (ro *Roles) modeValue(b bool) int64 {
	resp, ign, _ := ro.modeValues()
	if b {
		return ign
	}
	return resp
}

// isModeConst: the rendered argument s is the constant that stands for ignore = b.
func (ro *Roles) isModeConst(s string, b bool) bool {
	want := ro.modeValue(b)
	switch s {
	case "false":
		return want == 0
	case "true":
		return want == 1
	}
	var v int64
	if _, err := fmt.Sscan(s, &v); err == nil && fmt.Sprint(v) == s {
		return v == want
	}
	return false
}
