package main

import (
	"fmt"
	"go/token"
	"strings"

	"golang.org/x/tools/go/ssa"
)

// ---------------------------------------------------------------------------------
// C03.1 RETRIGGER: every freeing event is followed by a dequeue attempt before return.

// alwaysDequeues: every path of f from entry to a return passes a call of a dequeue function
// (directly, or through a callee that always does) — a wrapper counts as "re-runs the
// dequeue" only when all its paths do (Min et al.: wrappers by all-paths summaries).
func (ro *Roles) alwaysDequeues(f *ssa.Function, depth int) bool {
	if f == nil || f.Blocks == nil || !ro.w.InModule(f) || depth > 3 {
		return false
	}
	if ro.isDequeue(f) {
		return true
	}
	if ro.alwaysMemo == nil {
		ro.alwaysMemo = map[*ssa.Function]int{}
	}
	switch ro.alwaysMemo[f] {
	case 1:
		return false // in progress (recursion): assume not
	case 2:
		return true
	case 3:
		return false
	}
	ro.alwaysMemo[f] = 1
	calls := map[ssa.Instruction]bool{}
	allInstrs(f, func(in ssa.Instruction) {
		if c, ok := in.(*ssa.Call); ok {
			if cf := c.Call.StaticCallee(); cf != nil && (ro.isDequeue(cf) || ro.alwaysDequeues(cf, depth+1)) {
				calls[in] = true
			}
		}
	})
	res := PathQuery{Fn: f, Target: isReturn, BlockInstr: func(x ssa.Instruction) bool { return calls[x] }}.Find()
	if len(calls) > 0 && !res.Found {
		ro.alwaysMemo[f] = 2
		return true
	}
	ro.alwaysMemo[f] = 3
	return false
}

// dequeueCallAfter: every path from ev to a return passes a call that (always) re-runs the dequeue.
func (ro *Roles) dequeueCallAfter(fn *ssa.Function, ev ssa.Instruction) PathResult {
	calls := map[ssa.Instruction]bool{}
	allInstrs(fn, func(in ssa.Instruction) {
		if c, ok := in.(*ssa.Call); ok {
			if cf := c.Call.StaticCallee(); cf != nil && ro.alwaysDequeues(cf, 0) {
				calls[in] = true
			}
		}
	})
	return PathQuery{Fn: fn, Start: []ssa.Instruction{ev}, Target: isReturn,
		BlockInstr: func(x ssa.Instruction) bool { return calls[x] }}.Find()
}

func (ro *Roles) retrigger(r *Report, rule string) {
	w := ro.w
	if !ro.need(r, rule, map[string]*ssa.Function{"completion handler": ro.Completed, "start function": ro.Start, "internal cancel": ro.CancelInt, "delay-expiry handler": ro.Expiry}) {
		return
	}
	type ev struct {
		fn   *ssa.Function
		in   ssa.Instruction
		what string
	}
	var evs []ev
	// an event may sit in a helper of its anchor (region = the anchor and the helpers spliced into it)
	region := func(f *ssa.Function) []*ssa.Function { return append([]*ssa.Function{f}, ro.helpersOf(f)...) }
	for _, f := range region(ro.Completed) {
		for _, st := range ro.storesTo(f, "PipelineJob.Completed", func(s *ssa.Store) bool { return isBoolConst(s.Val, true) }) {
			evs = append(evs, ev{ro.Completed, st, "a job leaves the running set (Completed = true)"})
		}
	}
	for _, f := range region(ro.Start) {
		for _, st := range ro.storesTo(f, "PipelineJob.Canceled", func(s *ssa.Store) bool { return isBoolConst(s.Val, true) }) {
			evs = append(evs, ev{ro.Start, st, "a popped job fails to start (graph error)"})
		}
	}
	for _, f := range region(ro.Expiry) {
		for _, st := range ro.storesTo(f, "PipelineJob.startTimer", func(s *ssa.Store) bool { return isNilConst(s.Val) }) {
			evs = append(evs, ev{ro.Expiry, st, "the head's delay expires (startTimer = nil)"})
		}
	}
	// cancel of a waiting job: the marking on the unstarted path
	for _, f := range region(ro.CancelInt) {
		if f == ro.MarkCanceled {
			continue
		}
		if ro.MarkCanceled != nil {
			for _, ci := range findCalls(f, func(_ string, c *ssa.CallCommon) bool { return c.StaticCallee() == ro.MarkCanceled }) {
				evs = append(evs, ev{ro.CancelInt, ci, "a waiting job is canceled (it leaves the wait list; the head may change)"})
			}
		}
		for _, st := range ro.storesTo(f, "PipelineJob.Canceled", func(s *ssa.Store) bool { return isBoolConst(s.Val, true) }) {
			evs = append(evs, ev{ro.CancelInt, st, "a waiting job is canceled (it leaves the wait list; the head may change)"})
		}
	}
	for _, e := range evs {
		// a helper that returns without the dequeue: its caller (level by level up to the anchor) must do it
		// on every path after the call
		var res PathResult
		var covered func(in ssa.Instruction, depth int) bool
		covered = func(in ssa.Instruction, depth int) bool {
			res = ro.dequeueCallAfter(in.Parent(), in)
			if !res.Found {
				return true
			}
			if in.Parent() == e.fn || depth > 3 {
				return false
			}
			var sites []ssa.Instruction
			for _, f := range region(e.fn) {
				for _, ci := range findCalls(f, func(_ string, c *ssa.CallCommon) bool { return c.StaticCallee() == in.Parent() }) {
					sites = append(sites, ci)
				}
			}
			if len(sites) == 0 {
				return false
			}
			for _, s := range sites {
				if !covered(s, depth+1) {
					return false
				}
			}
			return true
		}
		okEv := covered(e.in, 0)
		r.Check(okEv, rule, FuncName(e.fn)+": "+e.what, w.InstrPos(e.in),
			"every path from the event to a return passes a call of the dequeue function",
			"after this event a return is reachable without a dequeue attempt ("+res.String()+"): a free slot or an eligible head is not noticed until some unrelated event happens — queued jobs can wait forever")
	}
	r.Count("freeing_events", len(evs))
}

// ---------------------------------------------------------------------------------
// C03.2 / C07.4-5: the delay-expiry handler and the start timer

func (ro *Roles) expiryHandler(r *Report, rule string) {
	w := ro.w
	if !ro.need(r, rule, map[string]*ssa.Function{"delay-expiry handler": ro.Expiry, "accept function": ro.Accept}) {
		return
	}
	fn := ro.Expiry
	fname := FuncName(fn)
	res := w.EnumPaths(fn, EnumOpts{Inline: true, Opaque: w.statelessCallee})
	r.Count("paths", len(res.Paths))
	ok := true
	detail := ""
	n := 0
	for _, p := range res.Paths {
		found, canceled := false, false
		for _, l := range p.Lits {
			if l.Atom.Op == "true" && strings.HasPrefix(l.Atom.L, "has(recv.jobsByID[") && l.Val {
				found = true
			}
			// a listed job is waiting: not canceled, not completed, not started
			if l.Atom.Op == "true" && (strings.HasSuffix(l.Atom.L, ".Canceled") || strings.HasSuffix(l.Atom.L, ".Completed")) && l.Val {
				canceled = true
			}
			if l.Atom.Op == "==" && strings.HasSuffix(l.Atom.L, ".Start") && l.Atom.R == "nil" && !l.Val {
				canceled = true
			}
		}
		if !found || canceled {
			continue // unknown id, or a canceled job: not on the wait list (rule canceled-site)
		}
		n++
		cleared := -1
		dq := -1
		for i, e := range p.Effects {
			if e.Kind == "store" && strings.HasSuffix(e.Target, ".startTimer") && e.Val == "nil" {
				cleared = i
			}
			if e.Kind == "call" && ro.alwaysDequeues(e.Callee, 0) && cleared >= 0 {
				dq = i
			}
		}
		if cleared < 0 || dq < cleared {
			ok = false
			detail = "path " + p.LitString() + fmt.Sprintf(": timer cleared=%v, dequeue attempted afterwards=%v", cleared >= 0, dq >= 0)
		}
	}
	r.Check(ok && n > 0, rule+".clears-and-dequeues", fname+": expiry of a listed job", w.Pos(fn.Pos()),
		"on every path where the job is found and not canceled the handler clears startTimer and then calls the dequeue function (no second delay)",
		"the delay-expiry handler does not clear the timer and re-run the dequeue on every path of a listed job ("+detail+"): the job stays blocked behind its own expired timer")

	// every non-nil store to startTimer is time.AfterFunc(<the job's own delay>, closure → expiry handler(job id))
	nStores := 0
	for _, f := range ro.rootFuncs() {
		for _, st := range ro.storesToAny(f, "PipelineJob.startTimer", func(s *ssa.Store) bool { return !isNilConst(s.Val) }) {
			nStores++
			okA := false
			why := "value is " + w.AP(st.Val)
			if call, isCall := w.Resolve(st.Val).(*ssa.Call); isCall && calleeName(&call.Call) == "time.AfterFunc" {
				job := strings.TrimSuffix(w.apAddr(st.Addr), ".startTimer")
				dur := w.AP(call.Call.Args[0])
				cl := funcValue(w.Resolve(call.Call.Args[1]))
				callsExpiry := false
				if cl != nil {
					// the job's own id, as stored into its ID field
					var idVal ssa.Value
					if fa, ok := w.resolveAddr(st.Addr).(*ssa.FieldAddr); ok {
						for _, st2 := range ro.storesToAny(f, "PipelineJob.ID", nil) {
							if fa2, ok := w.resolveAddr(st2.Addr).(*ssa.FieldAddr); ok && w.Resolve(fa2.X) == w.Resolve(fa.X) {
								idVal = w.Resolve(st2.Val)
							}
						}
						// the job comes from a constructor helper that stores one of its parameters into ID
						if ctor, ok := w.Resolve(fa.X).(*ssa.Call); ok && idVal == nil {
							if g := ctor.Call.StaticCallee(); g != nil && g.Blocks != nil && w.InModule(g) {
								for _, st2 := range ro.storesToAny(g, "PipelineJob.ID", nil) {
									if p, ok := w.Resolve(st2.Val).(*ssa.Parameter); ok && p.Parent() == g {
										if i := paramIdxOf(p); i >= 0 && i < len(ctor.Call.Args) {
											idVal = w.Resolve(ctor.Call.Args[i])
										}
									}
								}
							}
						}
					}
					allInstrs(cl, func(in ssa.Instruction) {
						if c, isC := in.(*ssa.Call); isC && c.Call.StaticCallee() == ro.Expiry {
							a := c.Call.Args[len(c.Call.Args)-1]
							if idVal != nil && w.Resolve(a) == idVal || w.AP(a) == job+".ID" {
								callsExpiry = true
							}
						}
					})
				}
				okA = dur == job+".StartDelay" && callsExpiry
				why = fmt.Sprintf("duration %s (expected %s.StartDelay), callback calls the expiry handler with the job's own id=%v", dur, job, callsExpiry)
			}
			r.Check(okA, rule+".armed-with-own-delay", FuncName(f)+": start timer armed", w.InstrPos(st), "time.AfterFunc(job.StartDelay, → expiry handler)", "the start timer is not armed with the job's own delay and the expiry handler: "+why)
		}
	}
	if nStores == 0 {
		r.Viol(rule+".armed-with-own-delay", "module: start timer", "-", "no start timer is ever armed")
	}
	// who clears: nil stores only in the expiry handler, or where the job leaves the list for good in the same function
	for _, f := range ro.rootFuncs() {
		for _, st := range ro.storesToAny(f, "PipelineJob.startTimer", func(s *ssa.Store) bool { return isNilConst(s.Val) }) {
			key := FuncName(f) + ": startTimer = nil"
			// a store in a helper is judged in every anchor the helper is spliced into
			hosts, other := ro.hostsOf(f)
			if len(hosts) == 0 || other {
				hosts = []*ssa.Function{f}
			}
			// a store into an object allocated here matters only in the accept function (the new job
			// is armed and listed there); elsewhere a fresh object is not on the wait list
			ro.la.curFn = f
			if _, base, ok := ro.la.rootField(st.Addr); ok && ro.la.fresh(base, nil) {
				inAccept := false
				for _, h := range hosts {
					inAccept = inAccept || h == ro.Accept
				}
				if !inAccept {
					continue
				}
			}
			for _, host := range hosts {
				hkey := key
				if host != f {
					hkey = FuncName(f) + " (in " + FuncName(host) + "): startTimer = nil"
				}
				switch {
				case host == ro.Expiry:
					r.OK(rule+".who-clears", hkey, w.InstrPos(st), "the expiry handler (reachable only as the timer's callback and the exported API)")
				case host == ro.Accept:
					// replace: the slot is overwritten on every path afterwards
					res := w.EnumPaths(host, EnumOpts{Inline: true, Opaque: ro.isSnapshotCtor})
					okW, seen := !res.Truncated, false
					for _, p := range res.Paths {
						for i, e := range p.Effects {
							if e.In != ssa.Instruction(st) {
								continue
							}
							seen = true
							slot := strings.TrimSuffix(e.Target, ".startTimer")
							over := false
							// clearing a timer that was never armed on this path (a new job before it is armed) changes nothing
							if strings.HasPrefix(slot, "local:") {
								armed := false
								for _, e0 := range p.Effects[:i] {
									if e0.Kind == "store" && e0.Target == e.Target && e0.Val != "nil" {
										armed = true
									}
								}
								over = !armed
							}
							for _, e2 := range p.Effects[i+1:] {
								if e2.Kind == "store" && e2.Target == slot {
									over = true
								}
							}
							if !over && p.End == "return" {
								okW = false
							}
						}
					}
					r.Check(okW && seen, rule+".who-clears", hkey, w.InstrPos(st), "replace: the job's slot is overwritten on every path afterwards (it leaves the list for good)", "the timer of a job that stays listed is cleared: it can start before its delay has passed")
				default:
					// the job leaves the wait list on every path of the anchor on which its timer is cleared
					removes := false
					if host == f {
						_, removes = ro.removesFromWaitList(f, 0)
					} else {
						res := w.EnumPaths(host, EnumOpts{Inline: true, Opaque: w.statelessCallee, MaxPaths: 20000})
						removes = !res.Truncated
						seen := false
						for _, p := range res.Paths {
							cleared, removed := false, false
							for _, e := range p.Effects {
								if e.In == ssa.Instruction(st) {
									cleared = true
								}
								if mu, ok := e.In.(*ssa.MapUpdate); ok && e.Kind == "mapupdate" && strings.Contains(e.Target, waitListField) && strings.HasPrefix(ro.formOf(mu.Value, w.AP(mu.Key), 0), "delete-at-i") {
									removed = true
								}
							}
							if cleared {
								seen = true
								if !removed && p.End == "return" {
									// the job may simply not be on the list (nothing to remove): accept when the path decided so by comparing the list's elements with the job
									onList := false
									for _, l := range p.Lits {
										if strings.Contains(l.Atom.L, waitListField) && l.Val && l.Atom.Op == "==" && !strings.HasPrefix(l.Atom.L, "len(") {
											onList = true
										}
									}
									if onList {
										removes = false
									}
								}
							}
						}
						removes = removes && seen
					}
					if !removes {
						r.Viol(rule+".who-clears", hkey, w.InstrPos(st), "the start timer is cleared by a function that neither is the expiry handler nor takes the job off the wait list: a delayed job can start early")
					} else {
						r.OK(rule+".who-clears", hkey, w.InstrPos(st), "the job is removed from the wait list in the same lock region")
					}
				}
			}
		}
	}
}

// ---------------------------------------------------------------------------------
// C03.3 / C16.5: the dequeue decision does not depend on the current definition's delay

// evalAPExpr evaluates an access-path expression made of constants, tracked variables,
// negation and one level of parenthesised comparison.
func evalAPExpr(t string, vars map[string]string, env map[string]int64) (int64, string) {
	t = strings.TrimSpace(t)
	neg := false
	for strings.HasPrefix(t, "!") {
		neg = !neg
		t = t[1:]
	}
	var v int64
	var err string
	wholeParen := false
	if strings.HasPrefix(t, "(") && strings.HasSuffix(t, ")") {
		// the first parenthesis must be closed by the last one ("(*T).m(x)" is not a parenthesised expression)
		depth := 0
		for i, ch := range t {
			if ch == '(' {
				depth++
			} else if ch == ')' {
				depth--
				if depth == 0 {
					wholeParen = i == len(t)-1
					break
				}
			}
		}
	}
	if wholeParen {
		inner := t[1 : len(t)-1]
		done := false
		for _, op := range []string{" == ", " != ", " <= ", " >= ", " < ", " > "} {
			if i := indexTopLevel(inner, op); i >= 0 {
				a, e1 := evalAPExpr(inner[:i], vars, env)
				b, e2 := evalAPExpr(inner[i+len(op):], vars, env)
				if e1 != "" {
					return 0, e1
				}
				if e2 != "" {
					return 0, e2
				}
				var res bool
				switch strings.TrimSpace(op) {
				case "==":
					res = a == b
				case "!=":
					res = a != b
				case "<=":
					res = a <= b
				case ">=":
					res = a >= b
				case "<":
					res = a < b
				case ">":
					res = a > b
				}
				if res {
					v = 1
				}
				done = true
				break
			}
		}
		if !done {
			return 0, "unknown:" + t
		}
	} else {
		v, err = evalTerm(t, vars, env)
		if err != "" {
			return 0, err
		}
	}
	if neg {
		if v != 0 {
			v = 0
		} else {
			v = 1
		}
	}
	return v, ""
}

// indexTopLevel: the first occurrence of op in s outside any parentheses/brackets.
func indexTopLevel(s, op string) int {
	depth := 0
	for i := 0; i+len(op) <= len(s); i++ {
		switch s[i] {
		case '(', '[':
			depth++
		case ')', ']':
			depth--
		}
		if depth == 0 && s[i:i+len(op)] == op {
			return i
		}
	}
	return -1
}

func splitArgs(s string) []string {
	var out []string
	depth := 0
	cur := ""
	for _, ch := range s {
		switch ch {
		case '(', '[':
			depth++
		case ')', ']':
			depth--
		case ',':
			if depth == 0 {
				out = append(out, cur)
				cur = ""
				continue
			}
		}
		cur += string(ch)
	}
	return append(out, cur)
}

// timerUseGuarded: every method call on a job's start timer (Stop/Reset) whose receiver is read from the
// job's startTimer field lies behind the `startTimer != nil` edge of a test of the SAME job's field in the
// same function. The field is nil for every job without a delay and after the expiry handler ran, so an
// unguarded (or inverted) use panics inside the runner's lock region — e.g. when a job without a delay is
// replaced on the wait list — and a guard with the wrong orientation never stops a pending timer.
func (ro *Roles) timerUseGuarded(r *Report, rule string) {
	w := ro.w
	n := 0
	for _, f := range w.ModFuncs {
		if f.Package() != ro.Root || f.Synthetic != "" {
			continue
		}
		ro.la.curFn = f
		// nil tests of a start timer in f: base access path → blocks entered only over the non-nil edge
		type guard struct {
			base string
			blk  *ssa.BasicBlock
		}
		var guards []guard
		timerLoad := func(v ssa.Value) (string, bool) {
			ld, ok := w.Resolve(v).(*ssa.UnOp)
			if !ok || ld.Op != token.MUL {
				return "", false
			}
			if k, _, ok := ro.la.rootField(ld.X); !ok || k != "PipelineJob.startTimer" {
				return "", false
			}
			return strings.TrimSuffix(w.apAddr(ld.X), ".startTimer"), true
		}
		for _, b := range f.Blocks {
			if len(b.Instrs) == 0 {
				continue
			}
			ifi, ok := b.Instrs[len(b.Instrs)-1].(*ssa.If)
			if !ok {
				continue
			}
			cond, neg := ifi.Cond, false
			for {
				u, isU := cond.(*ssa.UnOp)
				if !isU || u.Op != token.NOT {
					break
				}
				cond, neg = u.X, !neg
			}
			var base string
			var isEq bool
			if pc, isCall := cond.(*ssa.Call); isCall {
				// a predicate method of the job that returns `j.startTimer != nil` (or == nil)
				g := pc.Call.StaticCallee()
				if g == nil || !w.InModule(g) || len(g.Blocks) != 1 || len(g.Params) == 0 || len(pc.Call.Args) == 0 {
					continue
				}
				rt, isRt := g.Blocks[0].Instrs[len(g.Blocks[0].Instrs)-1].(*ssa.Return)
				if !isRt || len(rt.Results) != 1 {
					continue
				}
				pb, isB := rt.Results[0].(*ssa.BinOp)
				if !isB || (pb.Op != token.EQL && pb.Op != token.NEQ) {
					continue
				}
				px, py := pb.X, pb.Y
				if isNilConst(px) {
					px, py = py, px
				}
				ld, isLd := px.(*ssa.UnOp)
				if !isNilConst(py) || !isLd || ld.Op != token.MUL {
					continue
				}
				fa, isFA := ld.X.(*ssa.FieldAddr)
				if !isFA || fa.X != ssa.Value(g.Params[0]) || fieldName(fa.X.Type(), fa.Field) != "startTimer" {
					continue
				}
				base, isEq = w.AP(pc.Call.Args[0]), pb.Op == token.EQL
			} else {
				bo, ok := cond.(*ssa.BinOp)
				if !ok || (bo.Op != token.EQL && bo.Op != token.NEQ) {
					continue
				}
				x, y := bo.X, bo.Y
				if isNilConst(x) {
					x, y = y, x
				}
				if !isNilConst(y) {
					continue
				}
				base, ok = timerLoad(x)
				if !ok {
					continue
				}
				isEq = bo.Op == token.EQL
			}
			nonNilSucc := 0 // cond true ⇒ non-nil for !=
			if isEq != neg {
				nonNilSucc = 1
			}
			if s := b.Succs[nonNilSucc]; len(s.Preds) == 1 {
				guards = append(guards, guard{base, s})
			}
		}
		allInstrs(f, func(in ssa.Instruction) {
			c := callCommonOf(in)
			if c == nil || c.IsInvoke() || len(c.Args) == 0 {
				return
			}
			g := c.StaticCallee()
			if g == nil || g.Signature.Recv() == nil || !strings.HasSuffix(g.Signature.Recv().Type().String(), "time.Timer") {
				return
			}
			base, ok := timerLoad(c.Args[0])
			if !ok {
				return
			}
			n++
			guarded := false
			for _, gd := range guards {
				if gd.base == base && gd.blk.Dominates(in.Block()) {
					guarded = true
				}
			}
			r.Check(guarded, rule+".guarded", FuncName(f)+": "+g.Name()+" on "+base+".startTimer", w.InstrPos(in),
				"reached only over the startTimer != nil edge of a test of the same job",
				"(*time.Timer)."+g.Name()+" is called on "+base+".startTimer without being behind the `"+base+".startTimer != nil` edge: the field is nil for every job without a start delay (and after the delay expired), so this panics while the runner's lock is held (e.g. when a queued job without delay is replaced), or a pending timer is never stopped")
		})
	}
	r.Count("timer uses", n)
}
