package main

func init() {
	register(&PropDef{
		ID:          "C05",
		Level:       "other",
		Explanation: "Decision-table and effect rules for admission, decided from the SSA of the admission function and the accept function: (1) the admission function touches its inputs only through comparisons, so evaluating its enumerated paths on one representative per order type of (running ? concurrency) × delay × ignore × queue_limit{unset,0,n} × strategy × (waiting ? 0, waiting ? limit) decides its table for every input; it must equal the stated table; the slot-free atom uses the exact running predicate (8 rows) and a counting function of the recognised shape; (2) in the accept function every rejected path is effect-free (no index, wait-list, timer, persist or job store), Queue pushes back, Replace cancels and overwrites the last entry, Start starts without queueing, a timer is armed iff the job's own delay > 0; (3) every site that marks a job canceled is one of the enumerated kinds, each paired with its wait-list effect in the same lock region, so the wait list holds only waiting jobs. Decides these shapes; does not compose them over histories.",
		Trusted:     []string{"C13 (each exported operation runs in one uninterrupted lock region)", "validation guarantees concurrency ≥ 1 and non-negative limits (C17)"},
		NotDecided:  []string{"composition of the per-operation lemmas over arbitrary histories (argued in DESIGN.md, not mechanised)"},
		Check: func(w *World, r *Report) {
			ro := resolveRoles(w)
			ro.record(r)
			ro.admissionTable(r, "table.admission", "equal")
			ro.runPredTable(r, "table.running-predicate", true)
			ro.countShape(r, "table.count-shape")
			ro.acceptEffects(r, map[string]bool{"ignore-false": true, "rejected-effect-free": true, "per-action": true, "timer": true, "start-arg": true, "registered": true})
			ro.canceledSites(r, "canceled-site")
			// a job that was popped and started must not reappear on the wait list (it would occupy a queue slot)
			ro.noLostUpdate(r, "no-lost-update")
			ro.dequeueLoop(r, map[string]bool{"pop-on-start": true})
			r.Floor("table.", 3)
			r.Floor("accept.", 8)
			r.Floor("canceled-site", 5)
		},
	})
	register(&PropDef{
		ID:          "C06",
		Level:       "other",
		Explanation: "FIFO as a shape of the code: every mutation of the wait list in the module is classified by the SSA form of the new value relative to the list loaded under the same key — push-back, pop-front, order-preserving delete-at-i, replace-last, clear are the only forms allowed; push-front, pop-back, swap-remove, sort or an unrecognised form is reported; a wait-list slice is handed only to module functions that just read it or whose own effect is one of these forms (a list helper that returns the list without its head or without one job, or overwrites its last entry); the dequeue function starts element 0 of the list and pops it; a list cached in a local is not written back after a call that can modify the wait list (lost update); a new request cannot overtake the queue by a direct start because every slot-freeing event (completion, failed start of a popped job, delay expiry, cancel of a waiting job) re-runs the dequeue in the same lock region and the running predicate is exactly started ∧ ¬completed ∧ ¬canceled (a slot is not freed before the completion handler runs). Decides the shapes, not the order of Start timestamps at run time.",
		Trusted:     []string{"C13 (wait-list operations are serialised by the runner mutex)"},
		NotDecided:  []string{"run-time order of Start timestamps", "jobs whose delay timer blocks the head (head-of-line blocking is by design)"},
		Check: func(w *World, r *Report) {
			ro := resolveRoles(w)
			ro.record(r)
			if ro.la == nil {
				r.Undecided("anchors", "roles", "-", "roles unresolved")
				return
			}
			ro.waitListForms(r, "forms")
			ro.noLostUpdate(r, "no-lost-update")
			ro.dequeueLoop(r, map[string]bool{"head-only": true, "pop-on-start": true})
			ro.canceledSites(r, "canceled-site")
			ro.acceptEffects(r, map[string]bool{"per-action": true, "admit-guard": true})
			// no overtaking by a direct start: a request starts directly only when a slot is
			// free, and a free slot never coexists with a startable head — every event that
			// frees a slot re-runs the dequeue before the lock is released (RETRIGGER), and a
			// slot is freed exactly where the running predicate says so (completion/cancel stores)
			ro.retrigger(r, "retrigger")
			ro.runPredTable(r, "running.predicate-table", true)
			r.Floor("forms", 4)
			r.Floor("retrigger", 4)
			r.Floor("no-lost-update", 1)
			r.Floor("dequeue.", 2)
		},
	})
}
