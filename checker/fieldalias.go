package main

import (
	"go/types"
	"sort"
	"strings"

	"golang.org/x/tools/go/ssa"
)

// Field roles. The rules refer to unexported fields of the runner, the job, the scheduler,
// the task runner and the executor by the names they have at the pinned commit. An
// unexported field can be renamed at will, so every such field is resolved by what it is —
// its type where that is unique, its use where two fields share a type — and rendered under
// its canonical name in access paths, lockset keys and FieldRefs (canonField). A field that
// cannot be resolved keeps its source name; rules that need it then report "undecided".
var fieldAlias = map[*types.Var]string{}

func canonField(v *types.Var) string {
	if a, ok := fieldAlias[v]; ok {
		return a
	}
	return v.Name()
}

// shapeString renders a type with named non-struct, non-interface types expanded to what they
// stand for (a field of type `map[string]jobQueue` with `type jobQueue []*PipelineJob` reads
// `map[string][]*…PipelineJob`).
func shapeString(t types.Type) string {
	switch x := t.(type) {
	case *types.Named:
		switch x.Underlying().(type) {
		case *types.Struct, *types.Interface:
			return x.String()
		}
		// only the module's own named types are shorthand; time.Duration, context.CancelFunc … are what they are called
		if x.Obj().Pkg() == nil || !strings.HasPrefix(x.Obj().Pkg().Path(), modPath) {
			return x.String()
		}
		return shapeString(x.Underlying())
	case *types.Pointer:
		return "*" + shapeString(x.Elem())
	case *types.Slice:
		return "[]" + shapeString(x.Elem())
	case *types.Map:
		return "map[" + shapeString(x.Key()) + "]" + shapeString(x.Elem())
	case *types.Chan:
		return "chan " + shapeString(x.Elem())
	}
	return t.String()
}

func resolveFieldAliases(w *World) {
	fieldAlias = map[*types.Var]string{}
	structOfNamed := func(pkgRel, name string) *types.Struct {
		n := w.NamedType(pkgRel, name)
		if n == nil {
			return nil
		}
		s, _ := n.Underlying().(*types.Struct)
		return s
	}
	// unique-by-type resolution: want maps canonical name → predicate on the field's type string
	byType := func(s *types.Struct, want map[string]func(t string, f *types.Var) bool) {
		if s == nil {
			return
		}
		var names []string
		for k := range want {
			names = append(names, k)
		}
		sort.Strings(names)
		for _, canon := range names {
			var hit *types.Var
			n := 0
			for i := 0; i < s.NumFields(); i++ {
				f := s.Field(i)
				if f.Exported() || f.Embedded() {
					continue
				}
				if want[canon](shapeString(f.Type()), f) {
					hit = f
					n++
				}
			}
			if n == 1 && hit.Name() != canon {
				fieldAlias[hit] = canon
			}
		}
	}
	has := func(sub string) func(string, *types.Var) bool {
		return func(t string, _ *types.Var) bool { return strings.HasSuffix(t, sub) }
	}
	is := func(ts ...string) func(string, *types.Var) bool {
		return func(t string, _ *types.Var) bool {
			for _, x := range ts {
				if t == x {
					return true
				}
			}
			return false
		}
	}
	runner := structOfNamed("", "PipelineRunner")
	byType(runner, map[string]func(string, *types.Var) bool{
		"jobsByID": func(t string, _ *types.Var) bool {
			return strings.HasPrefix(t, "map[") && strings.Contains(t, "uuid.UUID]") && strings.HasSuffix(t, "PipelineJob")
		},
		"defs":             has("definition.PipelinesDef"),
		"isShuttingDown":   is("bool", "int"), // a flag, or a small state enum of the module (expanded to its underlying type)
		"persistRequests":  func(t string, _ *types.Var) bool { return strings.HasPrefix(t, "chan ") },
		"store":            has("store.DataStore"),
		"outputStore":      has("taskctl.OutputStore"),
		"createTaskRunner": func(t string, _ *types.Var) bool { return strings.HasPrefix(t, "func(") },
		"mx":               is("sync.RWMutex"),
		"wg":               is("sync.WaitGroup"),
	})
	// the two per-pipeline maps have one type: the wait list is the one that is popped at the front
	if runner != nil {
		var cands []*types.Var
		for i := 0; i < runner.NumFields(); i++ {
			f := runner.Field(i)
			t := shapeString(f.Type())
			if !f.Exported() && strings.HasPrefix(t, "map[string][]") && strings.HasSuffix(t, "PipelineJob") {
				cands = append(cands, f)
			}
		}
		if len(cands) == 2 {
			popped := map[*types.Var]bool{}
			fieldOfLookup := func(v ssa.Value) *types.Var {
				// v = lookup(load(fieldaddr(recv, F)), key)
				lk, ok := v.(*ssa.Lookup)
				if !ok {
					if ex, ok2 := v.(*ssa.Extract); ok2 {
						lk, ok = ex.Tuple.(*ssa.Lookup)
					}
					if !ok {
						return nil
					}
				}
				ld, ok := lk.X.(*ssa.UnOp)
				if !ok {
					return nil
				}
				fa, ok := ld.X.(*ssa.FieldAddr)
				if !ok {
					return nil
				}
				st := structOf(fa.X.Type())
				if st == nil || fa.Field >= st.NumFields() {
					return nil
				}
				return st.Field(fa.Field)
			}
			for _, fn := range w.ModFuncs {
				allInstrs(fn, func(in ssa.Instruction) {
					mu, ok := in.(*ssa.MapUpdate)
					if !ok {
						return
					}
					sl, ok := mu.Value.(*ssa.Slice)
					if !ok || sl.Low == nil || !isConstInt(sl.Low, 1) || sl.High != nil {
						return
					}
					if f := fieldOfLookup(sl.X); f != nil {
						popped[f] = true
					}
				})
			}
			for i, c := range cands {
				other := cands[1-i]
				if popped[c] && !popped[other] {
					if c.Name() != "waitListByPipeline" {
						fieldAlias[c] = "waitListByPipeline"
					}
					if other.Name() != "jobsByPipeline" {
						fieldAlias[other] = "jobsByPipeline"
					}
				}
			}
		}
	}
	byType(structOfNamed("", "PipelineJob"), map[string]func(string, *types.Var) bool{
		"sched":           has("taskctl.Scheduler"),
		"taskRunner":      has("runner.Runner"),
		"startTimer":      has("time.Timer"),
		"cancelRequested": is("bool"),
	})
	byType(structOfNamed("taskctl", "Scheduler"), map[string]func(string, *types.Var) bool{
		"cancelled":     is("int32"),
		"pause":         is("time.Duration"),
		"onStageChange": func(t string, _ *types.Var) bool { return strings.HasPrefix(t, "func(") },
	})
	byType(structOfNamed("taskctl", "TaskRunner"), map[string]func(string, *types.Var) bool{
		"cancelFunc":  has("context.CancelFunc"),
		"killTimeout": is("time.Duration"),
		"canceling":   is("bool"),
		"cancelMutex": is("sync.Mutex"),
		"wg":          is("sync.WaitGroup"),
		"outputStore": has("taskctl.OutputStore"),
		"ctx":         is("context.Context"),
	})
	byType(structOfNamed("taskctl", "PgidExecutor"), map[string]func(string, *types.Var) bool{
		"env":    is("[]string"),
		"dir":    is("string"),
		"interp": has("interp.Runner"),
	})
	byType(structOfNamed("store", "JsonDataStore"), map[string]func(string, *types.Var) bool{"path": is("string")})
	byType(structOfNamed("taskctl", "FileOutputStore"), map[string]func(string, *types.Var) bool{"path": is("string")})
}
