package main

import (
	"fmt"
	"go/constant"
	"go/token"
	"go/types"
	"sort"
	"strings"

	"golang.org/x/tools/go/ssa"
)

// Roles are the anchors of the scheduling rules, resolved by what the code does (DESIGN.md 3.2).
type Roles struct {
	w               *World
	la              *lockAnalysis
	Root            *ssa.Package
	Accept          *ssa.Function   // exported method returning (*PipelineJob, error)
	Start           *ssa.Function   // stores a non-nil value to PipelineJob.Start
	StartGo         *ssa.Function   // goroutine closure spawned by Start
	Admit           *ssa.Function   // returns the action enum, reads Concurrency
	Count           *ssa.Function   // callee compared with Concurrency
	RunPred         *ssa.Function   // per-job running predicate
	PipeRunning     *ssa.Function   // ∃ running job of a pipeline (bool)
	DequeueDecision *ssa.Function   // action for a queued job
	Dequeue         []*ssa.Function // functions that start jobs taken from the wait list
	Completed       *ssa.Function   // stores Completed = true
	CancelInt       *ssa.Function   // internal cancel
	CancelAPI       *ssa.Function   // exported cancel
	Expiry          *ssa.Function   // delay-expiry handler
	MarkCanceled    *ssa.Function
	modeMemo        *[3]int64
	Shutdown        *ssa.Function
	Save            *ssa.Function
	Load            *ssa.Function
	Replace         *ssa.Function // ReplaceDefinitions
	Persist         *ssa.Function // requestPersist
	TaskChange      *ssa.Function
	StageChange     *ssa.Function
	GraphBuild      *ssa.Function
	ActionT         *types.Named
	Actions         map[string]int64 // constant name → value
	ActionName      map[int64]string
	StrategyReplace int64
	Errs            []string
	alwaysMemo      map[*ssa.Function]int
	admitRetMemo    map[string]bool
}

func (ro *Roles) fail(format string, a ...interface{}) {
	ro.Errs = append(ro.Errs, fmt.Sprintf(format, a...))
}

// storesFieldNonFresh lists the (non-fresh) stores to a guarded field in fn.
func (ro *Roles) storesTo(fn *ssa.Function, key string, pred func(*ssa.Store) bool) []*ssa.Store {
	var out []*ssa.Store
	ro.la.curFn = fn
	allInstrs(fn, func(in ssa.Instruction) {
		st, ok := in.(*ssa.Store)
		if !ok {
			return
		}
		if k, base, ok := ro.la.rootField(st.Addr); ok && k == key && !ro.la.fresh(base, nil) {
			if pred == nil || pred(st) {
				out = append(out, st)
			}
		}
	})
	return out
}

// storesToAny is storesTo including stores into freshly allocated objects.
func (ro *Roles) storesToAny(fn *ssa.Function, key string, pred func(*ssa.Store) bool) []*ssa.Store {
	var out []*ssa.Store
	allInstrs(fn, func(in ssa.Instruction) {
		st, ok := in.(*ssa.Store)
		if !ok {
			return
		}
		if k, _, ok := ro.la.rootField(st.Addr); ok && k == key {
			if pred == nil || pred(st) {
				out = append(out, st)
			}
		}
	})
	return out
}

func (ro *Roles) rootFuncs() []*ssa.Function {
	var out []*ssa.Function
	for _, fn := range ro.w.ModFuncs {
		if fn.Package() == ro.Root && fn.Parent() == nil && fn.Synthetic == "" {
			out = append(out, fn)
		}
	}
	return out
}

func one(fs []*ssa.Function) *ssa.Function {
	if len(fs) == 1 {
		return fs[0]
	}
	return nil
}

func names(fs []*ssa.Function) string {
	var s []string
	for _, f := range fs {
		s = append(s, FuncName(f))
	}
	return "{" + strings.Join(s, ", ") + "}"
}

func resolveRoles(w *World) *Roles {
	ro := &Roles{w: w, Root: w.Pkg(""), Actions: map[string]int64{}, ActionName: map[int64]string{}}
	la, err := newLockAnalysis(w)
	if err != nil {
		ro.fail("%v", err)
		return ro
	}
	ro.la = la
	jobT := la.jobT
	funcs := ro.rootFuncs()

	// action enum: the named integer type returned by a function that reads Concurrency (itself or
	// through the module helpers it calls); of several such functions the innermost one (the one that
	// calls no other candidate) is the admission function, the others are wrappers around it
	readsConc := map[*ssa.Function]bool{}
	var reads func(fn *ssa.Function, depth int) bool
	reads = func(fn *ssa.Function, depth int) bool {
		if v, ok := readsConc[fn]; ok {
			return v
		}
		readsConc[fn] = false
		found := false
		allInstrs(fn, func(in ssa.Instruction) {
			if fa, ok := in.(*ssa.FieldAddr); ok && fieldName(fa.X.Type(), fa.Field) == "Concurrency" {
				found = true
			}
			if f, ok := in.(*ssa.Field); ok && fieldName(f.X.Type(), f.Field) == "Concurrency" {
				found = true
			}
			if c := callCommonOf(in); c != nil && depth < 3 {
				if g := c.StaticCallee(); g != nil && g.Blocks != nil && g.Package() == ro.Root && g != fn && reads(g, depth+1) {
					found = true
				}
			}
		})
		readsConc[fn] = found
		return found
	}
	type cand struct {
		fn *ssa.Function
		n  *types.Named
	}
	var cands []cand
	for _, fn := range funcs {
		res := fn.Signature.Results()
		if res.Len() != 1 {
			continue
		}
		n, ok := res.At(0).Type().(*types.Named)
		if !ok || n.Obj().Pkg() != ro.Root.Pkg {
			continue
		}
		if b, ok := n.Underlying().(*types.Basic); !ok || b.Info()&types.IsInteger == 0 {
			continue
		}
		if reads(fn, 0) {
			cands = append(cands, cand{fn, n})
		}
	}
	for _, c := range cands {
		inner := true
		allInstrs(c.fn, func(in ssa.Instruction) {
			if cc := callCommonOf(in); cc != nil {
				for _, d := range cands {
					if d.fn != c.fn && cc.StaticCallee() == d.fn {
						inner = false
					}
				}
			}
		})
		if inner {
			if ro.Admit != nil {
				ro.fail("admission function ambiguous: %s, %s", FuncName(ro.Admit), FuncName(c.fn))
			}
			ro.Admit, ro.ActionT = c.fn, c.n
		}
	}
	if ro.Admit == nil {
		ro.fail("admission function (returns the action enum and reads Concurrency) not found")
		return ro
	}
	sc := ro.Root.Pkg.Scope()
	for _, n := range sc.Names() {
		if c, ok := sc.Lookup(n).(*types.Const); ok && types.Identical(c.Type(), ro.ActionT) {
			if v, ok := constant.Int64Val(c.Val()); ok {
				ro.Actions[strings.TrimPrefix(n, "scheduleAction")] = v
				ro.ActionName[v] = strings.TrimPrefix(n, "scheduleAction")
			}
		}
	}
	for _, k := range []string{"Start", "Queue", "Replace", "NoQueue", "QueueFull"} {
		if _, ok := ro.Actions[k]; !ok {
			ro.fail("action constant scheduleAction%s not declared", k)
		}
	}
	if dp := w.Pkg("definition"); dp != nil {
		if c, ok := dp.Pkg.Scope().Lookup("QueueStrategyReplace").(*types.Const); ok {
			ro.StrategyReplace, _ = constant.Int64Val(c.Val())
		} else {
			ro.fail("definition.QueueStrategyReplace not declared")
		}
	}
	// counting function: the int-valued callee compared with Concurrency in the admission function
	allInstrs(ro.Admit, func(in ssa.Instruction) {
		b, ok := in.(*ssa.BinOp)
		if !ok {
			return
		}
		for _, pair := range [][2]ssa.Value{{b.X, b.Y}, {b.Y, b.X}} {
			if strings.HasSuffix(w.AP(pair[1]), ".Concurrency") {
				if c, ok := w.Resolve(pair[0]).(*ssa.Call); ok && c.Call.StaticCallee() != nil && w.InModule(c.Call.StaticCallee()) {
					ro.Count = c.Call.StaticCallee()
				}
			}
		}
	})
	if ro.Count == nil {
		// the comparison may sit in a helper of the admission function that receives the count as a parameter
		for _, ci := range findCalls(ro.Admit, func(_ string, c *ssa.CallCommon) bool {
			return c.StaticCallee() != nil && c.StaticCallee().Blocks != nil && c.StaticCallee().Package() == ro.Root
		}) {
			h := ci.Common().StaticCallee()
			allInstrs(h, func(in ssa.Instruction) {
				b, ok := in.(*ssa.BinOp)
				if !ok {
					return
				}
				for _, pair := range [][2]ssa.Value{{b.X, b.Y}, {b.Y, b.X}} {
					if !strings.HasSuffix(w.AP(pair[1]), ".Concurrency") {
						continue
					}
					if c, ok := w.Resolve(pair[0]).(*ssa.Call); ok && c.Call.StaticCallee() != nil && w.InModule(c.Call.StaticCallee()) {
						ro.Count = c.Call.StaticCallee() // counted inside the helper
					}
					if prm, ok := w.Resolve(pair[0]).(*ssa.Parameter); ok && prm.Parent() == h {
						if i := paramIdxOf(prm); i >= 0 && i < len(ci.Common().Args) {
							if c, ok := w.Resolve(ci.Common().Args[i]).(*ssa.Call); ok && c.Call.StaticCallee() != nil && w.InModule(c.Call.StaticCallee()) {
								ro.Count = c.Call.StaticCallee()
							}
						}
					}
				}
			})
		}
	}
	if ro.Count == nil && ro.inlinedCounter() == nil {
		ro.fail("counting function (callee compared with Concurrency in %s) not found", FuncName(ro.Admit))
	}
	// running predicate: method of *PipelineJob returning bool that reads Start, Completed, Canceled
	for _, fn := range funcs {
		if recv := fn.Signature.Recv(); recv != nil && namedOf(recv.Type()) != nil && namedOf(recv.Type()).Obj() == jobT.Obj() &&
			fn.Signature.Params().Len() == 0 && fn.Signature.Results().Len() == 1 && fn.Signature.Results().At(0).Type().String() == "bool" {
			reads := map[string]bool{}
			allInstrs(fn, func(in ssa.Instruction) {
				if fa, ok := in.(*ssa.FieldAddr); ok {
					reads[fieldName(fa.X.Type(), fa.Field)] = true
				}
			})
			if reads["Start"] && (reads["Completed"] || reads["Canceled"]) {
				ro.RunPred = fn
			}
		}
	}
	// … and, among several such predicates, the one the counting function (or an inlined counting loop) asks
	if cf := func() *ssa.Function {
		if ro.Count != nil {
			return ro.Count
		}
		return ro.Admit
	}(); cf != nil {
		allInstrs(cf, func(in ssa.Instruction) {
			if c, ok := in.(*ssa.Call); ok {
				if f := c.Call.StaticCallee(); f != nil && f.Signature.Recv() != nil && namedOf(f.Signature.Recv().Type()) != nil && namedOf(f.Signature.Recv().Type()).Obj() == jobT.Obj() &&
					f.Signature.Params().Len() == 0 && f.Signature.Results().Len() == 1 && f.Signature.Results().At(0).Type().String() == "bool" {
					ro.RunPred = f
				}
			}
		})
	}
	if ro.RunPred == nil {
		ro.fail("per-job running predicate not found")
	}
	// start function / completion handler
	var starts, completes []*ssa.Function
	for _, fn := range funcs {
		if len(ro.storesTo(fn, "PipelineJob.Start", func(s *ssa.Store) bool { return !isNilConst(s.Val) })) > 0 {
			starts = append(starts, fn)
		}
		if len(ro.storesTo(fn, "PipelineJob.Completed", func(s *ssa.Store) bool { return isBoolConst(s.Val, true) })) > 0 {
			completes = append(completes, fn)
		}
	}
	// the state change may sit in a small helper (a method of the job, say) with a single caller:
	// the role is the operation that helper belongs to
	startsRaw := append([]*ssa.Function(nil), starts...)
	starts, completes = ro.liftSingleCaller(starts), ro.liftSingleCaller(completes)
	if ro.Start = one(starts); ro.Start == nil {
		ro.fail("start function (stores a non-nil PipelineJob.Start) not unique: %s", names(starts))
	}
	if ro.Completed = one(completes); ro.Completed == nil {
		ro.fail("completion handler (stores Completed = true) not unique: %s", names(completes))
	}
	if ro.Start != nil {
		// (the goroutine may be spawned in the single-caller helper that holds the Start store — `runJob(job, graph)`)
		for _, host := range append([]*ssa.Function{ro.Start}, startsRaw...) {
			host := host
			if ro.StartGo != nil {
				break
			}
			allInstrs(host, func(in ssa.Instruction) {
				if g, ok := in.(*ssa.Go); ok {
					// the scheduling goroutine: a closure of the start function, or a method it launches
					if f := funcValue(g.Call.Value); f != nil && f.Parent() == host {
						ro.StartGo = f
					} else if f := g.Call.StaticCallee(); f != nil && w.InModule(f) && f.Blocks != nil {
						ro.StartGo = f
					}
				}
			})
		}
		// graph builder: callee of Start returning (*ExecutionGraph, error)
		allInstrs(ro.Start, func(in ssa.Instruction) {
			if c, ok := in.(*ssa.Call); ok {
				if f := c.Call.StaticCallee(); f != nil && w.InModule(f) && f.Signature.Results().Len() == 2 && strings.HasSuffix(f.Signature.Results().At(0).Type().String(), "scheduler.ExecutionGraph") {
					ro.GraphBuild = f
				}
			}
		})
	}
	// accept function: exported method of the runner returning (*PipelineJob, error)
	var accepts []*ssa.Function
	for _, fn := range funcs {
		res := fn.Signature.Results()
		if fn.Object() != nil && fn.Object().Exported() && fn.Signature.Recv() != nil && res.Len() == 2 &&
			namedOf(res.At(0).Type()) != nil && namedOf(res.At(0).Type()).Obj() == jobT.Obj() && res.At(1).Type().String() == "error" {
			accepts = append(accepts, fn)
		}
	}
	if ro.Accept = one(accepts); ro.Accept == nil {
		ro.fail("accept function (exported, returns (*PipelineJob, error)) not unique: %s", names(accepts))
	}
	// dequeue decision: returns the action enum and takes a *PipelineJob
	for _, fn := range funcs {
		if fn == ro.Admit || fn.Signature.Results().Len() != 1 || !types.Identical(fn.Signature.Results().At(0).Type(), ro.ActionT) {
			continue
		}
		ps := fn.Signature.Params()
		if ps.Len() == 1 && namedOf(ps.At(0).Type()) != nil && namedOf(ps.At(0).Type()).Obj() == jobT.Obj() {
			ro.DequeueDecision = fn
		}
	}
	// dequeue functions: call the start function, other than the accept function
	if ro.Start != nil {
		for _, fn := range funcs {
			if fn == ro.Accept {
				continue
			}
			if len(findCalls(fn, func(_ string, c *ssa.CallCommon) bool { return c.StaticCallee() == ro.Start })) > 0 {
				ro.Dequeue = append(ro.Dequeue, fn)
			}
		}
		if len(ro.Dequeue) == 0 {
			ro.fail("no dequeue function (caller of %s other than the accept function)", FuncName(ro.Start))
		}
	}
	// expiry handler: the module method called by the closure handed to time.AfterFunc
	for _, fn := range w.ModFuncs {
		for _, ci := range findCalls(fn, func(n string, _ *ssa.CallCommon) bool { return n == "time.AfterFunc" }) {
			if cl := funcValue(w.Resolve(ci.Common().Args[1])); cl != nil {
				allInstrs(cl, func(in ssa.Instruction) {
					if c, ok := in.(*ssa.Call); ok {
						if f := c.Call.StaticCallee(); f != nil && w.InModule(f) && f.Package() == ro.Root {
							ro.Expiry = f
						}
					}
				})
			}
		}
	}
	// internal cancel: the function that delivers Scheduler.Cancel on a goroutine;
	// exported cancel: exported method (uuid) error that reaches it
	for _, fn := range funcs {
		delivers := false
		allInstrs(fn, func(in ssa.Instruction) {
			if g, ok := in.(*ssa.Go); ok && w.deliversSchedulerCancel(g) {
				delivers = true
			}
		})
		if delivers {
			if ro.CancelInt != nil {
				ro.fail("internal cancel ambiguous: %s, %s", FuncName(ro.CancelInt), FuncName(fn))
			}
			ro.CancelInt = fn
		}
	}
	// the internal cancel is the decision function (job id) → error; when the delivery sits in a
	// helper that gets the job, walk up through unique callers to the function with that signature
	isIDFunc := func(f *ssa.Function) bool {
		return f.Signature.Params().Len() == 1 && strings.HasSuffix(f.Signature.Params().At(0).Type().String(), "uuid.UUID") &&
			f.Signature.Results().Len() == 1 && f.Signature.Results().At(0).Type().String() == "error"
	}
	for i := 0; i < 3 && ro.CancelInt != nil && !isIDFunc(ro.CancelInt); i++ {
		var callers []*ssa.Function
		for _, g := range funcs {
			if len(findCalls(g, func(_ string, c *ssa.CallCommon) bool { return c.StaticCallee() == ro.CancelInt })) > 0 {
				callers = append(callers, g)
			}
		}
		if len(callers) != 1 {
			break
		}
		ro.CancelInt = callers[0]
	}
	for _, fn := range funcs {
		if fn.Object() == nil || !fn.Object().Exported() || fn.Signature.Recv() == nil || fn.Signature.Results().Len() != 1 || fn.Signature.Results().At(0).Type().String() != "error" {
			continue
		}
		if fn.Signature.Params().Len() != 1 || !strings.HasSuffix(fn.Signature.Params().At(0).Type().String(), "uuid.UUID") {
			continue
		}
		if ro.CancelInt != nil && len(ro.callsReaching(fn, func(f *ssa.Function) bool { return f == ro.CancelInt })) > 0 {
			ro.CancelAPI = fn
		}
	}
	if ro.CancelInt == nil {
		ro.fail("internal cancel function not found")
	}
	// (a method of the job that stores Canceled = true is an ordinary helper: it is spliced into the
	// operations that call it and its store is judged there; ro.MarkCanceled stays nil)
	// shutdown: stores isShuttingDown = true
	for _, fn := range funcs {
		if len(ro.storesTo(fn, "PipelineRunner.isShuttingDown", func(s *ssa.Store) bool { return isTruthyConst(s.Val) })) > 0 {
			ro.Shutdown = fn
		}
		if len(ro.storesTo(fn, "PipelineRunner.defs", nil)) > 0 {
			ro.Replace = fn
		}
	}
	// the flag may be set in an unexported helper (with its own lock region): the role is the exported
	// operation it belongs to
	for i := 0; i < 3 && ro.Shutdown != nil && (ro.Shutdown.Object() == nil || !ro.Shutdown.Object().Exported()); i++ {
		var callers []*ssa.Function
		for _, g := range funcs {
			if len(findCalls(g, func(_ string, c *ssa.CallCommon) bool { return c.StaticCallee() == ro.Shutdown })) > 0 {
				callers = append(callers, g)
			}
		}
		if len(callers) != 1 {
			break
		}
		ro.Shutdown = callers[0]
	}
	// save: the function that builds store.PersistedData and calls the store's Save
	for _, fn := range funcs {
		if len(findCalls(fn, func(n string, c *ssa.CallCommon) bool {
			return c.IsInvoke() && c.Method.Name() == "Save" && strings.HasSuffix(c.Value.Type().String(), "store.DataStore")
		})) > 0 {
			ro.Save = fn
		}
		if len(findCalls(fn, func(n string, c *ssa.CallCommon) bool {
			return c.IsInvoke() && c.Method.Name() == "Load" && strings.HasSuffix(c.Value.Type().String(), "store.DataStore")
		})) > 0 {
			ro.Load = fn
		}
	}
	// persist request: the function that sends on the persist channel
	for _, fn := range funcs {
		sends := false
		allInstrs(fn, func(in ssa.Instruction) {
			if sel, ok := in.(*ssa.Select); ok {
				for _, st := range sel.States {
					if st.Dir == types.SendOnly && strings.HasSuffix(w.AP(st.Chan), ".persistRequests") {
						sends = true
					}
				}
			}
			if sd, ok := in.(*ssa.Send); ok && strings.HasSuffix(w.AP(sd.Chan), ".persistRequests") {
				sends = true
			}
		})
		if sends {
			ro.Persist = fn
		}
	}
	// callbacks registered on the task runner / scheduler
	if is := w.FuncByRole("", "(*PipelineRunner).initScheduler", func(f *ssa.Function) bool { return callsNamed(f, "taskctl.NewScheduler") }); is != nil {
		allInstrs(is, func(in ssa.Instruction) {
			c := callCommonOf(in)
			if c == nil || len(c.Args) == 0 {
				return
			}
			name := ""
			if c.IsInvoke() {
				name = c.Method.Name()
			} else if f := c.StaticCallee(); f != nil {
				name = f.Name()
			}
			arg := c.Args[len(c.Args)-1]
			mc, ok := w.Resolve(arg).(*ssa.MakeClosure)
			if !ok {
				return
			}
			bound := mc.Fn.(*ssa.Function)
			// $bound wrapper → the method
			var target *ssa.Function
			allInstrs(bound, func(in2 ssa.Instruction) {
				if cc, ok := in2.(*ssa.Call); ok && cc.Call.StaticCallee() != nil {
					target = cc.Call.StaticCallee()
				}
			})
			if bound.Synthetic == "" {
				target = bound
			}
			switch name {
			case "SetOnTaskChange":
				ro.TaskChange = target
			case "OnStageChange":
				ro.StageChange = target
			}
		})
	}
	// ∃-running predicate of a pipeline
	for _, fn := range funcs {
		if fn.Signature.Recv() != nil && fn.Signature.Params().Len() == 1 && fn.Signature.Results().Len() == 1 && fn.Signature.Results().At(0).Type().String() == "bool" &&
			fn.Signature.Params().At(0).Type().String() == "string" && ro.RunPred != nil &&
			(len(findCalls(fn, func(_ string, c *ssa.CallCommon) bool { return c.StaticCallee() == ro.RunPred })) > 0 || ro.existsDelegate(fn) != nil || ro.countPositive(fn)) {
			ro.PipeRunning = fn
		}
	}
	sort.Slice(ro.Dequeue, func(i, j int) bool { return ro.Dequeue[i].Pos() < ro.Dequeue[j].Pos() })
	// the anchors of rules are analysed as themselves, never spliced into their callers
	anchors := map[*ssa.Function]bool{}
	for _, f := range []*ssa.Function{ro.Accept, ro.Start, ro.StartGo, ro.Admit, ro.Count, ro.RunPred, ro.PipeRunning, ro.DequeueDecision, ro.Completed, ro.CancelInt, ro.CancelAPI, ro.Expiry, ro.MarkCanceled, ro.Shutdown, ro.Save, ro.Load, ro.Replace, ro.Persist, ro.TaskChange, ro.StageChange, ro.GraphBuild} {
		if f != nil {
			anchors[f] = true
		}
	}
	for _, f := range ro.Dequeue {
		anchors[f] = true
	}
	w.noInline = func(f *ssa.Function) bool { return anchors[f] }
	w.inlMemo = nil
	return ro
}

func (ro *Roles) record(r *Report) {
	add := func(role string, fn *ssa.Function) {
		if fn != nil {
			r.Anchor(role, FuncName(fn))
		}
	}
	add("accept function", ro.Accept)
	add("start function", ro.Start)
	add("admission function", ro.Admit)
	add("counting function", ro.Count)
	add("running predicate", ro.RunPred)
	add("dequeue decision", ro.DequeueDecision)
	for _, d := range ro.Dequeue {
		add("dequeue function "+FuncName(d), d)
	}
	add("completion handler", ro.Completed)
	add("internal cancel", ro.CancelInt)
	add("delay-expiry handler", ro.Expiry)
	add("shutdown", ro.Shutdown)
	add("save", ro.Save)
	add("load", ro.Load)
	add("reload", ro.Replace)
	add("persist request", ro.Persist)
	add("task-change callback", ro.TaskChange)
	add("stage-change callback", ro.StageChange)
	add("graph builder", ro.GraphBuild)
}

// need reports missing roles as undecided and returns false if any is nil.
func (ro *Roles) need(r *Report, rule string, fs map[string]*ssa.Function) bool {
	ok := true
	var ks []string
	for k := range fs {
		ks = append(ks, k)
	}
	sort.Strings(ks)
	for _, k := range ks {
		if fs[k] == nil {
			ok = false
			r.Undecided(rule+".anchors", "anchor: "+k, "-", "anchor not resolved: "+k+"; "+strings.Join(ro.Errs, "; "))
		}
	}
	return ok
}

var _ = token.ADD

// liftSingleCaller replaces every function that does not take a lock itself, has no defer/go, and is
// called statically from exactly one other module function (and never used as a value) by that caller,
// repeatedly; duplicates are merged.
func (ro *Roles) liftSingleCaller(fns []*ssa.Function) []*ssa.Function {
	w := ro.w
	lift := func(fn *ssa.Function) *ssa.Function {
		for depth := 0; depth < 3; depth++ {
			if fn.Parent() != nil || !w.inlinableShape(fn) || (fn.Object() != nil && fn.Object().Exported() && fn.Signature.Recv() == nil) {
				return fn
			}
			locks := false
			allInstrs(fn, func(in ssa.Instruction) {
				if c := callCommonOf(in); c != nil && c.StaticCallee() != nil {
					n := c.StaticCallee().String()
					if strings.HasSuffix(n, "Mutex).Lock") || strings.HasSuffix(n, "Mutex).RLock") {
						locks = true
					}
				}
			})
			if locks {
				return fn
			}
			var callers []*ssa.Function
			asValue := false
			for _, f := range w.ModFuncs {
				allInstrs(f, func(in ssa.Instruction) {
					if c := callCommonOf(in); c != nil {
						if c.StaticCallee() == fn {
							if len(callers) == 0 || callers[len(callers)-1] != f {
								callers = append(callers, f)
							}
							return
						}
						for _, a := range c.Args {
							if funcValue(a) == fn {
								asValue = true
							}
						}
					}
					if mc, ok := in.(*ssa.MakeClosure); ok && mc.Fn == ssa.Value(fn) {
						asValue = true
					}
				})
			}
			if asValue || len(callers) != 1 || callers[0] == fn {
				return fn
			}
			fn = callers[0]
		}
		return fn
	}
	var out []*ssa.Function
	seen := map[*ssa.Function]bool{}
	for _, f := range fns {
		g := lift(f)
		if !seen[g] {
			seen[g] = true
			out = append(out, g)
		}
	}
	return out
}

// existsDelegate: fn returns the result of one call of a module function over a job list (a method
// of a named list type, or a plain function taking the slice) that calls the running predicate.
func (ro *Roles) existsDelegate(fn *ssa.Function) *ssa.Call {
	if ro.RunPred == nil {
		return nil
	}
	var found *ssa.Call
	n := 0
	allInstrs(fn, func(in ssa.Instruction) {
		rt, ok := in.(*ssa.Return)
		if !ok || len(rt.Results) != 1 || (fn.Recover != nil && rt.Block() == fn.Recover) {
			return
		}
		n++
		if c, ok := ro.w.Resolve(rt.Results[0]).(*ssa.Call); ok {
			g := c.Call.StaticCallee()
			if g != nil && g.Blocks != nil && g.Package() == ro.Root && len(findCalls(g, func(_ string, cc *ssa.CallCommon) bool { return cc.StaticCallee() == ro.RunPred })) > 0 {
				found = c
			}
		}
	})
	if n != 1 {
		return nil
	}
	return found
}

// existsHost: the function that holds the ∃-loop of the pipeline-running predicate and the access
// path of the pipeline's job list inside it ("" when a delegate is not called with that list).
func (ro *Roles) existsHost() (*ssa.Function, string) {
	fn := ro.PipeRunning
	c := ro.existsDelegate(fn)
	if c == nil {
		return fn, "recv.jobsByPipeline[arg0]"
	}
	g := c.Call.StaticCallee()
	for i, p := range g.Params {
		if sh := shapeString(p.Type()); strings.HasPrefix(sh, "[]") && strings.HasSuffix(sh, "PipelineJob") {
			if i >= len(c.Call.Args) || ro.w.AP(c.Call.Args[i]) != "recv.jobsByPipeline[arg0]" {
				return g, ""
			}
			if g.Signature.Recv() != nil {
				if i == 0 {
					return g, "recv"
				}
				return g, fmt.Sprintf("arg%d", i-1)
			}
			return g, fmt.Sprintf("arg%d", i)
		}
	}
	return g, ""
}

// countPositive: fn(runner, pipeline) returns `count(runner, pipeline) > 0` (or != 0, >= 1) with count the admission's
// counting function — "some job of the pipeline runs" stated through the count the admission decision uses.
func (ro *Roles) countPositive(fn *ssa.Function) bool {
	if ro.Count == nil || fn == ro.Count {
		return false
	}
	n, ok := 0, false
	allInstrs(fn, func(in ssa.Instruction) {
		rt, isRt := in.(*ssa.Return)
		if !isRt || len(rt.Results) != 1 || (fn.Recover != nil && rt.Block() == fn.Recover) {
			return
		}
		n++
		b, isB := ro.w.Resolve(rt.Results[0]).(*ssa.BinOp)
		if !isB {
			return
		}
		x, y, op := b.X, b.Y, b.Op
		if _, isK := ro.w.Resolve(x).(*ssa.Const); isK { // 0 < count
			x, y = y, x
			switch op {
			case token.LSS:
				op = token.GTR
			case token.LEQ:
				op = token.GEQ
			}
		}
		c, isC := ro.w.Resolve(x).(*ssa.Call)
		k, isK := ro.w.Resolve(y).(*ssa.Const)
		if !isC || !isK || c.Call.StaticCallee() != ro.Count || k.Value == nil {
			return
		}
		kv, exact := constant.Int64Val(k.Value)
		if !exact || len(c.Call.Args) != 2 || ro.w.AP(c.Call.Args[0]) != "recv" || ro.w.AP(c.Call.Args[1]) != "arg0" {
			return
		}
		ok = (op == token.GTR && kv == 0) || (op == token.NEQ && kv == 0) || (op == token.GEQ && kv == 1)
	})
	return n == 1 && ok
}
