package main

import (
	"fmt"
	"go/constant"
	"sort"
	"strings"

	"golang.org/x/tools/go/ssa"
)

func init() {
	register(&PropDef{
		ID:          "C09",
		Level:       "proof",
		Explanation: "Proof of the store's write protocol on the CFG of the publishing function, for all paths: the published file only ever changes by os.Rename of a file that os.CreateTemp created in the same call and in the same directory, after Encode of the data parameter on that file returned nil; success is returned only after the rename succeeded; nothing else in the module creates, truncates, appends to or removes the published path; Load opens exactly that path, decodes with the same codec and maps not-exist to the empty state. and returns (decoded data, nil) exactly behind the err == nil edge of Decode — on every other path except the missing file the error is non-nil (a wrapped error is nil exactly when its cause is).",
		Trusted: []string{
			"POSIX rename(2) atomically replaces the destination within one directory",
			"os.CreateTemp returns a fresh, unique file",
			"the JSON encoder reports short writes as an error; a killed process does not lose completed write(2)s",
		},
		NotDecided: []string{"power-loss durability (no fsync: outside the property, which speaks of process death)", "codec round trip of values (C10)"},
		Check:      checkC09,
	})
}

var fileMutators = map[string]bool{
	"Create": true, "OpenFile": true, "WriteFile": true, "Remove": true, "RemoveAll": true, "Rename": true,
	"Truncate": true, "Mkdir": true, "MkdirAll": true, "CreateTemp": true, "MkdirTemp": true, "Symlink": true,
	"Link": true, "Chmod": true, "Chown": true, "TempFile": true, "TempDir": true, "Chtimes": true,
}

func isOSFunc(name, fn string) bool {
	return name == "os."+fn || name == "io/ioutil."+fn
}

func checkC09(w *World, r *Report) {
	sp := w.Pkg("store")
	if sp == nil {
		r.Undecided("anchors", "package store", "-", "package store not found")
		return
	}
	var storeFuncs []*ssa.Function
	for _, fn := range w.ModFuncs {
		if fn.Package() == sp || fn.Parent() != nil && fn.Parent().Package() == sp {
			storeFuncs = append(storeFuncs, fn)
		}
	}
	// anchor: the publishing function is the one in package store that calls os.Rename
	var pub *ssa.Function
	var renames []ssa.CallInstruction
	for _, fn := range storeFuncs {
		cs := findCalls(fn, func(n string, _ *ssa.CallCommon) bool { return isOSFunc(n, "Rename") })
		if len(cs) > 0 {
			if pub != nil && pub != fn {
				r.Undecided("anchors", "publishing function", w.Pos(fn.Pos()), "more than one function in package store renames files: "+FuncName(pub)+", "+FuncName(fn))
				return
			}
			pub = fn
			renames = cs
		}
	}
	if pub == nil {
		r.Viol("protocol.rename", "package store", "-", "no function in package store publishes by os.Rename: the snapshot is not replaced atomically")
		r.Floor("protocol", 6)
		return
	}
	// a helper that only forwards two of its parameters to os.Rename stands for the rename:
	// the protocol is then checked at its (single) call, and the helper itself must return a
	// nil error only when a rename succeeded
	var helper *ssa.Function
	srcIdx, dstIdx := 0, 1
	{
		pidx := func(v ssa.Value) int {
			if p, ok := w.Resolve(v).(*ssa.Parameter); ok {
				for i, q := range pub.Params {
					if q == p {
						return i
					}
				}
			}
			return -1
		}
		si, di := -2, -2
		forward := true
		for _, rn := range renames {
			a, b := pidx(rn.Common().Args[0]), pidx(rn.Common().Args[1])
			if a < 0 || b < 0 || (si != -2 && (si != a || di != b)) {
				forward = false
			}
			si, di = a, b
		}
		if forward {
			var sites []ssa.CallInstruction
			var host *ssa.Function
			for _, fn := range storeFuncs {
				for _, ci := range findCalls(fn, func(_ string, c *ssa.CallCommon) bool { return c.StaticCallee() == pub }) {
					sites = append(sites, ci)
					host = fn
				}
			}
			if len(sites) == 1 && host != pub {
				helper = pub
				hname := FuncName(helper)
				r.Anchor("rename helper (forwards its parameters to os.Rename)", hname)
				// helper: nil error only after a successful rename (or the rename's own result)
				var rtests []errTest
				isRenameResult := map[ssa.Value]bool{}
				for _, rn := range renames {
					if c, ok := rn.(*ssa.Call); ok {
						rtests = append(rtests, w.nilTests(helper, c)...)
						isRenameResult[c] = true
					}
				}
				okH, detail := true, ""
				allInstrs(helper, func(in ssa.Instruction) {
					ret, ok := in.(*ssa.Return)
					if !ok || len(ret.Results) == 0 {
						return
					}
					last := ret.Results[len(ret.Results)-1]
					if isRenameResult[w.Resolve(last)] || !w.maybeNilError(helper, ret, last) {
						return
					}
					res := PathQuery{Fn: helper, Target: func(x ssa.Instruction) bool { return x == in },
						BlockEdge: func(b *ssa.BasicBlock, s int) bool {
							for _, t := range rtests {
								if t.If.Block() == b && s == t.OkSucc {
									return true
								}
							}
							return false
						}}.Find()
					if len(rtests) == 0 || res.Found {
						okH, detail = false, res.String()
					}
				})
				r.Check(okH, "protocol.success-after-rename", hname+": success return of the rename helper", w.Pos(helper.Pos()), "the helper returns nil only over the err == nil edge of an os.Rename (or returns the rename's own result)", "the rename helper can return nil without a successful rename ("+detail+")")
				pub, renames = host, sites
				srcIdx, dstIdx = si, di
			}
		}
	}
	r.Anchor("publishing function (calls os.Rename)", FuncName(pub))
	fname := FuncName(pub)

	var publishedName string
	var publishedDirAP string
	// split form: the temp file is created in another function than the one that renames it (the save
	// method delegates to "write the temp file" and "replace the snapshot" helpers): the protocol is
	// then decided on the paths of the save method with its helpers spliced in
	splitRegion := map[*ssa.Function]bool{}
	if len(findCalls(pub, func(n string, _ *ssa.CallCommon) bool { return isOSFunc(n, "CreateTemp") })) == 0 {
		if entry := c09Entry(w, storeFuncs); entry != nil {
			r.Anchor("save method (protocol decided on its spliced paths)", FuncName(entry))
			publishedName, publishedDirAP, splitRegion = c09ProtocolOnPaths(w, r, entry, storeFuncs)
			renames = nil
			pub = entry
			fname = FuncName(pub)
		}
	}
	for _, rn := range renames {
		c := rn.Common()
		pos := w.InstrPos(rn)
		// 1. source is the Name() of a file created by CreateTemp in the same call
		src := w.Resolve(c.Args[srcIdx])
		var tmpFile ssa.Value
		var createTemp *ssa.Call
		if call, ok := src.(*ssa.Call); ok && calleeName(&call.Call) == "os.(File).Name" {
			if ex, ok := w.Resolve(call.Call.Args[0]).(*ssa.Extract); ok && ex.Index == 0 {
				if ct, ok := ex.Tuple.(*ssa.Call); ok && isOSFunc(calleeName(&ct.Call), "CreateTemp") {
					tmpFile, createTemp = ex, ct
				}
			}
		}
		if !r.Check(createTemp != nil, "protocol.temp-source", fname+": source of os.Rename", pos,
			"source is Name() of the *os.File returned by os.CreateTemp in the same call (unique per save)",
			"source of the rename ("+w.AP(c.Args[srcIdx])+") is not the Name() of a file that os.CreateTemp returned in this call: concurrent saves could share or clobber a temp file, or a partially written file could be published") {
			continue
		}
		// 2. same directory
		dst := w.throughRecvPathHelper(w.Resolve(c.Args[dstIdx]))
		dstDir, dstName := "", ""
		if jc, ok := dst.(*ssa.Call); ok && (calleeName(&jc.Call) == "path.Join" || calleeName(&jc.Call) == "path/filepath.Join") {
			if el := w.variadicElems(jc.Call.Args[0]); len(el) == 2 {
				dstDir = w.AP(el[0])
				if k, ok := el[1].(*ssa.Const); ok && k.Value != nil && k.Value.Kind() == constant.String {
					dstName = constant.StringVal(k.Value)
				}
			}
		}
		tmpDir := w.AP(createTemp.Call.Args[0])
		r.Check(dstDir != "" && dstDir == tmpDir && dstName != "", "protocol.same-dir", fname+": directory of temp file and published file", pos,
			"CreateTemp("+tmpDir+", …) and Join("+dstDir+", \""+dstName+"\"): same directory, hence same file system",
			fmt.Sprintf("temp file is created in %q but published to Join(%q, %q): a rename across directories/file systems is not atomic (or fails)", tmpDir, dstDir, dstName))
		publishedName, publishedDirAP = dstName, dstDir
		if pat, ok := createTemp.Call.Args[1].(*ssa.Const); ok && pat.Value != nil {
			p := constant.StringVal(pat.Value)
			r.Check(p != dstName && !strings.HasSuffix(dstName, strings.TrimPrefix(p, "*")) || strings.Contains(p, "*"), "protocol.temp-pattern", fname+": CreateTemp pattern", w.InstrPos(createTemp),
				"temp pattern "+p+" cannot collide with "+dstName, "temp pattern can collide with the published name")
		}
		// 3. Encode(data) on that file returned nil on every path to the rename
		// (directly, or in a helper that gets the file and the snapshot and returns Encode's result)
		var encode *ssa.Call
		var encodedVal ssa.Value // the value that is encoded, in terms of the publishing function
		encodeIn := func(fn *ssa.Function, file ssa.Value) (*ssa.Call, ssa.Value) {
			var found *ssa.Call
			var val ssa.Value
			for _, ci := range findCalls(fn, func(n string, _ *ssa.CallCommon) bool {
				return strings.HasSuffix(n, ".Encode") || n == "invoke:Encode"
			}) {
				call, ok := ci.(*ssa.Call)
				if !ok {
					continue
				}
				cc := &call.Call
				// encoder := X.NewEncoder(file)
				var enc ssa.Value
				if cc.IsInvoke() {
					enc = cc.Value
				} else if len(cc.Args) > 0 {
					enc = cc.Args[0]
				}
				ne, ok := w.Resolve(enc).(*ssa.Call)
				if !ok || !strings.HasSuffix(calleeName(&ne.Call), "NewEncoder") || len(ne.Call.Args) == 0 {
					continue
				}
				if w.Resolve(ne.Call.Args[len(ne.Call.Args)-1]) != file {
					continue
				}
				found = call
				val = w.Resolve(cc.Args[len(cc.Args)-1])
			}
			return found, val
		}
		encode, encodedVal = encodeIn(pub, tmpFile)
		if encode == nil {
			for _, ci := range findCalls(pub, func(_ string, c *ssa.CallCommon) bool {
				f := c.StaticCallee()
				return f != nil && f.Blocks != nil && w.InModule(f)
			}) {
				call, ok := ci.(*ssa.Call)
				if !ok {
					continue
				}
				h := call.Call.StaticCallee()
				for i, a := range call.Call.Args {
					if w.Resolve(a) != tmpFile || i >= len(h.Params) {
						continue
					}
					inner, val := encodeIn(h, h.Params[i])
					if inner == nil {
						continue
					}
					// the helper hands Encode's error back on every return
					delegates := true
					allInstrs(h, func(in ssa.Instruction) {
						if rt, ok := in.(*ssa.Return); ok && rt.Block() != h.Recover {
							if len(rt.Results) == 0 || w.Resolve(rt.Results[len(rt.Results)-1]) != ssa.Value(inner) {
								delegates = false
							}
						}
					})
					if !delegates {
						continue
					}
					encode = call
					if p, ok := val.(*ssa.Parameter); ok && p.Parent() == h && paramIdxOf(p) < len(call.Call.Args) {
						encodedVal = w.Resolve(call.Call.Args[paramIdxOf(p)])
					} else {
						encodedVal = val
					}
					r.Anchor("encode helper (returns Encode's error)", FuncName(h))
				}
			}
		}
		if !r.Check(encode != nil, "protocol.encode", fname+": Encode into the temp file", pos,
			"an Encode call writes through NewEncoder(temp file)", "no Encode call writes into the temp file that is renamed: an empty or foreign file is published") {
			continue
		}
		// the encoded value is the function's data parameter
		encVal := encodedVal
		isParam := false
		for _, p := range pub.Params {
			if encVal == ssa.Value(p) && strings.HasSuffix(p.Type().String(), "PersistedData") {
				isParam = true
			}
		}
		r.Check(isParam, "protocol.encode-arg", fname+": value encoded", w.InstrPos(encode),
			"Encode receives the *PersistedData parameter itself", "Encode receives "+w.AP(encVal)+", not the snapshot passed to the save")
		tests := w.nilTests(pub, encode)
		if len(tests) == 0 {
			r.Viol("protocol.encode-checked", fname+": Encode error", w.InstrPos(encode), "the error returned by Encode is never tested: a failed or short write would be published")
		} else {
			q := PathQuery{Fn: pub, Start: []ssa.Instruction{encode}, Target: func(in ssa.Instruction) bool { return in == rn },
				BlockEdge: func(b *ssa.BasicBlock, s int) bool {
					for _, t := range tests {
						if t.If.Block() == b && s == t.OkSucc {
							return true
						}
					}
					return false
				}}
			res := q.Find()
			r.Check(!res.Found, "protocol.encode-checked", fname+": Encode error", w.InstrPos(encode),
				"every path from Encode to os.Rename takes the err == nil edge of the Encode result",
				"os.Rename is reachable from Encode without taking the err == nil edge ("+res.String()+"): a failed write is published")
		}
		r.Check(instrDominates(encode, rn), "protocol.order", fname+": Encode before Rename", pos, "Encode dominates os.Rename", "os.Rename is reachable without passing Encode: an incomplete file is published")
		// 4. success is returned only after the rename succeeded
		rtests := w.nilTests(pub, rn.(*ssa.Call))
		nSucc := 0
		allInstrs(pub, func(in ssa.Instruction) {
			ret, ok := in.(*ssa.Return)
			if !ok || len(ret.Results) == 0 {
				return
			}
			last := ret.Results[len(ret.Results)-1]
			if !w.maybeNilError(pub, ret, last) {
				return
			}
			nSucc++
			q := PathQuery{Fn: pub, Target: func(x ssa.Instruction) bool { return x == in },
				BlockEdge: func(b *ssa.BasicBlock, s int) bool {
					for _, t := range rtests {
						if t.If.Block() == b && s == t.OkSucc {
							return true
						}
					}
					return false
				}}
			res := q.Find()
			r.Check(len(rtests) > 0 && !res.Found, "protocol.success-after-rename", fname+": success return", w.InstrPos(ret),
				"every path to this nil-error return takes the err == nil edge of os.Rename",
				"a nil error can be returned without the rename having succeeded ("+res.String()+"): the caller believes a save that did not happen")
		})
		if nSucc == 0 {
			r.Viol("protocol.success-after-rename", fname+": success return", pos, "no success return found")
		}
	}

	// 5. who may write: file-mutating os calls in package store
	for _, fn := range storeFuncs {
		for _, ci := range findCalls(fn, func(n string, _ *ssa.CallCommon) bool {
			if !strings.HasPrefix(n, "os.") && !strings.HasPrefix(n, "io/ioutil.") {
				return false
			}
			return fileMutators[n[strings.LastIndex(n, ".")+1:]]
		}) {
			n := calleeName(ci.Common())
			short := n[strings.LastIndex(n, ".")+1:]
			allowed := short == "MkdirAll" || (fn == pub && (short == "CreateTemp" || short == "Rename")) || (fn == helper && helper != nil && short == "Rename") ||
				(splitRegion[fn] && (short == "CreateTemp" || short == "Rename"))
			if !allowed && short == "Remove" && len(ci.Common().Args) == 1 {
				// cleaning up the save's own temporary file after a failure: the removed name is the CreateTemp result's name
				isTemp := func(v ssa.Value) bool { return strings.Contains(w.APThrough(v), "os.CreateTemp(") }
				arg := w.Resolve(ci.Common().Args[0])
				if isTemp(arg) {
					allowed = true
				} else if prm, isP := arg.(*ssa.Parameter); isP && prm.Parent() == fn {
					nSites, okSites := 0, true
					for _, g := range storeFuncs {
						for _, cs := range findCalls(g, func(_ string, c *ssa.CallCommon) bool { return c.StaticCallee() == fn }) {
							nSites++
							if idx := paramIdxOf(prm); idx >= len(cs.Common().Args) || !isTemp(cs.Common().Args[idx]) {
								okSites = false
							}
						}
					}
					allowed = nSites > 0 && okSites
				}
			}
			r.Check(allowed, "who-may-write.store", FuncName(fn)+": "+n, w.InstrPos(ci),
				"allowed file-system mutation (directory creation / temp file / publishing rename)",
				n+" in package store outside the CreateTemp→Encode→Rename protocol: the published file (or its directory) can be left truncated, partial or missing")
		}
	}
	// module-wide: the published file name is used only as rename destination and open-for-read argument
	if publishedName != "" {
		for _, fn := range w.ModFuncs {
			allInstrs(fn, func(in ssa.Instruction) {
				for _, op := range in.Operands(nil) {
					k, ok := (*op).(*ssa.Const)
					if !ok || k.Value == nil || k.Value.Kind() != constant.String || constant.StringVal(k.Value) != publishedName {
						continue
					}
					use := w.publishedNameUse(in, helper, dstIdx)
					if len(splitRegion) > 0 {
						use = c09NameUseOnPaths(w, fn, publishedName, storeFuncs)
					}
					okUse := use != ""
					for _, u1 := range strings.Split(use, "+") { // a shared path helper serves both the open and the rename
						okUse = okUse && (u1 == "os.Rename:dst" || u1 == "os.Open")
					}
					r.Check(okUse, "who-may-write.published-name", FuncName(fn)+": use of \""+publishedName+"\"", w.InstrPos(in),
						"used as "+use, "the published file name flows to "+use+": only the rename destination and a read-only open may name it")
				}
			})
		}
	}

	// 6. Load reads exactly the published path with the same codec; not-exist → empty state
	var load, splitLoad *ssa.Function
	for _, fn := range storeFuncs {
		if fn.Parent() == nil && fn.Signature.Recv() != nil && pub.Signature.Recv() != nil && fn.Signature.Recv().Type().String() == pub.Signature.Recv().Type().String() {
			if len(findCalls(fn, func(n string, _ *ssa.CallCommon) bool { return isOSFunc(n, "Open") })) > 0 && splitLoad == nil {
				load = fn
			}
			// split form: the exported method that reaches os.Open through helpers of the package (it wins over the helper
			// that holds the open call itself)
			if len(splitRegion) > 0 && fn != pub && fn.Object() != nil && fn.Object().Exported() && c09OpensOnPaths(w, fn, storeFuncs) != nil {
				load, splitLoad = fn, fn
			}
		}
	}
	if load == nil {
		r.Viol("load.path", "package store: load function", "-", "no method of the store opens a file for reading")
	} else {
		r.Anchor("load function (calls os.Open)", FuncName(load))
		if len(splitRegion) > 0 {
			opens := c09OpensOnPaths(w, load, storeFuncs)
			want := "path.Join([" + publishedDirAP + ",\"" + publishedName + "\"])"
			okO := len(opens) > 0
			for _, o := range opens {
				okO = okO && o == want
			}
			r.Check(okO, "load.path", FuncName(load)+": file opened", w.Pos(load.Pos()), "opens "+want+", the path the save publishes", fmt.Sprintf("opens %v but the save publishes %s", opens, want))
		}
		for _, ci := range findCalls(load, func(n string, _ *ssa.CallCommon) bool { return isOSFunc(n, "Open") && len(splitRegion) == 0 }) {
			arg := w.Resolve(ci.Common().Args[0])
			dir, name := "", ""
			// a helper method of the same receiver that returns the joined path
			arg = w.throughRecvPathHelper(arg)
			if jc, ok := arg.(*ssa.Call); ok && strings.HasSuffix(calleeName(&jc.Call), ".Join") {
				if el := w.variadicElems(jc.Call.Args[0]); len(el) == 2 {
					dir = w.AP(el[0])
					if k, ok := el[1].(*ssa.Const); ok && k.Value != nil && k.Value.Kind() == constant.String {
						name = constant.StringVal(k.Value)
					}
				}
			}
			r.Check(dir == publishedDirAP && name == publishedName && name != "", "load.path", FuncName(load)+": file opened", w.InstrPos(ci),
				"opens Join("+dir+", \""+name+"\"), the path the save publishes", fmt.Sprintf("opens Join(%q, %q) but the save publishes Join(%q, %q)", dir, name, publishedDirAP, publishedName))
		}
		// codec agreement
		encG := codecGlobals(w, pub, "NewEncoder")
		decG := codecGlobals(w, load, "NewDecoder")
		r.Check(len(encG) == 1 && len(decG) == 1 && encG[0] == decG[0], "load.codec", "store: encoder/decoder codec", w.Pos(load.Pos()),
			"save and load use the same codec value "+strings.Join(encG, ","), "save encodes with "+strings.Join(encG, ",")+" but load decodes with "+strings.Join(decG, ","))
		// not-exist → (&PersistedData{}, nil)
		res := w.EnumPaths(load, EnumOpts{})
		if len(splitRegion) > 0 {
			inStore := map[*ssa.Function]bool{}
			for _, f := range storeFuncs {
				inStore[f] = true
			}
			res = w.EnumPaths(load, EnumOpts{Inline: true, ForceInline: func(f *ssa.Function) bool { return inStore[f] }, MaxPaths: 20000})
		}
		found := false
		for _, p := range res.Paths {
			if p.End != "return" || len(p.Ret) != 2 {
				continue
			}
			for _, l := range p.Lits {
				if l.Val && strings.Contains(l.Atom.L, "ErrNotExist") {
					_, isAlloc := p.RetVals[0].(*ssa.Alloc)
					if isAlloc && p.Ret[1] == "nil" {
						found = true
					}
				}
			}
		}
		// decode result: (data, nil) exactly behind the err == nil edge of Decode; a nil error otherwise only
		// for the missing file
		okDec, nDec, decDetail := true, 0, ""
		for _, p := range res.Paths {
			if p.End != "return" || len(p.Ret) != 2 {
				continue
			}
			dec, decArgs := "", ""
			for _, e := range p.Effects {
				if e.Kind == "call" && (strings.HasSuffix(e.Target, ".Decode") || strings.HasSuffix(e.Target, ".Unmarshal")) {
					dec, decArgs = e.Target+"("+e.Val+")", e.Val
				}
			}
			decoded, notExist := false, false
			for _, l := range p.Lits {
				if dec != "" && l.Atom.Op == "==" && l.Atom.L == dec && l.Atom.R == "nil" {
					decoded = l.Val
				}
				if l.Val && strings.Contains(l.Atom.L, "ErrNotExist") {
					notExist = true
				}
			}
			// a wrapped error is nil exactly when its cause is: `return nil, errors.Wrap(err, …)` behind err == nil
			ret1 := p.Ret[1]
			if inner := unwrapErrAP(ret1); inner != ret1 {
				for _, l := range p.Lits {
					if l.Val && l.Atom.Op == "==" && l.Atom.L == inner && l.Atom.R == "nil" {
						ret1 = "nil"
					}
				}
			}
			switch {
			case decoded:
				nDec++
				if ret1 != "nil" || p.Ret[0] == "nil" {
					okDec = false
					decDetail = "after a successful decode it returns (" + p.Ret[0] + ", " + p.Ret[1] + ")"
				} else if decArgs != p.Ret[0] && !strings.HasSuffix(decArgs, ","+p.Ret[0]) {
					// what is returned is the object the decoder filled
					okDec = false
					decDetail = "after a successful decode into (" + decArgs + ") it returns " + p.Ret[0] + ", not the decoded object"
				}
			case ret1 == "nil" && !notExist:
				okDec = false
				decDetail = "it returns a nil error without a successful decode (path " + p.LitString() + ")"
			}
		}
		r.Check(okDec && nDec > 0, "load.decode-result", FuncName(load)+": returns what it decoded", w.Pos(load.Pos()),
			"(data, nil) exactly behind the err == nil edge of Decode; an error otherwise (a missing file aside)", FuncName(load)+" does not return the decoded snapshot exactly when decoding succeeded: "+decDetail+" — a restart loads nothing (or fails) although the snapshot is intact")
		r.Count("paths", len(res.Paths))
		r.Check(found, "load.not-exist", FuncName(load)+": missing file", w.Pos(load.Pos()),
			"the not-exist path returns a fresh empty state and a nil error", "no path maps a missing file to (empty state, nil): a never-saved store does not load")
	}
	r.Floor("protocol", 7)
	r.Floor("who-may-write", 4)
	r.Floor("load", 4)
}

// maybeNilError: can the error value returned here be nil? It cannot when the return is
// reached only over the != nil edge of a test of the value it returns or wraps.
func (w *World) maybeNilError(fn *ssa.Function, ret *ssa.Return, v ssa.Value) bool {
	// a named result read back behind the deferred calls: the value the return statement stored
	if rs := w.reachingStoreValue(v); rs != nil {
		v = rs
	}
	v = w.Resolve(v)
	if isNilConst(v) {
		return true
	}
	var inner ssa.Value = v
	if c, ok := v.(*ssa.Call); ok {
		n := calleeName(&c.Call)
		switch {
		case strings.HasSuffix(n, "errors.Wrap"), strings.HasSuffix(n, "errors.Wrapf"), strings.HasSuffix(n, "errors.WithStack"), strings.HasSuffix(n, "errors.WithMessage"):
			inner = w.Resolve(c.Call.Args[0])
		case strings.HasSuffix(n, "errors.New"), strings.HasSuffix(n, "errors.Errorf"), n == "fmt.Errorf":
			return false
		default:
			// an arbitrary call result: may be nil unless guarded below
		}
	}
	// is every path to ret over the non-nil edge of a test of inner?
	if rs := w.reachingStoreValue(inner); rs != nil {
		inner = rs
	}
	tests := w.nilTests(fn, inner)
	if len(tests) == 0 {
		return true
	}
	q := PathQuery{Fn: fn, Target: func(x ssa.Instruction) bool { return x == ssa.Instruction(ret) },
		BlockEdge: func(b *ssa.BasicBlock, s int) bool {
			for _, t := range tests {
				if t.If.Block() == b && s == 1-t.OkSucc {
					return true
				}
			}
			return false
		}}
	return q.Find().Found
}

// publishedNameUse classifies what a Join of the published file name flows into.
func (w *World) publishedNameUse(in ssa.Instruction, helper *ssa.Function, dstIdx int) string {
	// the constant is stored into a varargs array element; find the Join call over that array
	st, ok := in.(*ssa.Store)
	if !ok {
		if c := callCommonOf(in); c != nil {
			return "argument of " + calleeName(c)
		}
		return fmt.Sprintf("%T", in)
	}
	ia, ok := st.Addr.(*ssa.IndexAddr)
	if !ok {
		return "a store to " + w.apAddr(st.Addr)
	}
	al, ok := ia.X.(*ssa.Alloc)
	if !ok || al.Referrers() == nil {
		return "a store"
	}
	for _, r := range *al.Referrers() {
		sl, ok := r.(*ssa.Slice)
		if !ok || sl.Referrers() == nil {
			continue
		}
		for _, rr := range *sl.Referrers() {
			jc, ok := rr.(*ssa.Call)
			if !ok || !strings.HasSuffix(calleeName(&jc.Call), ".Join") || jc.Referrers() == nil {
				continue
			}
			uses := []string{}
			for _, u := range *jc.Referrers() {
				if c := callCommonOf(u); c != nil {
					n := calleeName(c)
					switch {
					case isOSFunc(n, "Rename") && len(c.Args) == 2 && c.Args[1] == ssa.Value(jc) && c.Args[0] != ssa.Value(jc):
						uses = append(uses, "os.Rename:dst")
					case helper != nil && c.StaticCallee() == helper && dstIdx < len(c.Args) && c.Args[dstIdx] == ssa.Value(jc):
						// the rename helper's destination parameter
						only := true
						for i, a := range c.Args {
							if i != dstIdx && a == ssa.Value(jc) {
								only = false
							}
						}
						if only {
							uses = append(uses, "os.Rename:dst")
						} else {
							uses = append(uses, n)
						}
					case n == "os.Open":
						uses = append(uses, "os.Open")
					default:
						uses = append(uses, n)
					}
				} else if rt, isRet := u.(*ssa.Return); isRet && w.InModule(rt.Parent()) {
					// a helper that returns the path: classify what its callers do with it
					g := rt.Parent()
					for _, caller := range w.ModFuncs {
						for _, ci := range findCalls(caller, func(_ string, c *ssa.CallCommon) bool { return c.StaticCallee() == g }) {
							cv, ok := ci.(*ssa.Call)
							if !ok || cv.Referrers() == nil {
								continue
							}
							for _, u2 := range *cv.Referrers() {
								if c2 := callCommonOf(u2); c2 != nil {
									n2 := calleeName(c2)
									switch {
									case isOSFunc(n2, "Rename") && len(c2.Args) == 2 && c2.Args[1] == ssa.Value(cv) && c2.Args[0] != ssa.Value(cv):
										uses = append(uses, "os.Rename:dst")
									case n2 == "os.Open":
										uses = append(uses, "os.Open")
									default:
										uses = append(uses, n2)
									}
								} else if mi, isMI := u2.(*ssa.MakeInterface); isMI && formatOnly(mi) {
									// named in an error or log message
								} else if _, isDbg := u2.(*ssa.DebugRef); !isDbg {
									uses = append(uses, fmt.Sprintf("%T", u2))
								}
							}
						}
					}
				} else if mi, isMI := u.(*ssa.MakeInterface); isMI && formatOnly(mi) {
					// named in an error or log message
				} else if _, isDbg := u.(*ssa.DebugRef); !isDbg {
					uses = append(uses, fmt.Sprintf("%T", u))
				}
			}
			if len(uses) == 1 {
				return uses[0]
			}
			return strings.Join(uses, "+")
		}
	}
	return "a path element"
}

// codecGlobals returns the package-level variables whose NewEncoder/NewDecoder method is invoked in fn.
func codecGlobals(w *World, fn *ssa.Function, method string) []string {
	var out []string
	// the function and the module helpers it calls directly (an extracted encode/decode helper)
	fns := []*ssa.Function{fn}
	allInstrs(fn, func(in ssa.Instruction) {
		if c := callCommonOf(in); c != nil {
			if g := c.StaticCallee(); g != nil && g.Blocks != nil && w.InModule(g) && g.Package() == fn.Package() {
				fns = append(fns, g)
			}
		}
	})
	seen := map[*ssa.Function]bool{}
	var calls []ssa.CallInstruction
	for _, f := range fns {
		if seen[f] {
			continue
		}
		seen[f] = true
		calls = append(calls, findCalls(f, func(n string, _ *ssa.CallCommon) bool { return strings.HasSuffix(n, method) })...)
	}
	for _, ci := range calls {
		c := ci.Common()
		var recv ssa.Value
		if c.IsInvoke() {
			recv = c.Value
		} else if len(c.Args) > 0 && c.Signature().Recv() != nil {
			recv = c.Args[0]
		} else {
			// package-level function, e.g. encoding/json.NewEncoder
			out = append(out, calleeName(c)[:strings.LastIndex(calleeName(c), ".")])
			continue
		}
		out = append(out, w.AP(recv))
	}
	return out
}

// throughRecvPathHelper: v is the call of a module method of the same receiver with one return
// statement (a helper that returns the joined path): the returned expression, which is in the
// receiver's terms too; else v.
func (w *World) throughRecvPathHelper(v ssa.Value) ssa.Value {
	hc, ok := v.(*ssa.Call)
	if !ok {
		return v
	}
	g := hc.Call.StaticCallee()
	if g == nil || g.Blocks == nil || !w.InModule(g) || len(hc.Call.Args) != 1 || w.AP(hc.Call.Args[0]) != "recv" {
		return v
	}
	var inner ssa.Value
	nret := 0
	allInstrs(g, func(in ssa.Instruction) {
		if rt, ok := in.(*ssa.Return); ok && len(rt.Results) == 1 && rt.Block() != g.Recover {
			nret++
			inner = w.Resolve(rt.Results[0])
		}
	})
	if nret == 1 {
		return inner
	}
	return v
}

// c09Entry: the exported method of a store type in package store from which os.Rename is reached.
func c09Entry(w *World, storeFuncs []*ssa.Function) *ssa.Function {
	var reaches func(f *ssa.Function, d int, seen map[*ssa.Function]bool) bool
	reaches = func(f *ssa.Function, d int, seen map[*ssa.Function]bool) bool {
		if seen[f] || d > 3 {
			return false
		}
		seen[f] = true
		found := false
		allInstrs(f, func(in ssa.Instruction) {
			if c := callCommonOf(in); c != nil {
				if isOSFunc(calleeName(c), "Rename") {
					found = true
				} else if g := c.StaticCallee(); g != nil && g.Blocks != nil && w.InModule(g) && reaches(g, d+1, seen) {
					found = true
				}
			}
		})
		return found
	}
	var out *ssa.Function
	for _, fn := range storeFuncs {
		if fn.Parent() == nil && fn.Signature.Recv() != nil && fn.Object() != nil && fn.Object().Exported() && fn.Synthetic == "" && reaches(fn, 0, map[*ssa.Function]bool{}) {
			if out != nil {
				return nil
			}
			out = fn
		}
	}
	return out
}

// c09ProtocolOnPaths decides the CreateTemp → Encode → Rename protocol on the paths of the save method
// with every helper of package store spliced in. Returns the published name, the directory's access
// path and the functions that belong to the protocol (entry + its exclusive helpers).
func c09ProtocolOnPaths(w *World, r *Report, entry *ssa.Function, storeFuncs []*ssa.Function) (string, string, map[*ssa.Function]bool) {
	inStore := map[*ssa.Function]bool{}
	for _, f := range storeFuncs {
		inStore[f] = true
	}
	fname := FuncName(entry)
	pos := w.Pos(entry.Pos())
	res := w.EnumPaths(entry, EnumOpts{Inline: true, ForceInline: func(f *ssa.Function) bool { return inStore[f] }, MaxPaths: 20000})
	r.Count("paths", len(res.Paths))
	if res.Truncated || len(res.Paths) == 0 {
		r.Undecided("protocol.paths", fname, pos, "cannot enumerate the paths of the save method")
		return "", "", nil
	}
	// the region: functions whose calls were spliced, all of whose callers lie in the region too
	region := map[*ssa.Function]bool{entry: true}
	for _, p := range res.Paths {
		for _, e := range p.Effects {
			if e.Kind == "call" && e.Callee != nil && inStore[e.Callee] {
				region[e.Callee] = true
			}
		}
	}
	for f := range region {
		if f == entry {
			continue
		}
		for _, g := range w.ModFuncs {
			if !region[g] && len(findCalls(g, func(_ string, c *ssa.CallCommon) bool { return c.StaticCallee() == f })) > 0 {
				delete(region, f) // also callable from elsewhere: not exclusively part of the protocol
			}
		}
	}
	dataAP := ""
	for _, prm := range entry.Params {
		if strings.HasSuffix(prm.Type().String(), "PersistedData") {
			dataAP = w.AP(prm)
		}
	}
	okSrc, okDir, okEnc, okArg, okChk, okSucc := true, true, true, true, true, true
	detail := map[string]string{}
	pubName, pubDir := "", ""
	nRename, nSucc := 0, 0
	for _, p := range res.Paths {
		createAt, encAt, renameAt := -1, -1, -1
		createAP, file, dir, pattern, encAP, renameAP := "", "", "", "", "", ""
		nCreate := 0
		encOK, renOK := false, false
		for i, ev := range p.Events {
			if ev.Eff != nil && ev.Eff.Kind == "call" {
				e := ev.Eff
				switch {
				case isOSFunc(e.Target, "CreateTemp"):
					nCreate++
					createAt = i
					createAP = e.Target + "(" + e.Val + ")"
					file = createAP + "#0"
					if a := splitArgs(e.Val); len(a) == 2 {
						dir, pattern = a[0], strings.Trim(a[1], "\"")
					}
				case strings.HasSuffix(e.Target, ".Encode") && file != "" && strings.Contains(e.Val, "NewEncoder("+file+")"):
					encAt = i
					encAP = e.Target + "(" + e.Val + ")"
					if a := splitArgs(e.Val); len(a) == 0 || a[len(a)-1] != dataAP || dataAP == "" {
						okArg = false
						detail["arg"] = "Encode receives " + e.Val
					}
				case isOSFunc(e.Target, "Rename"):
					renameAt = i
					renameAP = e.Target + "(" + e.Val + ")"
					nRename++
					a := splitArgs(e.Val)
					if len(a) != 2 || createAt < 0 || nCreate != 1 || a[0] != "(*os.File).Name("+file+")" {
						okSrc = false
						detail["src"] = "source of the rename is " + e.Val
					}
					if len(a) == 2 {
						d, n := "", ""
						if strings.HasPrefix(a[1], "path.Join([") || strings.HasPrefix(a[1], "path/filepath.Join([") {
							in := a[1][strings.Index(a[1], "[")+1 : len(a[1])-2]
							if k := strings.LastIndex(in, ","); k >= 0 {
								d, n = in[:k], strings.Trim(in[k+1:], "\"")
							}
						}
						if d == "" || d != dir || n == "" || n == pattern || !strings.Contains(pattern, "*") {
							okDir = false
							detail["dir"] = fmt.Sprintf("temp file in %q (pattern %q), published to %s", dir, pattern, a[1])
						}
						pubName, pubDir = n, d
					}
					if encAt < 0 {
						okEnc = false
						detail["enc"] = "a path renames without an Encode into the temp file (" + p.LitString() + ")"
					} else if !encOK {
						okChk = false
						detail["chk"] = "os.Rename is reached without the err == nil edge of Encode (" + p.LitString() + ")"
					}
				}
			}
			if ev.Lit != nil && ev.Lit.Atom.Op == "==" && ev.Lit.Atom.R == "nil" {
				if encAP != "" && ev.Lit.Atom.L == encAP && i > encAt {
					encOK = ev.Lit.Val
				}
				if renameAP != "" && ev.Lit.Atom.L == renameAP && i > renameAt {
					renOK = ev.Lit.Val
				}
			}
		}
		if p.End == "return" && len(p.Ret) > 0 && p.Ret[len(p.Ret)-1] == "nil" {
			nSucc++
			if renameAt < 0 || !renOK {
				okSucc = false
				detail["succ"] = "a nil error is returned without a successful rename (" + p.LitString() + ")"
			}
		}
	}
	r.Check(okSrc && nRename > 0, "protocol.temp-source", fname+": source of os.Rename", pos, "on every path the renamed file is Name() of the one file os.CreateTemp returned on that path", detail["src"]+": concurrent saves could share or clobber a temp file, or a partially written file could be published")
	r.Check(okDir && nRename > 0, "protocol.same-dir", fname+": directory of temp file and published file", pos, "CreateTemp(dir, pattern with *) and Join(dir, name): same directory, names cannot collide", detail["dir"]+": a rename across directories is not atomic, or the temp name can collide with the published one")
	r.Check(okEnc && nRename > 0, "protocol.encode", fname+": Encode into the temp file", pos, "every renaming path has written through NewEncoder(temp file)", detail["enc"])
	r.Check(okArg, "protocol.encode-arg", fname+": value encoded", pos, "Encode receives the *PersistedData parameter itself", detail["arg"]+", not the snapshot passed to the save")
	r.Check(okChk && nRename > 0, "protocol.encode-checked", fname+": Encode error", pos, "every path to os.Rename took the err == nil edge of the Encode result", detail["chk"]+": a failed write is published")
	r.Check(okEnc && nRename > 0, "protocol.order", fname+": Encode before Rename", pos, "Encode precedes os.Rename on every path", "os.Rename is reachable without passing Encode")
	r.Check(okSucc && nSucc > 0, "protocol.success-after-rename", fname+": success return", pos, "every nil-error return lies behind the err == nil edge of os.Rename", detail["succ"]+": the caller believes a save that did not happen")
	return pubName, pubDir, region
}

// c09OpensOnPaths: the arguments of os.Open on the paths of fn with the helpers of package store spliced in
// (nil when fn opens nothing).
func c09OpensOnPaths(w *World, fn *ssa.Function, storeFuncs []*ssa.Function) []string {
	inStore := map[*ssa.Function]bool{}
	for _, f := range storeFuncs {
		inStore[f] = true
	}
	res := w.EnumPaths(fn, EnumOpts{Inline: true, ForceInline: func(f *ssa.Function) bool { return inStore[f] }, MaxPaths: 20000})
	seen := map[string]bool{}
	var out []string
	for _, p := range res.Paths {
		for _, e := range p.Effects {
			if e.Kind == "call" && isOSFunc(e.Target, "Open") && !seen[e.Val] {
				seen[e.Val] = true
				out = append(out, e.Val)
			}
		}
	}
	sort.Strings(out)
	return out
}

// c09NameUseOnPaths classifies what the published file name is used for by the exported methods that
// reach fn (split form): every os call whose arguments mention the name, on their spliced paths.
func c09NameUseOnPaths(w *World, fn *ssa.Function, name string, storeFuncs []*ssa.Function) string {
	inStore := map[*ssa.Function]bool{}
	for _, f := range storeFuncs {
		inStore[f] = true
	}
	if !inStore[fn] {
		return "a use outside package store"
	}
	uses := map[string]bool{}
	for _, entry := range storeFuncs {
		if entry.Parent() != nil || entry.Object() == nil || !entry.Object().Exported() || entry.Synthetic != "" {
			continue
		}
		res := w.EnumPaths(entry, EnumOpts{Inline: true, ForceInline: func(f *ssa.Function) bool { return inStore[f] }, MaxPaths: 20000})
		for _, p := range res.Paths {
			for _, e := range p.Effects {
				if e.Kind != "call" || !strings.Contains(e.Val, "\""+name+"\"") {
					continue
				}
				switch {
				case isOSFunc(e.Target, "Rename"):
					if a := splitArgs(e.Val); len(a) == 2 && strings.Contains(a[1], "\""+name+"\"") && !strings.Contains(a[0], "\""+name+"\"") {
						uses["os.Rename:dst"] = true
					} else {
						uses["os.Rename:src"] = true
					}
				case isOSFunc(e.Target, "Open"):
					uses["os.Open"] = true
				case strings.HasPrefix(e.Target, "os.") || strings.HasPrefix(e.Target, "io/ioutil."):
					uses[e.Target] = true
				}
			}
		}
	}
	var out []string
	for u := range uses {
		out = append(out, u)
	}
	sort.Strings(out)
	return strings.Join(out, "+")
}

// unwrapErrAP strips the error wrappers (errors.Wrap/Wrapf/WithStack/WithMessage) from a rendered access
// path and returns the access path of the wrapped cause.
func unwrapErrAP(s string) string {
	for {
		i := strings.Index(s, "(")
		if i < 0 || !strings.HasSuffix(s, ")") {
			return s
		}
		name := s[:i]
		if !(strings.HasSuffix(name, "errors.Wrap") || strings.HasSuffix(name, "errors.Wrapf") || strings.HasSuffix(name, "errors.WithStack") || strings.HasSuffix(name, "errors.WithMessage") || strings.HasSuffix(name, "errors.WithMessagef")) {
			return s
		}
		depth, end := 0, -1
		inStr := false
		for k := i + 1; k < len(s)-1 && end < 0; k++ {
			switch c := s[k]; {
			case inStr:
				if c == '\\' {
					k++
				} else if c == '"' {
					inStr = false
				}
			case c == '"':
				inStr = true
			case c == '(' || c == '[':
				depth++
			case c == ')' || c == ']':
				depth--
			case c == ',' && depth == 0:
				end = k
			}
		}
		if end < 0 {
			end = len(s) - 1
		}
		s = s[i+1 : end]
	}
}

// formatOnly: the interface value is only an argument of a formatting call (error wrapping, fmt, logging): it is stored into
// the variadic argument array of such a call and goes nowhere else.
func formatOnly(mi *ssa.MakeInterface) bool {
	if mi.Referrers() == nil {
		return true
	}
	isFmt := func(c *ssa.CallCommon) bool {
		n := calleeName(c)
		for _, p := range []string{"github.com/pkg/errors.", "github.com/friendsofgo/errors.", "errors.", "fmt.Sprint", "fmt.Errorf", "github.com/apex/log.", "(*github.com/apex/log.", "(github.com/apex/log.", "log."} {
			if strings.HasPrefix(n, p) {
				return true
			}
		}
		return c.IsInvoke() && strings.Contains(c.Value.Type().String(), "apex/log")
	}
	for _, u := range *mi.Referrers() {
		switch x := u.(type) {
		case *ssa.DebugRef:
		case *ssa.Store:
			ia, ok := x.Addr.(*ssa.IndexAddr)
			if !ok || x.Val != ssa.Value(mi) {
				return false
			}
			al, ok := ia.X.(*ssa.Alloc)
			if !ok || al.Referrers() == nil {
				return false
			}
			for _, r := range *al.Referrers() {
				sl, ok := r.(*ssa.Slice)
				if !ok {
					continue
				}
				if sl.Referrers() == nil {
					continue
				}
				for _, rr := range *sl.Referrers() {
					if c := callCommonOf(rr); c == nil || !isFmt(c) {
						if _, isDbg := rr.(*ssa.DebugRef); !isDbg {
							return false
						}
					}
				}
			}
		default:
			if c := callCommonOf(u); c == nil || !isFmt(c) {
				return false
			}
		}
	}
	return true
}
