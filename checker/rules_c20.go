package main

import (
	"fmt"
	"strings"

	"golang.org/x/tools/go/ssa"
)

func init() {
	register(&PropDef{
		ID:          "C20",
		Level:       "other",
		Explanation: "That the kernel delivers a group signal to every member is trusted; decided is that the code asks for it on every path (non-windows configurations): PGID — every exec.Cmd that is started in the module's task-execution code has SysProcAttr{Setpgid: true}; TARGET — the pid argument of every syscall.Kill in the module is the negation of that command's Process.Pid (the whole process group); ESCALATION — the exec handler spawns, whenever the context can end, a watcher that after <-ctx.Done() sends SIGKILL at once when the kill timeout ≤ 0, and otherwise SIGINT plus an unconditional SIGKILL after Sleep(kill timeout), with the timeout wired from the task runner's killTimeout; WAIT — after a successful Start every path calls Wait before returning, and the stdout/stderr writers the runner hands to the compiled task are never bare *os.File values (io.MultiWriter results), so os/exec copies output through a pipe and Wait also covers every descendant that still holds it; ONLY THIS EXECUTOR — commands are executed only through the pgid executor (its exec handler is the one handed to the interpreter), the two other spawn sites (stage/task conditions) are unreachable because their guards read fields that are never set in the module, and every Execute reachable from a task run gets the runner's cancellable context; CANCEL WAITS — every task run is counted in the runner's WaitGroup and Cancel cancels the context and waits for all runs. FINISHED ⇒ WAITED — Scheduler.Schedule returns only behind WaitGroup.Wait for every stage goroutine it launched, on the cancel edge too (a job is reported finished only after Schedule returned, C01 slot-end).",
		Trusted:     []string{"kill(-pgid, sig) reaches every member of the process group", "setpgid keeps descendants in the group unless they leave it", "mvdan/sh hands every external command to the configured ExecHandler"},
		NotDecided:  []string{"that the kernel delivers to every member", "latency of delivery", "processes that leave their process group (setsid)"},
		SkipConfig: func(bc BuildConfig) string {
			if bc.GOOS == "windows" {
				return "the process-group executor is built only on !windows (executor_unix.go)"
			}
			return ""
		},
		Check: checkC20,
	})
}

// nonFileWriter: the io.Writer value v is, on every path, something other than a bare *os.File.
func (w *World) nonFileWriter(v ssa.Value, depth int) (bool, string) {
	if depth > 6 {
		return false, "too deep"
	}
	v = w.Resolve(v)
	switch x := v.(type) {
	case *ssa.Call:
		n := calleeName(&x.Call)
		if n == "io.MultiWriter" {
			return true, "io.MultiWriter result"
		}
		if f := x.Call.StaticCallee(); f != nil && f.Blocks != nil && w.InModule(f) {
			all, why := true, "every result of "+FuncName(f)+" is a non-file writer"
			nret := 0
			allInstrs(f, func(in ssa.Instruction) {
				if rt, ok := in.(*ssa.Return); ok && len(rt.Results) > 0 {
					nret++
					if ok2, w2 := w.nonFileWriter(rt.Results[0], depth+1); !ok2 {
						all, why = false, FuncName(f)+" can return "+w.AP(rt.Results[0])+": "+w2
					}
				}
			})
			return all && nret > 0, why
		}
		return false, "result of " + n + " has an unknown dynamic type"
	case *ssa.MakeInterface:
		t := x.X.Type().String()
		if t == "*os.File" {
			return false, "an *os.File"
		}
		return true, "a " + t
	case *ssa.UnOp:
		if g, ok := x.X.(*ssa.Global); ok && globalName(g) == "io.Discard" {
			return true, "io.Discard"
		}
	case *ssa.Phi:
		for _, e := range x.Edges {
			if ok, why := w.nonFileWriter(e, depth+1); !ok {
				return false, why
			}
		}
		return true, "all alternatives are non-file writers"
	}
	return false, "dynamic type of " + w.AP(v) + " is not known to differ from *os.File"
}

const (
	sigINT  = "2"
	sigKILL = "9"
)

func checkC20(w *World, r *Report) {
	tp := w.Pkg("taskctl")
	if tp == nil {
		r.Undecided("anchors", "package taskctl", "-", "not found")
		return
	}
	// "reported finished ⇒ no process alive" needs the scheduler to return only after every stage goroutine
	// (whose Run waits for the task's processes) has finished — also on the cancel edge
	if s := w.FuncByName("taskctl", "(*Scheduler).Schedule"); s != nil {
		if ro := resolveRoles(w); ro.la != nil {
			ro.goPaired(r, "finished.stages-paired", s, true)
		}
	} else {
		r.Undecided("finished.stages-paired", "taskctl.Scheduler.Schedule", "-", "not found")
	}
	r.Floor("finished.", 2)
	// anchor: the exec handler = the closure returned by a function returning interp.ExecHandlerFunc
	var mk, handler *ssa.Function
	for _, fn := range w.ModFuncs {
		if fn.Package() == tp && fn.Parent() == nil && fn.Signature.Results().Len() == 1 && strings.HasSuffix(fn.Signature.Results().At(0).Type().String(), "interp.ExecHandlerFunc") {
			mk = fn
			if len(fn.AnonFuncs) > 0 {
				handler = fn.AnonFuncs[0]
			}
		}
	}
	if mk == nil || handler == nil {
		r.Undecided("anchors", "exec handler", "-", "no function returning interp.ExecHandlerFunc with a closure body")
		return
	}
	r.Anchor("exec handler constructor", FuncName(mk))
	hname := FuncName(handler)
	// (helpers that build the command or spawn the watcher are spliced in)
	res := w.EnumPaths(handler, EnumOpts{Inline: true, MaxPaths: 20000})
	r.Count("paths", len(res.Paths))

	// ---- PGID + WAIT on every path that starts a command
	nStart := 0
	okPgid, okWait, okWatch := true, true, true
	detail := ""
	for _, p := range res.Paths {
		startIdx := -1
		cmd := ""
		for i, e := range p.Effects {
			if e.Kind == "call" && strings.HasSuffix(e.Target, "exec.Cmd).Start") {
				startIdx = i
				cmd = strings.TrimPrefix(e.Val, "&")
			}
		}
		if startIdx < 0 {
			continue
		}
		nStart++
		setpgid, attr := false, ""
		for _, e := range p.Effects[:startIdx] {
			if e.Kind == "store" && e.Target == cmd+".SysProcAttr" {
				attr = strings.TrimPrefix(e.Val, "&")
			}
		}
		for _, e := range p.Effects[:startIdx] {
			if e.Kind == "store" && attr != "" && e.Target == attr+".Setpgid" && e.Val == "true" {
				setpgid = true
			}
		}
		if !setpgid {
			okPgid = false
			detail = "command " + cmd + " is started with SysProcAttr " + nameOr(attr, "unset") + " without Setpgid: true"
		}
		var started *bool
		for _, l := range p.Lits {
			if strings.HasSuffix(l.Atom.L, "exec.Cmd).Start(&"+cmd+")") && l.Atom.R == "nil" {
				v := l.Val
				started = &v
			}
		}
		waited, watcher, canEnd := false, false, false
		for _, e := range p.Effects[startIdx:] {
			if e.Kind == "call" && strings.HasSuffix(e.Target, "exec.Cmd).Wait") && e.Val == "&"+cmd {
				waited = true
			}
			if e.Kind == "go" {
				watcher = true
			}
		}
		for _, l := range p.Lits {
			if strings.HasSuffix(l.Atom.L, ".Done()") && l.Atom.R == "nil" && !l.Val {
				canEnd = true
			}
		}
		if started != nil && *started {
			if !waited {
				okWait = false
			}
			if canEnd && !watcher {
				okWatch = false
			}
		}
	}
	r.Check(okPgid && nStart > 0, "pgid.setpgid", hname+": commands get their own process group", w.Pos(handler.Pos()), fmt.Sprintf("on all %d paths that start a command its SysProcAttr has Setpgid: true", nStart), "a command is started without its own process group: "+detail+" — a cancel cannot reach grandchildren, and a group signal would hit prunner itself")
	r.Check(okWait && nStart > 0, "wait.after-start", hname+": Wait after a successful Start", w.Pos(handler.Pos()), "every path with Start()==nil calls Wait on the same command before returning", "after a successful Start a return is reachable without Wait: the task is reported finished while its process still runs")
	r.Check(okWatch && nStart > 0, "escalation.watcher-spawned", hname+": watcher spawned when the context can end", w.Pos(handler.Pos()), "whenever ctx.Done() is non-nil a watcher goroutine is spawned after Start", "no watcher goroutine is spawned for a cancellable context: a canceled task keeps running")

	// ---- ESCALATION inside the watcher
	// the watcher: what the handler launches with its go statement — a closure, or a function
	// that gets the context's done channel, the command and the kill timeout as arguments
	var watcher *ssa.Function
	timeoutAP := "arg0" // the constructor's kill-timeout parameter as the watcher sees it
	allInstrs(handler, func(in ssa.Instruction) {
		g, ok := in.(*ssa.Go)
		if !ok {
			return
		}
		if cl := funcValue(g.Call.Value); cl != nil && cl.Parent() != nil {
			watcher = cl
		} else if sf := g.Call.StaticCallee(); sf != nil && sf.Blocks != nil && w.InModule(sf) {
			watcher = sf
			timeoutAP = ""
			for i, a := range g.Call.Args {
				if p, ok := w.Resolve(a).(*ssa.Parameter); ok && p.Parent() == mk {
					timeoutAP = fmt.Sprintf("arg%d", i)
					if sf.Signature.Recv() != nil {
						timeoutAP = fmt.Sprintf("arg%d", i-1)
					}
				}
			}
		}
	})
	// … or a closure that a helper of the handler launches: the helper's parameters are then read as
	// what the handler passes (wenv); a parameter that is the result of a pure helper of the timeout
	// (`terminationFor(killTimeout)`) is evaluated beforehand, one case per path of that helper
	var wenv map[*ssa.Parameter]ssa.Value
	type tcase struct {
		calls       map[*ssa.Call][]ssa.Value
		nonPositive *bool
	}
	cases := []tcase{{}}
	if watcher == nil {
		for _, ci := range findCalls(handler, func(_ string, c *ssa.CallCommon) bool {
			g := c.StaticCallee()
			return g != nil && g.Blocks != nil && w.InModule(g)
		}) {
			host := ci.Common().StaticCallee()
			allInstrs(host, func(in ssa.Instruction) {
				g, ok := in.(*ssa.Go)
				if !ok {
					return
				}
				if cl := funcValue(g.Call.Value); cl != nil && cl.Parent() == host {
					watcher = cl
					wenv = map[*ssa.Parameter]ssa.Value{}
					for i, prm := range host.Params {
						if i < len(ci.Common().Args) {
							wenv[prm] = w.Resolve(ci.Common().Args[i])
						}
					}
				}
			})
		}
		for _, v := range wenv {
			hc, ok := v.(*ssa.Call)
			if !ok {
				continue
			}
			h := hc.Call.StaticCallee()
			if h == nil || h.Blocks == nil || !w.InModule(h) || len(h.Params) != 1 || len(hc.Call.Args) != 1 || !w.pureFunc(h, 0) {
				continue
			}
			if prm, ok := w.Resolve(hc.Call.Args[0]).(*ssa.Parameter); !ok || prm.Parent() != mk {
				continue
			}
			cases = nil
			for _, q := range w.EnumPaths(h, EnumOpts{}).Paths {
				if q.End != "return" || len(q.RetVals) != 1 {
					continue
				}
				var np *bool
				for _, l := range q.Lits {
					if l.Atom.Op == "<=" && l.Atom.L == "arg0" && l.Atom.R == "0" {
						v := l.Val
						np = &v
					}
				}
				cases = append(cases, tcase{calls: map[*ssa.Call][]ssa.Value{hc: {q.RetVals[0]}}, nonPositive: np})
			}
		}
	}
	if watcher == nil {
		r.Viol("escalation.kill", hname+": watcher goroutine", w.Pos(handler.Pos()), "the exec handler has no watcher closure")
	} else {
		var wpaths []*Path
		caseOf := map[*Path]tcase{}
		for _, tc := range cases {
			for _, p := range w.EnumPaths(watcher, EnumOpts{Inline: true, Params: wenv, Calls: tc.calls}).Paths {
				wpaths = append(wpaths, p)
				caseOf[p] = tc
			}
		}
		wr := EnumResult{Paths: wpaths}
		r.Count("paths", len(wr.Paths))
		okEsc := len(wr.Paths) > 0
		why := ""
		// the timeout variable: parameter of the constructor
		for _, p := range wr.Paths {
			// exec.Cmd.Process is set by a successful Start, and the watcher is spawned only behind one
			// (escalation.watcher-spawned): a `cmd.Process == nil` guard is not taken
			nilProcess := false
			for _, l := range p.Lits {
				if l.Atom.Op == "==" && strings.HasSuffix(l.Atom.L, ".Process") && l.Atom.R == "nil" && l.Val {
					nilProcess = true
				}
			}
			if nilProcess {
				continue
			}
			nonPositive := caseOf[p].nonPositive
			for _, l := range p.Lits {
				if l.Atom.Op == "<=" && l.Atom.L == timeoutAP && l.Atom.R == "0" {
					v := l.Val
					nonPositive = &v
				}
			}
			kills := map[string]bool{}
			var delayed *ssa.Function
			for _, e := range p.Effects {
				if e.Kind == "call" && e.Target == "syscall.Kill" {
					kills[e.Val[strings.LastIndex(e.Val, ",")+1:]] = true
				}
				if e.Kind == "go" {
					delayed = funcValue(e.In.(*ssa.Go).Call.Value)
				}
			}
			if nonPositive == nil {
				// a path that does not test the timeout must kill at once
				if !kills[sigKILL] {
					okEsc, why = false, "a path of the watcher neither tests the timeout nor sends SIGKILL"
				}
				continue
			}
			if *nonPositive {
				if !kills[sigKILL] {
					okEsc, why = false, "timeout ≤ 0: SIGKILL is not sent at once"
				}
				continue
			}
			// timeout > 0: SIGINT now, SIGKILL after Sleep(timeout) in a goroutine — unconditionally
			delayedOK := false
			if delayed != nil {
				// the delayed closure may belong to a helper of the watcher (terminate(pid, timeout)): its
				// captured parameters are then read as what the watcher passes to that helper
				var penv map[*ssa.Parameter]ssa.Value
				if host := delayed.Parent(); host != nil && host != watcher && host != handler && host != mk {
					for _, ci := range findCalls(watcher, func(_ string, c *ssa.CallCommon) bool { return c.StaticCallee() == host }) {
						penv = map[*ssa.Parameter]ssa.Value{}
						for k, v := range wenv {
							penv[k] = v
						}
						saved := w.paramEnv
						w.paramEnv = wenv // the watcher's own captured parameters are the handler's arguments
						for i, prm := range host.Params {
							if i < len(ci.Common().Args) {
								penv[prm] = w.Resolve(ci.Common().Args[i])
							}
						}
						w.paramEnv = saved
					}
				} else if wenv != nil {
					penv = wenv
				}
				dr := w.EnumPaths(delayed, EnumOpts{Inline: true, Params: penv})
				delayedOK = len(dr.Paths) > 0
				for _, dp := range dr.Paths {
					slept, killed := -1, -1
					for i, e := range dp.Effects {
						if e.Kind == "call" && e.Target == "time.Sleep" && e.Val == timeoutAP {
							slept = i
						}
						if e.Kind == "call" && e.Target == "syscall.Kill" && strings.HasSuffix(e.Val, ","+sigKILL) {
							killed = i
						}
					}
					if slept < 0 || killed < slept || len(dp.Lits) > 0 {
						delayedOK = false
					}
				}
			}
			if !kills[sigINT] || !delayedOK {
				okEsc, why = false, fmt.Sprintf("timeout > 0: SIGINT sent=%v, unconditional SIGKILL after Sleep(kill timeout)=%v", kills[sigINT], delayedOK)
			}
		}
		// the watcher first waits for the context
		waits := false
		allInstrs(watcher, func(in ssa.Instruction) {
			if u, ok := in.(*ssa.UnOp); ok && u.Op.String() == "<-" && u.Block().Index == 0 {
				waits = true
			}
		})
		r.Check(okEsc && waits, "escalation.kill", FuncName(watcher)+": SIGINT then unconditional SIGKILL", w.Pos(watcher.Pos()), "after <-ctx.Done(): timeout ≤ 0 → SIGKILL at once; else SIGINT and, after Sleep(kill timeout), SIGKILL on every path", "escalation broken: "+why+": a process that ignores the interrupt survives the cancel")
	}

	// ---- TARGET: every Kill targets the negated pid of the started command
	nKill := 0
	for _, fn := range w.ModFuncs {
		for _, ci := range findCalls(fn, func(n string, _ *ssa.CallCommon) bool {
			return n == "syscall.Kill" || strings.HasSuffix(n, "os.(Process).Kill") || strings.HasSuffix(n, "os.(Process).Signal")
		}) {
			nKill++
			c := ci.Common()
			key := FuncName(fn) + ": " + calleeName(c)
			if calleeName(c) != "syscall.Kill" {
				r.Viol("target.group", key, w.InstrPos(ci), "signals a single process, not its process group: children of the command survive")
				continue
			}
			pid := w.AP(c.Args[0])
			// a signalling helper (`func (g processGroup) signal(sig)`: Kill(-int(g), sig)): the negated
			// value is one of its parameters — every call site then counts, with what it passes
			if neg, ok := w.Resolve(c.Args[0]).(*ssa.UnOp); ok && neg.Op.String() == "-" {
				if prm, ok := w.Resolve(neg.X).(*ssa.Parameter); ok && prm.Parent() == fn && fn.Parent() == nil {
					leaves := w.argOrigins(fn, paramIdxOf(prm), 0)
					if len(leaves) > 0 {
						nKill += len(leaves) - 1
						for _, l := range leaves {
							lp := "-" + w.AP(l.v)
							r.Check(strings.HasSuffix(lp, ".Process.Pid"), "target.group", FuncName(l.fn)+": "+FuncName(fn)+"("+lp+", …)", w.InstrPos(l.in), "the group id handed to the signalling helper is the started command's pid, which the helper negates: the command's whole process group", "the signalling helper is given "+w.AP(l.v)+", not the pid of the started command")
						}
						continue
					}
				}
			}
			r.Check(strings.HasPrefix(pid, "-") && strings.HasSuffix(pid, ".Process.Pid"), "target.group", key+"("+pid+", "+w.AP(c.Args[1])+")", w.InstrPos(ci), "the target is the negated pid: the command's whole process group", "the signal goes to "+pid+", not to the negated pid of the command: only the shell dies, its children survive")
		}
	}
	if nKill < 3 {
		r.Viol("floor", "syscall.Kill call sites", "-", fmt.Sprintf("%d found, floor confirmed by hand is 3", nKill))
	}

	// ---- timeout wiring
	okWire := false
	// the executor constructor: the function of package taskctl that builds the interpreter
	if np := w.FuncByRole("taskctl", "NewPgidExecutor", func(f *ssa.Function) bool { return f.Parent() == nil && callsNamed(f, "interp.New") }); np != nil {
		ktIdx := -1
		for _, ci := range findCalls(np, func(_ string, c *ssa.CallCommon) bool { return c.StaticCallee() == mk }) {
			if p, ok := w.Resolve(ci.Common().Args[0]).(*ssa.Parameter); ok && p.Parent() == np {
				okWire = true
				ktIdx = paramIdxOf(p)
			}
		}
		// the handler is what the interpreter gets
		okH := false
		allInstrs(np, func(in ssa.Instruction) {
			if c, ok := in.(*ssa.Call); ok && strings.HasSuffix(calleeName(&c.Call), "interp.ExecHandler") {
				if inner, ok := w.Resolve(c.Call.Args[0]).(*ssa.Call); ok && inner.Call.StaticCallee() == mk {
					okH = true
				}
			}
		})
		r.Check(okH, "only-executor.handler-installed", FuncName(np)+": interpreter uses the pgid exec handler", w.Pos(np.Pos()), "interp.ExecHandler(createExecHandler(killTimeout)) is passed to interp.New", "the interpreter of the pgid executor is not configured with the process-group exec handler: commands run through the default handler (no process group, no kill escalation)")
		// every construction of the executor passes the runner's kill timeout
		// (followed through wrappers that forward their own parameter)
		if ktIdx >= 0 {
			for _, l := range w.argOrigins(np, ktIdx, 0) {
				r.Check(strings.HasSuffix(w.AP(l.v), ".killTimeout"), "escalation.timeout-wired", FuncName(l.fn)+": NewPgidExecutor(…, kill timeout)", w.InstrPos(l.in), "the runner's configured kill timeout is passed", "the executor is built with "+w.AP(l.v)+" instead of the runner's kill timeout")
			}
		}
	}
	r.Check(okWire, "escalation.timeout-wired", "taskctl.NewPgidExecutor: kill timeout → exec handler", w.Pos(mk.Pos()), "the executor's killTimeout parameter is handed to the exec handler", "the exec handler does not receive the executor's kill timeout")

	// ---- ONLY THIS EXECUTOR: spawn sites and executors in the module
	for _, fn := range w.ModFuncs {
		top := fn
		for top.Parent() != nil {
			top = top.Parent()
		}
		for _, ci := range findCalls(fn, func(n string, _ *ssa.CallCommon) bool {
			return strings.HasPrefix(n, "os/exec.(Cmd).") && (strings.HasSuffix(n, ".Start") || strings.HasSuffix(n, ".Run") || strings.HasSuffix(n, ".Output") || strings.HasSuffix(n, ".CombinedOutput")) || n == "os.StartProcess" || n == "syscall.ForkExec"
		}) {
			key := FuncName(fn) + ": " + calleeName(ci.Common())
			switch {
			case top == mk:
				r.OK("only-executor.spawn-sites", key, w.InstrPos(ci), "the process-group exec handler")
			case strings.HasSuffix(FuncName(fn), "checkStageCondition"):
				// exception: unreachable unless Stage.Condition is set; nothing in the module sets it
				set := w.fieldEverSet("Stage", "Condition")
				r.Check(!set, "only-executor.spawn-sites", key, w.InstrPos(ci), "listed exception: reachable only when Stage.Condition != \"\"; side condition verified: no store to Stage.Condition in the module", "a plain exec.Command(...).Run() outside the process-group handler is reachable: Stage.Condition is set somewhere in the module")
			default:
				r.Viol("only-executor.spawn-sites", key, w.InstrPos(ci), "a process is spawned outside the process-group exec handler: it is not in a killable group and survives a cancel")
			}
		}
		for _, ci := range findCalls(fn, func(n string, _ *ssa.CallCommon) bool {
			return strings.HasSuffix(n, "executor.NewDefaultExecutor")
		}) {
			r.Viol("only-executor.executor-kind", FuncName(fn)+": executor.NewDefaultExecutor", w.InstrPos(ci), "the upstream default executor (no process group) is used to run commands")
		}
	}
	// contexts of Execute calls
	for _, fn := range w.ModFuncs {
		for _, ci := range findCalls(fn, func(n string, _ *ssa.CallCommon) bool { return strings.HasSuffix(n, "taskctl.(PgidExecutor).Execute") }) {
			ctx := w.AP(ci.Common().Args[1])
			key := FuncName(fn) + ": Execute(ctx = " + ctx + ")"
			switch {
			case ctx == "recv.ctx" || ctx == "arg0" && w.ctxParamFedByRunnerCtx(fn):
				r.OK("only-executor.cancellable-context", key, w.InstrPos(ci), "the runner's cancellable context")
			case strings.HasPrefix(ctx, "context.Background") && strings.HasSuffix(FuncName(fn), "checkTaskCondition"):
				set := w.fieldEverSet("Task", "Condition")
				r.Check(!set, "only-executor.cancellable-context", key, w.InstrPos(ci), "listed exception: reachable only when Task.Condition != \"\"; side condition verified: no store to Task.Condition in the module", "a command runs with context.Background() and Task.Condition is set in the module: it cannot be canceled")
			default:
				r.Viol("only-executor.cancellable-context", key, w.InstrPos(ci), "a command is executed with a context that the job's cancel does not end")
			}
		}
	}
	// cancel waits (shared with C04)
	checkStopOrder(w, r)
	// ---- WAIT COVERS DESCENDANTS: exec.Cmd.Wait returns when the direct child has exited AND
	// the copy goroutines of its output pipes have finished, i.e. when no descendant holds the
	// pipe any more. os/exec creates such a pipe only when Stdout/Stderr is not an *os.File.
	// The writers the runner hands to the compiled task must therefore never be bare files
	// (the production output store returns *os.File): they are io.MultiWriter results.
	if run := w.FuncByName("taskctl", "(*TaskRunner).Run"); run == nil {
		r.Undecided("wait.output-through-pipe", "taskctl.TaskRunner.Run", "-", "not found")
	} else {
		n := 0
		for _, ci := range findCalls(run, func(nm string, _ *ssa.CallCommon) bool { return strings.HasSuffix(nm, "TaskCompiler).CompileTask") }) {
			cf := ci.Common().StaticCallee()
			if cf == nil {
				continue
			}
			for _, pn := range []string{"stdout", "stderr"} {
				pi := paramIndex(cf, pn)
				if pi < 0 || pi >= len(ci.Common().Args) {
					continue
				}
				n++
				a := ci.Common().Args[pi]
				ok, why := w.nonFileWriter(a, 0)
				r.Check(ok, "wait.output-through-pipe", FuncName(run)+": "+pn+" writer of the compiled task", w.InstrPos(ci), "never a bare *os.File ("+why+"): os/exec copies the output through a pipe and Wait returns only after every descendant holding it has gone",
					"the "+pn+" writer handed to the task ("+w.AP(a)+") can be the output store's *os.File itself ("+why+"): os/exec then passes the descriptor to the child and Wait returns as soon as the direct child exits — the job is reported finished while descendants that ignore the interrupt are still alive (and survive a forced shutdown)")
			}
		}
		if n == 0 {
			r.Viol("wait.output-through-pipe", FuncName(run)+": CompileTask call", w.Pos(run.Pos()), "no CompileTask call with stdout/stderr parameters found")
		}
	}
	r.Floor("pgid.", 1)
	r.Floor("wait.", 3)
	r.Floor("escalation.", 4)
	r.Floor("target.", 3)
	r.Floor("only-executor.", 6)
	r.Floor("stop.", 4)
}

// fieldEverSet: is there a store to a field named field of a struct type named typeName anywhere in the module (composite literals included)?
func (w *World) fieldEverSet(typeName, field string) bool {
	set := false
	for _, fn := range w.ModFuncs {
		allInstrs(fn, func(in ssa.Instruction) {
			if st, ok := in.(*ssa.Store); ok {
				if fa, ok := w.resolveAddr(st.Addr).(*ssa.FieldAddr); ok {
					fr := fieldOfAddr(fa)
					if fr.Owner != nil && fr.Owner.Obj().Name() == typeName && fr.Name == field {
						set = true
					}
				}
			}
		})
	}
	return set
}

// ctxParamFedByRunnerCtx: every call of fn in the module passes recv.ctx as its first argument.
func (w *World) ctxParamFedByRunnerCtx(fn *ssa.Function) bool {
	n := 0
	ok := true
	for _, caller := range w.ModFuncs {
		for _, ci := range findCalls(caller, func(_ string, c *ssa.CallCommon) bool { return c.StaticCallee() == fn }) {
			n++
			a := ci.Common().Args
			if len(a) < 2 || w.AP(a[1]) != "recv.ctx" {
				ok = false
			}
		}
	}
	return ok && n > 0
}
