#!/usr/bin/env python3
"""Regenerates MANIFEST.json from the table below and the list of properties the checker implements."""
import json, subprocess, os, sys
here = os.path.dirname(os.path.dirname(os.path.abspath(__file__)))
impl = subprocess.run([os.path.join(here, "bin/prunnerlint"), "-list"], capture_output=True, text=True).stdout.split()

ENV = "GOFLAGS=-mod=mod GOPROXY=off GOSUMDB=off GOTOOLCHAIN=local GOWORK=off"
P = json.load(open(os.path.join(here, "tools/manifest_props.json")))
D = json.loads(subprocess.run([os.path.join(here, "bin/prunnerlint"), "-describe"], capture_output=True, text=True).stdout)
TECH = {
 "C01": "order-type decision table + value-set/CFG dominance rules + WaitGroup pairing + lost-update rule on go/ssa",
 "C02": "CFG launch-gate rule, dependency-verdict table, record-correspondence of stage wiring, on go/ssa + AST",
 "C03": "CFG must-pass-through (re-trigger) rules, expiry-handler path table, composition of decision tables",
 "C04": "path/effect table of the cancel function, CFG dominance, discharger rule on the scheduler's cancel exit, lock/unlock pairing on all paths (package taskctl)",
 "C05": "order-type decision table of the admission function; per-path effect classification of the accept function",
 "C06": "SSA-form classification of wait-list mutations; lost-update (stale write-back) rule",
 "C07": "decision-table row + argument-flow of the timer + CFG edge-dominance (timer gate) + who-may-write + running-predicate table + nil-guard dominance of every timer use",
 "C08": "dependency-verdict and stage-result path tables; fail-fast effect table; error propagation from the command loop to the stage goroutine on all paths; field wiring",
 "C11": "CFG region/ordering rules, WaitGroup pairing (runner and stage goroutines), persist-coverage typestate, must-pass of the store's Save in the save function, signal argument flow",
 "C12": "order-type decision table of the retention decision; CFG must-pass (removal effects); comparator orientation; orientation of the list-removal comparison on the loop-body paths",
 "C15": "sibling-agreement over enumerated paths; comparator orientation; map-order-leak rule on the AST; value-origin rule for the job timestamps (clock or stored field)",
 "C16": "who-reads / who-writes rules over the resolved program; record correspondence of the job snapshot",
 "C18": "argument-flow (merge order) rules, per-job allocation rule, reserved-name dominance rule, path table of the process-environment filter",
 "C19": "labelled value flow of the stream writers to sink positions (field-based through holder structs); key-expression agreement; dominance of the membership test; ownership (no package-level state behind a writer); close-only-when-deferred typestate; reserved-name dominance rule; open-result path table of the file store",
 "C20": "field/argument-flow rules on the exec handler (Setpgid, negative pid, SIGKILL escalation), CFG must-pass, who-may-spawn, WaitGroup pairing of the stage goroutines",
}
for pid, d in D.items():
    e = P.setdefault(pid, {})
    e.setdefault("level", d["level"])
    e.setdefault("text", d["explanation"])
    e.setdefault("design_ref", "DESIGN.md section 5 " + pid)
    e.setdefault("note", "Trusted: " + "; ".join(d.get("trusted") or ["—"]) + ". Not decided: " + "; ".join(d.get("not_decided") or ["—"]) + ".")
    e.setdefault("technique", TECH.get(pid, "repository-specific static rules on go/ssa"))

checks, na = [], []
for pid in sorted(P):
    p = P[pid]
    if pid in impl and not p.get("na"):
        checks.append({
            "property_id": pid,
            "quick_cmd": f"./bin/prunnerlint -property {pid} -tier quick",
            "thorough_cmd": f"./bin/prunnerlint -property {pid} -tier thorough",
            "evidence_file": f"evidence/{pid}.json",
            "replay_cmd_template": "./bin/prunnerlint -replay {path}",
            "engine": "prunnerlint",
            "level_claimed": {"category": p["level"], "text": p["text"], "design_ref": p["design_ref"]},
            "level_note": p["note"],
            "technique": p["technique"],
        })
    else:
        na.append({"property_id": pid, "reason": p.get("na") or "static rules for this property are designed (DESIGN.md section 5) but not built yet; not claimed until they are built, silent on the tree and shown to fire on a seeded break"})

m = {
    "version": 1,
    "setup_cmd": f"mkdir -p bin && cd checker && {ENV} go build -o ../bin/prunnerlint .",
    "hooks": {
        "guard": "verif",
        "enable": "none — the checks read /repo's source only (go/packages + go/ssa); no hook or instrumentation exists in /repo",
        "baseline_off_cmd": "cd /repo && GOFLAGS=-mod=mod GOPROXY=off GOSUMDB=off go test -vet=off -count=1 -timeout 25m ./...",
        "source_commits": [],
        "add_only": True,
    },
    "engines": [{
        "name": "prunnerlint",
        "path": "checker/",
        "serves_properties": [c["property_id"] for c in checks],
        "kind_free_text": "repository-specific static analyser: go/packages type-checked load of /repo's working tree, go/ssa, VTA call graph; lockset dataflow, CFG must-pass rules, acyclic path enumeration with helper inlining (decision/effect tables evaluated on order types), def-use flow, record-correspondence and router abstract interpretation; anchors are resolved by behaviour (function roles, field roles), not by name (DESIGN.md sections 4, 11.7–11.13)",
    }],
    "checks": checks,
    "not_applicable": na,
    "notes": "All checks are static: nothing in /repo is executed and no test is run. The thorough tier repeats the quick rules on 9 build configurations and then measures the rules (it never changes the verdict on /repo): ~396 single-edit variants (audit/, among them the mutants and behaviour-preserving variants that came out of a mutation sweep over all 616 single-token mutants of the sources, DESIGN.md 11.13), 160 seeded breaking changes from independent sub-agents plus 8 own mutants on refactored forms (seeded/) that must be reported, and 200 behaviour-preserving refactorings and small harmless edits from independent sub-agents (seeded-equivalent/) on which the rules must stay silent (3 of them are known limits and still alarm, DESIGN.md 11.10) — all loaded through an in-memory overlay; a thorough run takes several minutes per property. Each check loads /repo's current working tree on every run, reports file:line + rule + construct for a violation, and writes evidence/<id>.json. known_findings.json lists open findings (none suppresses anything but its own rule+construct) and fixed ones (which suppress nothing). 'fix:' commits in /repo repair genuine defects found by these rules.",
}
json.dump(m, open(os.path.join(here, "MANIFEST.json"), "w"), indent=1)
print("checks:", [c["property_id"] for c in checks], "na:", len(na))
