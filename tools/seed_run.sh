#!/bin/sh
# usage: seed_run.sh <patch.diff> <property>...|all   — run the given checks on a scratch worktree with the patch applied
P=$1; shift
[ "$1" = all ] && set -- C01 C02 C03 C04 C05 C06 C07 C08 C09 C10 C11 C12 C13 C14 C15 C16 C17 C18 C19 C20
S=$(mktemp -d /tmp/vsr-XXXXXX); rmdir $S
git -C /repo worktree add -q --detach $S HEAD || exit 2
git -C $S apply "$(realpath "$P")" || { git -C /repo worktree remove --force $S; exit 2; }
for p in "$@"; do
  ( /verif/bin/prunnerlint -property $p -repo $S -verif /verif -config linux/amd64 -obs-out /tmp/vsr-$$-$p.json >/dev/null 2>&1
  python3 - /tmp/vsr-$$-$p.json $p > /tmp/vsr-$$-$p.txt <<'PY'
import json,sys,os
v=json.load(open(sys.argv[1]))
if v.get('error'): print(sys.argv[2],'ERROR',v['error'][:400])
bad=[o for o in (v.get('obs') or []) if o['verdict'] in ('violation','undecided')]
print(sys.argv[2], 'fired' if bad else 'silent', len(bad))
W=int(os.environ.get('W','700'))
for o in bad[:int(os.environ.get('N','8'))]: print('   ',o['rule'],'@',o['construct'],'(',o['pos'],')',o.get('detail','')[:W])
PY
  rm -f /tmp/vsr-$$-$p.json ) &
done
wait
for p in "$@"; do cat /tmp/vsr-$$-$p.txt; rm -f /tmp/vsr-$$-$p.txt; done
git -C /repo worktree remove --force $S
