#!/bin/sh
# usage: seed_run.sh <patch.diff> <property>...   — run the given checks on a scratch worktree with the patch applied
P=$1; shift
S=$(mktemp -d /tmp/vsr-XXXXXX); rmdir $S
git -C /repo worktree add -q --detach $S HEAD || exit 2
git -C $S apply "$(realpath "$P")" || { git -C /repo worktree remove --force $S; exit 2; }
for p in "$@"; do
  /verif/bin/prunnerlint -property $p -repo $S -verif /verif -config linux/amd64 -obs-out /tmp/vsr-$$.json >/dev/null 2>&1
  python3 - /tmp/vsr-$$.json $p <<'PY'
import json,sys
v=json.load(open(sys.argv[1]))
if v.get('error'): print(sys.argv[2],'ERROR',v['error'][:400])
bad=[o for o in (v.get('obs') or []) if o['verdict'] in ('violation','undecided')]
print(sys.argv[2], 'fired' if bad else 'silent', len(bad))
for o in bad[:8]: print('   ',o['rule'],'@',o['construct'],'(',o['pos'],')',o.get('detail','')[:200])
PY
  rm -f /tmp/vsr-$$.json
done
git -C /repo worktree remove --force $S
