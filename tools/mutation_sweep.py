#!/usr/bin/env python3
"""Mutation sweep: applies classical single-token mutations to /repo's non-test sources (in memory, through the
checker's -overlay), runs all 20 checks on each and lists the mutants NO check reports. For those survivors
the project is built and the 43-test suite is run in a scratch worktree: a survivor that also passes the suite
is either an equivalent mutant or a blind spot of both the suite and the checks.

usage: mutation_sweep.py [--files a.go,b.go] [--max N] [--par P] [--skip-seen earlier.json] out.json
Nothing is written to /repo; worktrees are created under /tmp and removed.
"""
import json, os, re, subprocess, sys, tempfile, random
from concurrent.futures import ThreadPoolExecutor

ENV = dict(os.environ, GOFLAGS="-mod=mod", GOPROXY="off", GOSUMDB="off", GOTOOLCHAIN="local")
ENV.pop("GOWORK", None)
EXE = os.environ.get("PRUNNERLINT", "/verif/bin/prunnerlint")
FILES = ["prunner.go", "taskctl/scheduler.go", "taskctl/runner.go", "taskctl/executor.go", "taskctl/executor_unix.go",
         "taskctl/output_store.go", "store/store.go", "definition/pipelines.go", "definition/loader.go",
         "server/server.go", "app/app.go", "config/config.go", "helper/helper.go"]
args = sys.argv[1:]
maxn, par = 400, 10
seen_file = None
while args and args[0].startswith("--"):
    if args[0] == "--files": FILES = args[1].split(","); args = args[2:]
    elif args[0] == "--max": maxn = int(args[1]); args = args[2:]
    elif args[0] == "--par": par = int(args[1]); args = args[2:]
    elif args[0] == "--skip-seen": seen_file = args[1]; args = args[2:]
out = args[0]

OPS = [(r" == ", " != "), (r" != ", " == "), (r" <= ", " < "), (r" >= ", " > "), (r" < ", " <= "), (r" > ", " >= "),
       (r" && ", " || "), (r" \|\| ", " && "), (r"\btrue\b", "false"), (r"\bfalse\b", "true")]

def mutants_of(path):
    src = open("/repo/" + path).read().split("\n")
    res = []
    depth = 0
    infunc = False
    for i, line in enumerate(src):
        s = line.strip()
        if line.startswith("func "):
            infunc = True
        if not infunc or s.startswith("//") or not s:
            if line == "}": infunc = False
            continue
        code = line.split("//")[0]
        # token mutations outside of string literals (rough: skip lines with quotes around the match)
        for pat, rep in OPS:
            for m in re.finditer(pat, code):
                if code[:m.start()].count('"') % 2 == 1:
                    continue
                new = code[:m.start()] + rep + code[m.end():]
                res.append((path, i + 1, f"{m.group(0).strip()} -> {rep.strip()}", new + line[len(code):]))
        # statement deletion: a plain call or a plain assignment on its own line
        if re.match(r"^\t+[A-Za-z_][\w\.\[\]]*(\([^)]*\))?\.[A-Za-z_]\w*\(.*\)$", code) and "defer" not in code and "return" not in code and "log." not in code and "WithField" not in code and "Debug" not in code:
            res.append((path, i + 1, "delete call", "\t// (deleted)"))
        if re.match(r"^\t+[A-Za-z_][\w\.\[\]]* = [^=].*$", code) and ":=" not in code:
            res.append((path, i + 1, "delete assignment", "\t// (deleted)"))
        if line == "}": infunc = False
    return res, src

def checks_on(path, content):
    ov = tempfile.NamedTemporaryFile("w", suffix=".json", delete=False)
    json.dump({"/repo/" + path: content}, ov); ov.close()
    fired = {}
    for i in range(1, 21):
        pid = f"C{i:02d}"
        of = tempfile.mktemp(suffix=".json")
        subprocess.run([EXE, "-property", pid, "-repo", "/repo", "-verif", "/verif", "-overlay", ov.name, "-obs-out", of], env=ENV, capture_output=True)
        try:
            v = json.load(open(of)); os.remove(of)
        except Exception:
            fired[pid] = ["checker error"]; continue
        if v.get("error"):
            if "panic" in v["error"]:
                fired[pid] = ["ERROR " + v["error"][:100]]; break
            os.remove(ov.name); return None  # the mutated tree does not load (type error)
        bad = [o["rule"] for o in (v.get("obs") or []) if o["verdict"] in ("violation", "undecided")]
        if bad:
            fired[pid] = sorted(set(bad))
            break  # killed: one reporting check is enough
    os.remove(ov.name)
    return fired

def suite_on(path, content):
    S = tempfile.mkdtemp(prefix="vmut-", dir="/tmp"); os.rmdir(S)
    subprocess.run(["git", "-C", "/repo", "worktree", "add", "-q", "--detach", S, "HEAD"], capture_output=True)
    try:
        open(os.path.join(S, path), "w").write(content)
        p = subprocess.run("go build ./... && go vet ./... && go test -vet=off -count=1 ./...", shell=True, cwd=S, env=ENV, capture_output=True, text=True, timeout=900)
        return "PASS" if p.returncode == 0 else "FAIL", (p.stdout + p.stderr)[-300:]
    except Exception as e:
        return "FAIL", str(e)
    finally:
        subprocess.run(["git", "-C", "/repo", "worktree", "remove", "--force", S], capture_output=True)

allm = []
for f in FILES:
    ms, src = mutants_of(f)
    for (path, ln, what, newline) in ms:
        lines = list(src); lines[ln - 1] = newline
        allm.append({"file": path, "line": ln, "what": what, "old": src[ln - 1].strip(), "new": newline.strip(), "content": "\n".join(lines)})
if seen_file:
    seen = {(r["file"], r["line"], r["what"]) for r in json.load(open(seen_file))}
    allm = [m for m in allm if (m["file"], m["line"], m["what"]) not in seen]
random.seed(int(os.environ.get("VERIF_SEED", "1")))
random.shuffle(allm)
allm = allm[:maxn]
print(len(allm), "mutants", file=sys.stderr)

def one(m):
    fired = checks_on(m["file"], m["content"])
    r = {k: m[k] for k in ("file", "line", "what", "old", "new")}
    if fired is None:
        r["status"] = "does-not-compile"
    elif fired:
        r["status"] = "killed-by-checks"; r["by"] = fired
    else:
        st, tail = suite_on(m["file"], m["content"])
        r["status"] = "survived-both" if st == "PASS" else "killed-by-suite-only"
        if st != "PASS": r["suite_tail"] = tail[-200:]
    return r

res = []
with ThreadPoolExecutor(max_workers=par) as ex:
    for r in ex.map(one, allm):
        res.append(r)
        if len(res) % 20 == 0:
            json.dump(res, open(out, "w"), indent=1)
            print(len(res), file=sys.stderr)
json.dump(res, open(out, "w"), indent=1)
import collections
print(collections.Counter(r["status"] for r in res))
