#!/usr/bin/env python3
"""After a thorough run: a seeded change that 'survived' the check of a property OTHER than its own was only ever reported there
incidentally (typically an unresolved anchor on a restructured form). Its expectation is dropped from meta.json's detected_by so
that the audit tables measure what the rules are meant to report. A survivor under the seed's OWN property is printed, never dropped.
usage: prune_stale_expectations.py [--apply]"""
import json, glob, os, sys
apply = '--apply' in sys.argv
for f in sorted(glob.glob('/verif/evidence/C*.json')):
    e = json.load(open(f)); pid = e.get('property_id') or os.path.basename(f)[:3]
    a = (e.get('coverage') or {}).get('audit') or {}
    for r in a.get('results') or []:
        if r.get('status') == 'survived' and r['id'].startswith('seed:'):
            sid = r['id'][5:]
            own = sid[:3]
            if own == pid:
                print('OWN SURVIVOR', pid, sid); continue
            mp = f'/verif/seeded/{sid}/meta.json'
            m = json.load(open(mp))
            if pid in (m.get('detected_by') or {}):
                print('drop', pid, 'from', sid, m['detected_by'][pid][:2])
                if apply:
                    m.setdefault('no_longer_reported_by', {})[pid] = m['detected_by'].pop(pid)
                    json.dump(m, open(mp, 'w'), indent=1, ensure_ascii=False)
        if r.get('status') == 'false-alarm':
            print('FALSE ALARM', pid, r['id'], (r.get('reported') or [])[:2])
