#!/usr/bin/env python3
"""Re-runs the checks (PRUNNERLINT=exe) on the survivors of a mutation sweep: mut_recheck.py sweep.json [idx,idx,...]"""
import json, os, subprocess, sys, tempfile
from concurrent.futures import ThreadPoolExecutor
ENV = dict(os.environ, GOFLAGS="-mod=mod", GOPROXY="off", GOSUMDB="off", GOTOOLCHAIN="local"); ENV.pop("GOWORK", None)
EXE = os.environ.get("PRUNNERLINT", "/verif/bin/prunnerlint")
res = json.load(open(sys.argv[1]))
idx = [int(x) for x in sys.argv[2].split(",")] if len(sys.argv) > 2 else [i for i, r in enumerate(res) if r["status"] == "survived-both"]
def one(i):
    m = res[i]
    src = open("/repo/" + m["file"]).read().split("\n")
    assert src[m["line"] - 1].strip() == m["old"], (i, m)
    ind = src[m["line"] - 1][:len(src[m["line"] - 1]) - len(src[m["line"] - 1].lstrip())]
    src[m["line"] - 1] = ind + m["new"]
    ov = tempfile.NamedTemporaryFile("w", suffix=".json", delete=False)
    json.dump({"/repo/" + m["file"]: "\n".join(src)}, ov); ov.close()
    fired = {}
    for k in range(1, 21):
        pid = f"C{k:02d}"
        of = tempfile.mktemp(suffix=".json")
        subprocess.run([EXE, "-property", pid, "-repo", "/repo", "-verif", "/tmp", "-overlay", ov.name, "-obs-out", of], env=ENV, capture_output=True)
        try:
            v = json.load(open(of)); os.remove(of)
        except Exception:
            fired[pid] = ["checker error"]; continue
        if v.get("error"):
            fired[pid] = ["ERROR " + v["error"][:100]]; continue
        bad = [o["rule"] for o in (v.get("obs") or []) if o["verdict"] in ("violation", "undecided")]
        if bad: fired[pid] = sorted(set(bad))
    os.remove(ov.name)
    return i, fired
with ThreadPoolExecutor(max_workers=int(os.environ.get("PAR", "4"))) as ex:
    for i, fired in ex.map(one, idx):
        m = res[i]
        print(i, m["file"], m["line"], m["what"], "|", m["old"][:60], "=>", fired or "SILENT", flush=True)
