#!/bin/sh
# usage: intake_round.sh <round dir, e.g. /tmp/seed5> <out dir>
# confirms every delivered change of a sub-agent round: A/ with try_seed.py (demo passes without, suite passes with,
# demo fails with; all 20 checks on the patched tree), E*/ with try_equiv.py (builds, vet, suite, all 20 checks silent)
export GOFLAGS=-mod=mod GOPROXY=off GOSUMDB=off GOTOOLCHAIN=local
R=$1; OUT=$2; mkdir -p $OUT
cp /verif/bin/prunnerlint /tmp/prunnerlint-intake; export PRUNNERLINT=/tmp/prunnerlint-intake
( for d in $R/C*/A; do echo "python3 /verif/tools/try_seed.py $d > $OUT/$(basename $(dirname $d))-A.json 2>&1"; done
  for d in $R/C*/E*; do [ -f $d/patch.diff ] && echo "python3 /verif/tools/try_equiv.py $d > $OUT/$(basename $(dirname $d))-$(basename $d).json 2>&1"; done ) | xargs -P ${PAR:-8} -I{} sh -c '{}'
rm -f /tmp/prunnerlint-intake
