#!/usr/bin/env python3
"""Verify one seeded change and run every check against it.
usage: try_seed.py <seed dir> [pkgdir] [run-regex]
 1. scratch worktree of /repo HEAD: demo passes without the change
 2. patch applied: build + existing suite pass, demo fails
 3. all 20 checks evaluated on the patched scratch tree (-repo), report which rules fire
"""
import json, os, re, subprocess, sys, tempfile, shutil
ENV = dict(os.environ, GOFLAGS="-mod=mod", GOPROXY="off", GOSUMDB="off", GOTOOLCHAIN="local")
def sh(cmd, cwd=None, timeout=900):
    p = subprocess.run(cmd, shell=True, cwd=cwd, env=ENV, capture_output=True, text=True, timeout=timeout)
    return p.returncode, (p.stdout + p.stderr)
seed = sys.argv[1].rstrip('/')
where = open(os.path.join(seed, 'where.txt')).read() if os.path.exists(os.path.join(seed, 'where.txt')) else ''
pkg = sys.argv[2] if len(sys.argv) > 2 else None
run = sys.argv[3] if len(sys.argv) > 3 else None
if run is None:
    m = re.search(r"-run[ =]+['\"]?([^'\"\s]+)['\"]?", where)
    run = m.group(1) if m else 'TestSeed'
if pkg is None:
    pkg = '.'
    for cand in ['taskctl', 'server', 'definition', 'store', 'app', 'config', 'helper']:
        if re.search(r"(\./|`|\s|/)" + cand + r"(/|`|\s|$)", where) and ('package `' + cand in where or './' + cand in where or cand + '/' in where or 'into `' + cand in where or '"' + cand + '"' in where):
            pkg = cand
    demo = open(os.path.join(seed, 'demo_test.go')).read()
    m = re.search(r"^package (\w+)", demo, re.M)
    if m:
        p = m.group(1).replace('_test', '')
        pkg = {'prunner': '.', 'main': pkg}.get(p, p)
extra = '-race' if ('-race' in where and 'must be run with' in where or os.environ.get('SEED_RACE')) else ''
S = tempfile.mkdtemp(prefix='vseed-', dir='/tmp'); os.rmdir(S)
rc, out = sh(f"git -C /repo worktree add -q --detach {S} HEAD")
res = {'seed': seed, 'pkg': pkg, 'run': run}
try:
    def put_demo():
        for f in os.listdir(seed):
            if f.endswith('.go'):
                shutil.copy(os.path.join(seed, f), os.path.join(S, pkg, 'zz_seed_' + (f if f.endswith('_test.go') else f[:-3] + '_test.go')))
    def rm_demo():
        for f in os.listdir(os.path.join(S, pkg)):
            if f.startswith('zz_seed_'): os.remove(os.path.join(S, pkg, f))
    put_demo()
    rc, out = sh(f"go test -vet=off -count=1 {extra} -run '{run}' .", cwd=os.path.join(S, pkg))
    res['demo_without'] = 'PASS' if rc == 0 else 'FAIL'
    res['demo_without_tail'] = out[-400:] if rc != 0 else ''
    rm_demo()
    rc, out = sh(f"git apply {seed}/patch.diff", cwd=S)
    if rc != 0:
        rc, out = sh(f"git apply --3way {seed}/patch.diff", cwd=S)
    res['patch_applies'] = rc == 0
    if rc != 0:
        res['patch_error'] = out[-300:]
    else:
        rc, out = sh("go build ./... && go test -vet=off -count=1 ./...", cwd=S)
        res['suite_with'] = 'PASS' if rc == 0 else 'FAIL'
        if rc != 0: res['suite_tail'] = out[-600:]
        put_demo()
        rc, out = sh(f"go test -vet=off -count=1 {extra} -run '{run}' .", cwd=os.path.join(S, pkg))
        res['demo_with'] = 'PASS' if rc == 0 else 'FAIL'
        res['demo_with_tail'] = out[-300:]
        rm_demo()
        fired = {}
        for i in range(1, 21):
            pid = f"C{i:02d}"
            of = tempfile.mktemp(suffix='.json')
            rc, out = sh(f"{os.environ.get('PRUNNERLINT','/verif/bin/prunnerlint')} -property {pid} -repo {S} -verif /verif -config linux/amd64 -obs-out {of}")
            try:
                v = json.load(open(of)); os.remove(of)
            except Exception as e:
                fired[pid] = ['checker error: ' + out[-200:]]; continue
            if v.get('error'): fired[pid] = ['ERROR ' + v['error'][:300]]
            bad = [f"{o['rule']} @ {o['construct']} ({o['pos']}): {o.get('detail','')[:160]}" for o in (v.get('obs') or []) if o['verdict'] in ('violation', 'undecided')]
            if bad: fired[pid] = bad
        res['fired'] = fired
finally:
    sh(f"git -C /repo worktree remove --force {S}")
print(json.dumps(res, indent=1, ensure_ascii=False))
