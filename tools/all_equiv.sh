#!/bin/sh
# run every stored equivalent refactoring against all 20 checks (or PROPS="C09 C10"); prints the ones that raise an alarm
# env: PAT (glob of directories), PAR (parallelism), BIN (checker binary), PROPS (properties; then the suite is not run)
export GOFLAGS=-mod=mod GOPROXY=off GOSUMDB=off GOTOOLCHAIN=local
OUT=${1:-/tmp/eqout}; rm -rf $OUT; mkdir -p $OUT
cp ${BIN:-/verif/bin/prunnerlint} /tmp/prunnerlint-eq; export PRUNNERLINT=/tmp/prunnerlint-eq
ls -d /verif/seeded-equivalent/${PAT:-*}/ | xargs -P ${PAR:-6} -I{} sh -c 'python3 /verif/tools/try_equiv.py {} > '$OUT'/$(basename {}).json 2>&1'
python3 - $OUT <<'PY'
import json,glob,sys
n=0
for f in sorted(glob.glob(sys.argv[1]+'/*.json')):
    try: d=json.load(open(f))
    except Exception: print(f,'BAD'); continue
    fired=d.get('fired',{})
    if fired:
        n+=1
        print('==',f.split('/')[-1][:-5], sorted(fired))
        seen=set()
        for k,vs in fired.items():
            for v in vs:
                key=v.split(' (')[0].split('/',1)[1]
                if key in seen: continue
                seen.add(key); print('    ',k, v[:300])
print(n,'equivalents raise alarms')
PY
