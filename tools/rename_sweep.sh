#!/bin/sh
# Renames one unexported identifier at a time in a scratch worktree (word-boundary sed over the
# non-test sources) and runs all 20 checks: every check must stay silent on a pure rename.
export GOFLAGS=-mod=mod GOPROXY=off GOSUMDB=off GOTOOLCHAIN=local
cp /verif/bin/prunnerlint /tmp/prunnerlint-rn
one() {
  OLD=$1; NEW=$2
  S=$(mktemp -d /tmp/vren-XXXXXX); rmdir $S
  git -C /repo worktree add -q --detach $S HEAD
  grep -rl --include=*.go "\b$OLD\b" $S | xargs sed -i "s/\b$OLD\b/$NEW/g"
  if ! (cd $S && go build ./... >/dev/null 2>&1 && go vet ./... >/dev/null 2>&1); then echo "$OLD->$NEW: does not build"; git -C /repo worktree remove --force $S; return; fi
  out=""
  for i in $(seq -w 1 20); do
    /tmp/prunnerlint-rn -property C$i -repo $S -verif /verif -config linux/amd64 -obs-out $S.json >/dev/null 2>&1
    r=$(python3 - $S.json C$i <<'PY'
import json,sys
try: v=json.load(open(sys.argv[1]))
except Exception as e: print(sys.argv[2]+':ERR'); sys.exit()
if v.get('error'): print(sys.argv[2]+':ERROR')
bad=sorted(set(o['rule'].split('/')[1] for o in (v.get('obs') or []) if o['verdict'] in ('violation','undecided')))
if bad: print(sys.argv[2]+':'+','.join(bad[:6]))
PY
)
    out="$out $r"
  done
  rm -f $S.json
  git -C /repo worktree remove --force $S
  echo "$OLD->$NEW:$out"
}
while read a b; do [ -n "$a" ] && one $a $b; done <<'LIST'
waitListByPipeline waitLists
jobsByPipeline pipelineJobs
jobsByID jobs
isShuttingDown shuttingDown
persistRequests saveRequests
cancelRequested cancelAcknowledged
startTimer delayTimer
sched scheduler0
defs definitions
mx mu
createTaskRunner newTaskRunner
outputStore logStore
cancelled stopFlag
killTimeout killAfter
cancelFunc stopFunc
canceling stopping
resolveScheduleAction decideAdmission
resolveDequeueJobAction decideDequeue
startJobsOnWaitList drainWaitList
startJob launchJob
cancelJobInternal cancelByID
requestCancel cancelAcknowledgedJob
removeFromWaitList dropFromWaitList
requestPersist markDirty
determineIfJobShouldBeRemoved retentionDecision
isRunning stillRunning
runningJobsCount countRunning
isSchedulable canSchedule
markAsCanceled setCanceled
initialLoadFromStore restoreFromStore
buildJobFromPersistedJob jobFromRecord
buildJobTasks snapshotTasks
buildPipelineGraph graphFor
checkStatus dependenciesReady
runStage execStage
createExecHandler newGroupExecHandler
jobToResult toJobResult
setDefaults applyDefaults
LIST
