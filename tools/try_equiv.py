#!/usr/bin/env python3
"""Check a behaviour-preserving refactoring (patch) against every check: it must build, pass
the suite and make NO check fire.
usage: try_equiv.py <dir with patch.diff>
"""
import json, os, subprocess, sys, tempfile
ENV = dict(os.environ, GOFLAGS="-mod=mod", GOPROXY="off", GOSUMDB="off", GOTOOLCHAIN="local")
def sh(cmd, cwd=None, timeout=900):
    p = subprocess.run(cmd, shell=True, cwd=cwd, env=ENV, capture_output=True, text=True, timeout=timeout)
    return p.returncode, (p.stdout + p.stderr)
seed = sys.argv[1].rstrip('/')
S = tempfile.mkdtemp(prefix='veq-', dir='/tmp'); os.rmdir(S)
sh(f"git -C /repo worktree add -q --detach {S} HEAD")
res = {'seed': seed}
try:
    rc, out = sh(f"git apply {seed}/patch.diff", cwd=S)
    res['patch_applies'] = rc == 0
    if rc != 0:
        res['patch_error'] = out[-300:]
    else:
        props = os.environ.get('PROPS', '').split()
        rc, out = (0, '') if props else sh("go build ./... && go vet ./... && go test -vet=off -count=1 ./...", cwd=S)
        res['suite_with'] = 'PASS' if rc == 0 else 'FAIL'
        if rc != 0: res['suite_tail'] = out[-600:]
        fired = {}
        exe = os.environ.get('PRUNNERLINT', '/verif/bin/prunnerlint')
        for i in range(1, 21):
            pid = f"C{i:02d}"
            if props and pid not in props:
                continue
            of = tempfile.mktemp(suffix='.json')
            rc, out = sh(f"{exe} -property {pid} -repo {S} -verif /verif -config linux/amd64 -obs-out {of}")
            try:
                v = json.load(open(of)); os.remove(of)
            except Exception as e:
                fired[pid] = ['checker error: ' + out[-200:]]; continue
            if v.get('error'): fired[pid] = ['ERROR ' + v['error'][:300]]
            bad = [f"{o['rule']} @ {o['construct']} ({o['pos']}): {o.get('detail','')[:200]}" for o in (v.get('obs') or []) if o['verdict'] in ('violation', 'undecided')]
            if bad: fired[pid] = bad
        res['fired'] = fired
finally:
    sh(f"git -C /repo worktree remove --force {S}")
print(json.dumps(res, indent=1, ensure_ascii=False))
