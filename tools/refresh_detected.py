#!/usr/bin/env python3
"""Re-evaluate all 20 checks on every stored seeded change and rewrite `detected_by` in its meta.json.
usage: refresh_detected.py [seed id ...]      (default: all of /verif/seeded)
Each seed is applied to its own scratch worktree of /repo HEAD (removed afterwards); /repo is not touched.
"""
import json, os, subprocess, sys, tempfile, glob
from concurrent.futures import ThreadPoolExecutor
ENV = dict(os.environ, GOFLAGS="-mod=mod", GOPROXY="off", GOSUMDB="off", GOTOOLCHAIN="local")
ENV.pop("GOWORK", None)
EXE = os.environ.get("PRUNNERLINT", "/verif/bin/prunnerlint")

def sh(cmd, cwd=None):
    p = subprocess.run(cmd, shell=True, cwd=cwd, env=ENV, capture_output=True, text=True)
    return p.returncode, p.stdout + p.stderr

def one(seed):
    S = tempfile.mkdtemp(prefix="vrd-", dir="/tmp"); os.rmdir(S)
    sh(f"git -C /repo worktree add -q --detach {S} HEAD")
    try:
        rc, out = sh(f"git apply {seed}/patch.diff", cwd=S)
        if rc != 0:
            return seed, None, "patch does not apply: " + out[-200:]
        fired = {}
        for i in range(1, 21):
            pid = f"C{i:02d}"
            of = tempfile.mktemp(suffix=".json")
            rc, out = sh(f"{EXE} -property {pid} -repo {S} -verif /verif -config linux/amd64 -obs-out {of}")
            try:
                v = json.load(open(of)); os.remove(of)
            except Exception:
                return seed, None, f"{pid}: checker error {out[-200:]}"
            if v.get("error"):
                return seed, None, f"{pid}: {v['error'][:200]}"
            bad = sorted({f"{o['rule']} @ {o['construct']}" for o in v.get("obs", []) if o["verdict"] in ("violation", "undecided")})
            if bad:
                fired[pid] = bad
        return seed, fired, ""
    finally:
        sh(f"git -C /repo worktree remove --force {S}")

seeds = [f"/verif/seeded/{s}" for s in sys.argv[1:]] or sorted(glob.glob("/verif/seeded/*"))
seeds = [s for s in seeds if os.path.exists(s + "/meta.json")]
with ThreadPoolExecutor(max_workers=int(os.environ.get("PAR", "8"))) as ex:
    for seed, fired, err in ex.map(one, seeds):
        if fired is None:
            print(os.path.basename(seed), "ERROR", err); continue
        mf = seed + "/meta.json"
        m = json.load(open(mf))
        m["detected_by"] = fired
        m["detected_by_own_property_check"] = m["property"] in fired
        json.dump(m, open(mf, "w"), indent=1, ensure_ascii=False)
        print(os.path.basename(seed), "own" if m["property"] in fired else "NOT-OWN", sorted(fired))
