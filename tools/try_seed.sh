#!/bin/bash
# usage: try_seed.sh <seed dir with patch.diff and demo_test.go> <package dir relative to repo root> <go test -run regex> [extra go test flags]
# 1. verifies the seeded change in a scratch worktree (demo passes without, suite passes with, demo fails with)
# 2. applies the patch to /repo, runs every registered quick check, undoes the patch
set -u
export GOFLAGS=-mod=mod GOPROXY=off GOSUMDB=off GOTOOLCHAIN=local
SEED=$1; PKG=$2; RUN=$3; shift 3; EXTRA="$*"
S=/tmp/vseed-$$
git -C /repo worktree add -q --detach $S HEAD || exit 2
trap 'git -C /repo worktree remove --force $S >/dev/null 2>&1; git -C /repo checkout -- . >/dev/null 2>&1' EXIT
cp $SEED/demo_test.go $S/$PKG/zz_seed_demo_test.go
for f in $SEED/*.go; do b=$(basename $f); [ "$b" != demo_test.go ] && cp $f $S/$PKG/zz_seed_$b; done 2>/dev/null
echo "--- demo WITHOUT the change (expect PASS)"
(cd $S/$PKG && go test -vet=off -count=1 -run "$RUN" $EXTRA . 2>&1 | tail -3)
git -C $S apply $SEED/patch.diff || { echo "PATCH DOES NOT APPLY"; exit 2; }
echo "--- build + existing suite WITH the change (expect ok)"
rm $S/$PKG/zz_seed_*.go
(cd $S && go build ./... && go test -vet=off -count=1 ./... 2>&1 | grep -v "no test files")
cp $SEED/demo_test.go $S/$PKG/zz_seed_demo_test.go
for f in $SEED/*.go; do b=$(basename $f); [ "$b" != demo_test.go ] && cp $f $S/$PKG/zz_seed_$b; done 2>/dev/null
echo "--- demo WITH the change (expect FAIL)"
(cd $S/$PKG && go test -vet=off -count=1 -run "$RUN" $EXTRA . 2>&1 | tail -4)
echo "--- checks on /repo with the patch applied"
git -C /repo apply $SEED/patch.diff || { echo "cannot apply to /repo"; exit 2; }
cd /verif
for p in C01 C02 C03 C04 C05 C06 C07 C08 C09 C10 C11 C12 C13 C14 C15 C16 C17 C18 C19 C20; do
  out=$(./bin/prunnerlint -property $p 2>&1); rc=$?
  if [ $rc -ne 0 ]; then echo "$p FIRES:"; echo "$out" | grep -v "^VIOLATION\|quick:" | cut -c1-260 | head -4; fi
done
git -C /repo checkout -- .
git -C /repo status --short | head -3
# restore evidence written during the patched runs
cd /verif && git checkout -- evidence 2>/dev/null
echo "--- done"
